"""C18 helper: "input validation accepts exactly the well-formed values it names".

For every validated input of every Switch client this module generates, from a *specification written per byte /
per field* (not from the library's code), well-formed values and their malformations:

  aauth   auth_digital, API 3 (< 15.0.0)  raw ticket: every byte the check covers (signature type 0..3, master key
                                          revision 0x285, title id 0x2A0..0x2A7, lower half of the rights id
                                          0x2A8..0x2AF) mutated one at a time (every bit) and in pairs; every byte the
                                          check does NOT cover mutated (must stay accepted, the ticket that is sent is
                                          the ticket that was given); sizes around 0x2C0; every bit of the title id argument
  aauth   auth_digital, API >= 4          contents authorization token: number and position of dots, other types, look-alike dots
  five    send_invitation                 receivers around 16, application data around 0x400 bytes, every documented
                                          language tag x message length around 0xC0, near-miss tags derived from every
                                          documented tag (case, separators, truncation, concatenation of neighbours), a
                                          malformed entry at every position of a 16-language dictionary, all 2^4
                                          combinations of the four boundaries
  baas    login                           na_country None / '' / values x app token x skip flag on every version
  dragons / sun / atumn                   device id None / 0 (falsy but valid) / 1 / 2^64-1 on every call and version
  all     set_system_version              values that are not version numbers at all

Each case names what the specification expects ("accept" / "refuse"); `judge` compares the real outcome with it:
a well-formed value must be accepted and must be carried unchanged in the request, a malformed one must be refused
with ValueError before any request is handed to the request callback.  The same cases are also run against the
compiled Lean model (byte-exact correspondence) where the driver can express the arguments.
"""
import base64, json, struct, urllib.parse
import switch_cases as sc

TICKET_SIZE = 0x2C0
SIG_BYTES = [0, 1, 2, 3]
REV_BYTE = 0x285
TITLE_BYTES = list(range(0x2A0, 0x2A8))
RIGHTS_LOW_BYTES = list(range(0x2A8, 0x2B0))
COVERED = SIG_BYTES + [REV_BYTE] + TITLE_BYTES + RIGHTS_LOW_BYTES
FIELD_OF = {**{p: "signature type" for p in SIG_BYTES}, REV_BYTE: "master key revision",
            **{p: "title id" for p in TITLE_BYTES}, **{p: "rights id (low half)" for p in RIGHTS_LOW_BYTES}}


def ticket_spec(t, title_id):
    """byte-wise statement of a well-formed ticket for `title_id`: None, or the field that is wrong"""
    if not isinstance(t, (bytes, bytearray)): return "type"
    if len(t) != TICKET_SIZE: return "size"
    if bytes(t[0:4]) != b"\x04\x00\x01\x00": return "signature type"
    if not (0 <= title_id < 1 << 64) or bytes(t[0x2A0:0x2A8]) != title_id.to_bytes(8, "big"): return "title id"
    # the lower half of the rights id is the master key revision as a big-endian 64-bit number
    if bytes(t[0x2A8:0x2AF]) != bytes(7) or t[0x2AF] != t[REV_BYTE]: return "master key revision"
    return None


def make_ticket(title_id, rev, fill=None):
    t = bytearray(TICKET_SIZE) if fill is None else bytearray(fill)
    struct.pack_into("<I", t, 0, 0x10004)
    t[REV_BYTE] = rev
    struct.pack_into(">Q", t, 0x2A0, title_id)
    struct.pack_into(">Q", t, 0x2A8, rev)
    return bytes(t)


def base_tickets(rng):
    t1 = 0x0100ABCD12345000
    t2 = rng.getrandbits(64) | (0x81 << 56) | 1          # every byte of the title id field in use
    t3 = 0x0102030405060708
    return [("zero-fill-rev0", make_ticket(t1, 0), t1),
            ("random-fill", make_ticket(t2, rng.randrange(1, 255), bytes(rng.getrandbits(8) for _ in range(TICKET_SIZE))), t2),
            ("ff-fill-rev255", make_ticket(t3, 0xFF, b"\xff" * TICKET_SIZE), t3)]


def _case(client, ver, call, args, tag, expect, devid=None, model=True, note=None, carried=None):
    return {"client": client, "devid": devid, "ver": ver, "cfg": {}, "call": call, "args": args, "tag": tag,
            "expect": expect, "model": model, "note": note, "carried": carried}


def _tk(ver, title, ticket, tag, note, model=True):
    why = ticket_spec(ticket, title)
    return _case("aauth", ver, "auth_digital", [title, 3, sc.TOK, ticket], tag, "accept" if why is None else "refuse",
                 model=model and title >= 0, note=note if why is None else "%s; malformed field: %s" % (note, why), carried="ticket")


def ticket_cases(rng, ver, full):
    """mutations of one well-formed ticket per base, for a version whose aauth API wants a raw ticket"""
    C = []
    bases = base_tickets(rng)
    if not full:
        bases = [bases[1]] if rng.random() < 0.6 else [rng.choice(bases)]
    for name, good, title in bases:
        C.append(_tk(ver, title, good, "ticket/%s/good" % name, "well-formed ticket"))
        C.append(_tk(ver, title, bytearray(good), "ticket/%s/good-bytearray" % name, "well-formed ticket as bytearray"))
        # one covered byte at a time
        for pos in COVERED:
            bits = list(range(8)) if full else sorted({rng.randrange(8), rng.randrange(8)})
            vals = [good[pos] ^ (1 << b) for b in bits]
            for extra in (0x00, 0xFF, good[pos] ^ 0xFF):
                if extra != good[pos] and extra not in vals and (full or rng.random() < 0.3): vals.append(extra)
            for v in vals:
                t = bytearray(good); t[pos] = v
                C.append(_tk(ver, title, bytes(t), "ticket/%s/byte-%03x=%02x" % (name, pos, v),
                             "byte 0x%03X (%s) changed from 0x%02X to 0x%02X" % (pos, FIELD_OF[pos], good[pos], v)))
        # two covered bytes at a time (includes the consistent change of revision byte and last rights-id byte)
        pairs = [(a, b) for i, a in enumerate(COVERED) for b in COVERED[i + 1:]]
        if not full:
            keep = [(REV_BYTE, 0x2AF)] + [p for p in pairs if p[0] == REV_BYTE and p[1] in RIGHTS_LOW_BYTES]
            pairs = keep + rng.sample(pairs, 24)
        for a, b in pairs:
            combos = [(good[a] ^ (1 << rng.randrange(8)), good[b] ^ (1 << rng.randrange(8)))]
            if {a, b} == {REV_BYTE, 0x2AF}:
                x = (good[a] + rng.randrange(1, 255)) % 256
                combos += [(x, x), ((good[a] + 1) % 256, (good[a] + 1) % 256)]
            elif a == REV_BYTE and b in RIGHTS_LOW_BYTES:
                x = rng.randrange(1, 256)
                combos.append((x, x))      # revision copied into a *wrong* byte of the rights id
            for va, vb in combos:
                t = bytearray(good); t[a] = va; t[b] = vb
                C.append(_tk(ver, title, bytes(t), "ticket/%s/bytes-%03x=%02x,%03x=%02x" % (name, a, va, b, vb),
                             "bytes 0x%03X (%s) and 0x%03X (%s) changed to 0x%02X and 0x%02X" % (a, FIELD_OF[a], b, FIELD_OF[b], va, vb)))
        # bytes the check does not cover: the ticket stays well-formed
        free = [p for p in range(TICKET_SIZE) if p not in COVERED]
        if not (full and name == "random-fill"):     # every uncovered byte on one base, the field neighbours + a sample on the others
            edge = [4, 0x284, 0x286, 0x29F, 0x2B0, TICKET_SIZE - 1]
            free = edge + rng.sample([p for p in free if p not in edge], 24 if full else 10)
        for pos in free:
            t = bytearray(good); t[pos] ^= 0xFF if full else (1 << rng.randrange(8))
            C.append(_tk(ver, title, bytes(t), "ticket/%s/free-%03x" % (name, pos), "uncovered byte 0x%03X changed" % pos))
        # sizes
        for n in [0, 1, 3, 4, 0x285, 0x286, 0x2A8, 0x2AF, 0x2B0, 0x2BF, 0x2C1, 0x2C4, 0x2D0, 2 * TICKET_SIZE]:
            t = (good + good)[:n]
            C.append(_tk(ver, title, t, "ticket/%s/size-%x" % (name, n), "ticket cut / extended to 0x%X bytes" % n))
        # the title id argument
        bits = list(range(64)) if full else sorted({0, 63, 7, 8} | {rng.randrange(64) for _ in range(6)})
        for b in bits:
            C.append(_tk(ver, title ^ (1 << b), good, "ticket/%s/title-arg-bit%d" % (name, b), "title id argument differs from the ticket's in bit %d" % b))
        C.append(_tk(ver, title + (1 << 64), good, "ticket/%s/title-arg-plus-2^64" % name, "title id argument = ticket's + 2^64"))
        C.append(_tk(ver, -title, good, "ticket/%s/title-arg-negative" % name, "title id argument negated", model=False))
    return C


def token_spec(tok):
    return isinstance(tok, str) and tok.count(".") == 2


def token_cases(rng, ver, full):
    """contents authorization token (API >= 4): a str with exactly two dots"""
    seg = lambda: "".join(rng.choice("abcXYZ019-_=") for _ in range(rng.randrange(0, 6)))
    vals = [("aaa.bbb.ccc", True), ("..", True), ("a..", True), ("..c", True), (".b.", True), ("", True), (".", True), ("a.b", True),
            ("a.b.c.", True), (".a.b.c", True), ("a.b.c.d", True), ("....", True), ("a b.c+d.e/f=", True), ("é.ü.ñ", True),
            ("a．b．c", True), ("a。b。c", True), ("a.b．c", True), ("a,b,c", True), ("a.b.c\n", True), ("a.b\x00.c", True)]
    for k in range(0, 6):
        vals.append((".".join(seg() for _ in range(k + 1)), True))
    vals += [(b"a.b.c", True), (bytearray(b"a.b.c"), False), (None, False), (5, False), (("a", ".", "."), False), ([".", "."], False),
             (sc.ticket(sc.TITLE), True)]
    C = []
    for i, (tok, model) in enumerate(vals):
        ok = token_spec(tok)
        C.append(_case("aauth", ver, "auth_digital", [sc.TITLE, 3, sc.TOK, tok], "token/%d:%s" % (i, ascii(tok)[:24]),
                       "accept" if ok else "refuse", model=model, carried="token",
                       note="cert = %s" % ascii(tok)[:60]))
    return C


# ------------------------------------------------------------------ five

def near_miss_tags(doc):
    """values one edit away from each documented tag (and from pairs of neighbours)"""
    out = []
    def add(x):
        if x not in out: out.append(x)
    for i, t in enumerate(doc):
        add(t.upper()); add(t.lower()); add(t.swapcase()); add(t.replace("-", "_")); add(t.replace("-", ""))
        add(t + " "); add(" " + t); add(t + "\n"); add(t[:-1]); add(t[1:]); add(t + t); add(t + "-"); add(t + "\x00")
        add(t.split("-")[0] + "-XX"); add(t + "-" + t.split("-")[0].upper())
        add(t + doc[(i + 1) % len(doc)]); add(t + "," + doc[(i + 1) % len(doc)])
        for j, u in enumerate(doc):
            if i != j: add(t + u)          # adjacent string literals without a comma, in any order of the list
    add("xx"); add("en-us"); add("zh"); add("zh-CN"); add("zh-TW"); add("pt-PT"); add("es-ES"); add("é"); add("日本語"); add("ja　")
    return out


def invitation_cases(rng, ver, full, doc):
    C = []
    def inv(recv, data, msgs, tag, ok, note, model=True, match=False, acd=0):
        C.append(_case("five", ver, "send_invitation", ["acc", recv, sc.TITLE, sc.TITLE, data, msgs, match, acd], "inv/" + tag,
                       "accept" if ok else "refuse", model=model, note=note, carried="invitation"))
    for n in [0, 1, 2, 15, 16, 17, 18, 31, 32, 33, 64, 255, 256]:
        inv([0x1000 + i for i in range(n)], b"d", {"en-US": "m"}, "receivers-%d" % n, n <= 16, "%d receivers (at most 16 allowed)" % n)
    for n in [0, 1, 0x3FF, 0x400, 0x401, 0x402, 0x7FF, 0x800, 0x1000]:
        inv([1], bytes((i * 7) & 0xFF for i in range(n)), {"ja": "m"}, "data-%x" % n, n <= 0x400, "application data of 0x%X bytes (at most 0x400 allowed)" % n)
    for lang in doc:
        for n in [0, 1, 0xBE, 0xBF, 0xC0, 0xC1, 0x180]:
            inv([1], b"", {lang: "m" * n}, "msg-%s-%x" % (lang, n), n < 0xC0, "message of 0x%X characters for %r (fewer than 0xC0 allowed)" % (n, lang))
    inv([1], b"", {"fr": "é" * 0x20}, "msg-nonascii-short", True, "0x20 non-ASCII characters")
    inv([1], b"", {"fr": "é" * 0xC0}, "msg-nonascii-long", False, "0xC0 non-ASCII characters")
    inv([1], b"", {"ja": "語" * 0x100}, "msg-cjk-long", False, "0x100 CJK characters")
    # every documented tag is accepted, alone and all together; near misses are not
    for lang in doc:
        inv([1], b"", {lang: "hello"}, "lang-%s" % lang, True, "documented language tag %r" % lang)
    inv([1, 2], b"x", {l: "m-" + l for l in doc}, "lang-all16", True, "all 16 documented language tags")
    inv([1, 2], b"x", {l: "m-" + l for l in reversed(doc)}, "lang-all16-reversed", True, "all 16 documented language tags, reversed")
    near = near_miss_tags(doc)
    if not full:
        # quick: the single edits of every tag + a sample of the pair concatenations
        singles = [t for t in near if not any(t == a + b for a in doc for b in doc)]
        concat = [t for t in near if t not in singles]
        near = singles + rng.sample(concat, min(len(concat), 48))
    for t in near:
        inv([1], b"", {t: "m"}, "tag-%s" % ascii(t), t in doc, "language tag %s (%s)" % (ascii(t), "documented" if t in doc else "not a documented tag"))
    inv([1], b"", {None: "m"}, "tag-None", False, "language tag None", model=False)
    # a malformed entry at every position of a full dictionary
    for i in range(len(doc) + 1):
        items = [(l, "m") for l in doc]
        items.insert(i, ("xx-%d" % i, "m"))
        inv([1], b"", dict(items), "bad-tag-at-%d" % i, False, "an undocumented tag as entry %d of 17" % i)
    for i in range(len(doc)):
        items = [(l, "m") for l in doc]
        items[i] = (doc[i], "m" * 0xC0)
        inv([1], b"", dict(items), "long-msg-at-%d" % i, False, "a message of 0xC0 characters as entry %d of 16" % i)
    # the four boundaries in every combination
    for r in (16, 17):
        for d in (0x400, 0x401):
            for m in (0xBF, 0xC0):
                for lang in ("ko", "ko-KR"):
                    ok = r == 16 and d == 0x400 and m == 0xBF and lang == "ko"
                    inv(list(range(r)), b"z" * d, {"de": "x", lang: "m" * m}, "combo-r%d-d%x-m%x-%s" % (r, d, m, lang), ok,
                        "%d receivers, 0x%X data bytes, 0x%X message characters, tag %r" % (r, d, m, lang), match=True, acd=3)
    return C


# ------------------------------------------------------------------ baas / dragons / sun / atumn

def login_cases(ver):
    C = []
    for country in [None, "", "NL", "nl", "0", "JP ", "日本"]:
        for app in [None, "", "app.tok"]:
            for skip in (False, True):
                ok = not (ver == "init" or ver >= 1800) or country is not None
                C.append(_case("baas", ver, "login", [0x1234, "pw", "acc", app, country, skip],
                               "login/country=%s/app=%s/skip=%d" % (ascii(country), ascii(app), skip), "accept" if ok else "refuse",
                               carried="login", note="na_country=%s" % ascii(country)))
    return C


def device_cases(ver, variants):
    C = []
    for client in ("dragons", "sun", "atumn"):
        for devid in ([None] if client == "dragons" else []) + [0, 1, (1 << 64) - 1]:
            for call, args, tag in variants[client]:
                ok = True
                if client == "dragons":
                    aauth_style = call == "contents_authorization_token_for_aauth"
                    if devid is None and not aauth_style: ok = False
                    if aauth_style and ver != "init" and ver < 1500: ok = False
                C.append(_case(client, ver, call, args, "device/%s/%s/%s" % (devid, call, tag), "accept" if ok else "refuse", devid=devid,
                               carried="device", note="device id %s" % (None if devid is None else "0x%x" % devid)))
    return C


NOT_VERSIONS = [None, "1900", "19.0.0", b"1900", (19, 0, 0), [1900], 1900.5, -1900, 1900 + (1 << 64), 1900 + (1 << 32), True, False, "", 19, 190]


# ------------------------------------------------------------------ judging

def _form(cap):
    method, path, query, headers, body = sc.split_request(cap["data"])
    return dict(headers), {urllib.parse.unquote_plus(k): (None if v is None else urllib.parse.unquote_plus(v)) for k, v in sc.form_pairs(body.decode())}


def _b64url(s):
    return base64.b64decode(s + "=" * (-len(s) % 4), b"-_")


def carried(case, res, keys):
    """the accepted value is in the request unchanged. None or text."""
    kind = case["carried"]
    caps = res["caps"]
    try:
        if kind == "ticket":
            title, _, _, ticket = case["args"]
            hd, form = _form(caps[-1])
            if form.get("application_id") != "%016x" % title: return "application_id %r is not the title id" % form.get("application_id")
            if "cert" not in form or "cert_key" not in form: return "the request carries no cert / cert_key"
            ct = _b64url(form["cert"])
            if keys:
                from Crypto.Cipher import AES
                from Crypto.Util.Padding import unpad
                for k in reversed(keys):
                    try:
                        pt = unpad(AES.new(k, AES.MODE_CBC, iv=bytes(16)).decrypt(ct), 16)
                    except Exception:
                        continue
                    if pt == bytes(ticket): return None
                return "the encrypted cert does not decrypt to the ticket that was passed in"
            if len(ct) != TICKET_SIZE + 16: return "encrypted cert has %d bytes" % len(ct)
        elif kind == "token":
            hd, form = _form(caps[-1])
            if form.get("cert") != case["args"][3]: return "cert %r is not the token that was passed in" % form.get("cert")
            if "cert_key" in form: return "cert_key sent with a token"
        elif kind == "invitation":
            _, recv, app, grp, data, msgs, match, acd = case["args"]
            method, path, query, headers, body = sc.split_request(caps[-1]["data"])
            j = json.loads(body.decode())
            if j.get("receiver_ids") != ["%016x" % r for r in recv]: return "receiver_ids are not the receivers that were passed in"
            if j.get("messages") != msgs: return "messages %r are not the messages that were passed in" % (j.get("messages"),)
            if (base64.b64decode(j["application_data"]) if "application_data" in j else b"") != data: return "application_data is not the data that was passed in"
            if j.get("application_id_match") is not match: return "application_id_match changed"
        elif kind == "login":
            ver, country, app, skip = case["ver"], case["args"][4], case["args"][3], case["args"][5]
            hd, form = _form(caps[-1])
            new = ver == "init" or ver >= 1800
            if new and form.get("naCountry") != country: return "naCountry %r is not the country that was passed in" % form.get("naCountry")
            if not new and "naCountry" in form: return "naCountry sent before 18.0.0"
            if ("appAuthNToken" in form) != bool(app): return "appAuthNToken presence is wrong"
            if ("skipOp2Verification" in form) != skip: return "skipOp2Verification presence is wrong"
        elif kind == "device":
            if case["client"] == "dragons" and case["call"] == "contents_authorization_token_for_aauth": return None
            for cap in caps:
                hd, _ = _form({"data": cap["data"].split(b"\r\n\r\n")[0] + b"\r\n\r\n"})
                if "did:%016x;" % case["devid"] not in hd.get("User-Agent", ""): return "User-Agent %r does not carry device id %016x" % (hd.get("User-Agent"), case["devid"])
    except Exception as e:
        return "request could not be read back: %r" % (e,)
    return None


def judge(case, res, keys=None):
    """the property on the real code for one generated value. None or text."""
    if res.get("setup_failed"):
        return "constructing / configuring the client failed: %r" % (res["exc"],)
    if case["expect"] == "refuse":
        if res["ok"]:
            return "a malformed value is accepted (%d request(s) sent)" % len(res["caps"])
        if res["caps"]:
            return "refused with %r, but only after %d request(s) had been handed to the request callback" % (res["exc"], len(res["caps"]))
        if not isinstance(res["exc"], ValueError):
            return "refused with %r instead of ValueError" % (res["exc"],)
        return None
    if not res["ok"]:
        return "a well-formed value is refused: %r" % (res["exc"],)
    if not res["caps"]:
        return "accepted, but no request was sent"
    return carried(case, res, keys)


def describe(case):
    a = []
    for x in case["args"]:
        if isinstance(x, (bytes, bytearray)) and len(x) > 64: a.append("%s.fromhex(%r)" % (type(x).__name__, bytes(x).hex()))
        else: a.append(repr(x))
    dev = "" if case["devid"] is None and case["client"] not in ("dragons",) else repr(case["devid"])
    cls = {"dauth": "DAuthClient", "aauth": "AAuthClient", "baas": "BAASClient", "dragons": "DragonsClient", "five": "FiveClient",
           "sun": "SunClient", "atumn": "AtumnClient"}[case["client"]]
    sv = "" if case["ver"] == "init" else "c.set_system_version(%s); " % case["ver"]
    return "c = %s.%s(%s); %sawait c.%s(%s)" % (case["client"], cls, dev, sv, case["call"], ", ".join(a))
