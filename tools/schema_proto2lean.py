"""Translator: nintendo/files/proto/*.proto  ->  schema AST  ->  (a) driver lines, (b) Lean data + obligations.

The .proto reader below is written independently of generate_protocols.py (regex tokenizer +
recursive descent); `repo_ast()` loads the repository's own Tokenizer/Parser (the module text minus
its trailing "run on import" loop) and converts its result to the same plain-dict AST so the two
readings can be compared (`cross_check`).

AST (plain python, JSON-able):
  file   = {"structs": [struct...], "protocols": [proto...], "enums": [enum...]}      (dict/insertion order of the generator)
  struct = {"name", "parent", "own": bool, "items": [item...]}
  item   = {"var": {"type": type, "name", "default"}} | {"cond": "nex"|"revision", "value": int, "items": [...]}
  type   = {"name", "template": [type...] | None}
  proto  = {"name", "id", "noresponse", "overridden", "own", "methods": [method...]}   (methods sorted by id as CodeGenerator does)
  method = {"id", "name", "supported", "request": [var...], "response": [var...]}
"""
import io, os, re, contextlib

NUMERIC = ["uint8", "uint16", "uint32", "uint64", "sint8", "sint16", "sint32", "sint64", "pid"]
STRINGS = ["string", "buffer", "qbuffer", "stationurl"]
RESERVED = {"import", "protocol", "method", "struct", "enum", "nex", "revision", "set"}
BASIC = {"float": "f32", "double": "f64", "bool": "bool", "pid": "pid", "result": "result", "datetime": "datetime",
         "string": "string", "stationurl": "stationurl", "buffer": "buffer", "qbuffer": "qbuffer",
         "anydata": "anydata", "variant": "variant",
         "uint8": "u1", "uint16": "u2", "uint32": "u4", "uint64": "u8",
         "sint8": "s1", "sint16": "s2", "sint32": "s4", "sint64": "s8"}
EXTERNAL = ["ResultRange", "NotificationEvent"]

TOKEN = re.compile(r"""
    (?P<ws>\s+) | (?P<lc>//[^\n]*) | (?P<bc>/\*.*?\*/) |
    (?P<str>"[^"]*") | (?P<hex>0x[0-9a-zA-Z]+) | (?P<num>[0-9][0-9a-zA-Z]*) |
    (?P<name>[A-Za-z_][A-Za-z_0-9]*) | (?P<sym>[{}()\[\]<>:;,.=!\#])
""", re.X | re.S)


class ProtoError(Exception):
    pass


def tokenize(text):
    toks, i = [], 0
    while i < len(text):
        m = TOKEN.match(text, i)
        if not m:
            raise ProtoError("bad character at offset %d: %r" % (i, text[i:i + 10]))
        i = m.end()
        k = m.lastgroup
        v = m.group(k)
        if k in ("ws", "lc", "bc"):
            continue
        if k == "str": toks.append(("str", v[1:-1]))
        elif k == "hex": toks.append(("num", int(v[2:], 16)))
        elif k == "num": toks.append(("num", int(v, 10)))
        elif k == "name": toks.append(("res" if v in RESERVED else "name", v))
        else: toks.append(("sym", v))
    toks.append(("eof", None))
    return toks


class MyParser:
    def __init__(self, protodir):
        self.protodir = protodir

    def parse_file(self, name):
        with open(os.path.join(self.protodir, name + ".proto")) as f:
            text = f.read()
        self.t = tokenize(text)
        self.i = 0
        self.fid = object()
        # name -> (def, file-identity); python dict semantics: re-assignment keeps the position
        self.structs, self.protocols, self.enums = {}, {}, []
        self.scope = []
        while True:
            k, v = self.peek()
            if k == "eof": break
            if (k, v) == ("res", "import"): self.p_import()
            elif (k, v) == ("res", "protocol"): self.add("protocols", self.p_protocol())
            elif (k, v) == ("res", "struct"): self.add("structs", self.p_struct())
            elif (k, v) == ("res", "enum"): self.add_enum(self.p_enum())
            else: self.err()
        return self

    # -- token helpers
    def peek(self): return self.t[self.i]
    def next(self):
        tok = self.t[self.i]; self.i += 1; return tok
    def err(self): raise ProtoError("unexpected token %r at #%d" % (self.t[self.i - 1 if self.i else 0], self.i))
    def expect(self, k, v=None):
        tok = self.next()
        if tok[0] != k or (v is not None and tok[1] != v): self.err()
        return tok[1]
    def accept(self, k, v):
        if self.peek() == (k, v):
            self.i += 1; return True
        return False

    # -- scope / merge, as File.add_* do
    def add(self, kind, d):
        table = getattr(self, kind)
        if d["name"] in self.scope:
            item = table.get(d["name"])
            if not item or item["_file"] is self.fid or d["_file"] is not self.fid:
                raise ProtoError("%s is already defined" % d["name"])
        else:
            self.scope.append(d["name"])
        table[d["name"]] = d

    def add_enum(self, e):
        if e["name"] in self.scope: raise ProtoError("%s is already defined" % e["name"])
        self.scope.append(e["name"]); self.enums.append(e)

    def p_import(self):
        self.expect("res", "import"); name = self.expect("name"); self.expect("sym", ";")
        sub = MyParser(self.protodir).parse_file(name)
        for p in sub.protocols.values(): self.add("protocols", p)
        for s in sub.structs.values(): self.add("structs", s)
        for e in sub.enums: self.add_enum(e)

    def p_protocol(self):
        self.expect("res", "protocol")
        p = {"name": self.expect("name"), "id": None, "noresponse": False, "overridden": False, "_file": self.fid, "methods": {}}
        self.expect("sym", ":")
        k, v = self.next()
        parent = None
        if k == "num": p["id"] = v
        elif k == "name": parent = v
        else: self.err()
        self.expect("sym", "{")
        prev, names = 0, []
        while not self.accept("sym", "}"):
            k, v = self.peek()
            if (k, v) == ("res", "method"):
                self.next()
                m = {}
                if self.accept("sym", "("):
                    m["id"] = self.expect("num"); self.expect("sym", ")")
                else:
                    m["id"] = prev + 1
                prev = m["id"]
                m["name"] = self.expect("name")
                s = self.expect("sym")
                if s == "(":
                    m["request"] = []
                    if not self.accept("sym", ")"):
                        while True:
                            m["request"].append(self.p_var())
                            s2 = self.expect("sym")
                            if s2 == ")": break
                            if s2 != ",": self.err()
                    self.expect("sym", "{")
                    m["response"] = []
                    while not self.accept("sym", "}"):
                        m["response"].append(self.p_var()); self.expect("sym", ";")
                    m["supported"] = True
                    for lst in (m["request"], m["response"]):
                        ns = [x["name"] for x in lst]
                        if len(set(ns)) != len(ns): raise ProtoError("Duplicate variable name")
                elif s == ";":
                    m["supported"] = False; m["request"] = None; m["response"] = None
                else: self.err()
                if m["name"] in names: raise ProtoError("%s is already defined in %s" % (m["name"], p["name"]))
                if m["id"] in p["methods"]: raise ProtoError("Method id %i is used twice in %s" % (m["id"], p["name"]))
                names.append(m["name"]); p["methods"][m["id"]] = m
            elif (k, v) == ("res", "set"):
                self.next(); self.expect("name", "noresponse"); self.expect("sym", ";"); p["noresponse"] = True
            else:
                self.next(); self.err()
        if parent:
            par = self.protocols[parent]          # KeyError like the generator
            par["overridden"] = True
            p["id"] = par["id"]
            for m in par["methods"].values():
                if m["id"] not in p["methods"]:
                    if m["name"] in names: raise ProtoError("%s is already defined in %s" % (m["name"], p["name"]))
                    names.append(m["name"]); p["methods"][m["id"]] = m
        return p

    def p_type(self):
        t = {"name": self.expect("name"), "template": None}
        n = {"list": 1, "map": 2}.get(t["name"])
        if n:
            self.expect("sym", "<"); t["template"] = []
            for i in range(n):
                t["template"].append(self.p_type())
                if i < n - 1: self.expect("sym", ",")
            self.expect("sym", ">")
        return t

    def p_var(self):
        v = {"type": self.p_type(), "name": self.expect("name"), "default": None}
        if self.accept("sym", "="):
            v["default"] = self.p_const(v["type"])
        return v

    def p_const(self, t):
        n = t["name"]
        if n in NUMERIC: return self.expect("num")
        if n in STRINGS: return self.expect("str")
        if n == "bool":
            v = self.expect("name")
            if v not in ("false", "true"): self.err()
            return v == "true"
        if n == "datetime":
            k, v = self.next()
            if k == "num": return v
            if k == "name" and v == "never": return 0
            if k == "name" and v == "future": return 671076024059
            self.err()
        if n == "list":
            out = []
            self.expect("sym", "[")
            if self.accept("sym", "]"): return out
            while True:
                out.append(self.p_const(t["template"][0]))
                s = self.expect("sym")
                if s == "]": return out
                if s != ",": self.err()
        if n == "map":
            out = {}
            self.expect("sym", "{")
            if self.accept("sym", "}"): return out
            while True:
                k = self.p_const(t["template"][0]); self.expect("sym", ":")
                out[k] = self.p_const(t["template"][1])
                s = self.expect("sym")
                if s == "}": return out
                if s != ",": self.err()
        raise ProtoError("Don't know how to parse constant for %s" % n)

    def p_struct(self):
        self.expect("res", "struct")
        s = {"name": self.expect("name"), "parent": None, "_file": self.fid}
        if self.accept("sym", ":"): s["parent"] = self.expect("name")
        scope = []
        s["items"] = self.p_body(scope)
        return s

    def p_body(self, scope):
        items = []
        self.expect("sym", "{")
        while not self.accept("sym", "}"):
            k, v = self.peek()
            if k == "res":
                self.next()
                if v not in ("nex", "revision"): self.err()
                val = self.expect("num")
                items.append({"cond": v, "value": val, "items": self.p_body(scope)})
            else:
                var = self.p_var(); self.expect("sym", ";")
                if var["name"] in scope: raise ProtoError("Duplicate variable name in struct: %s" % var["name"])
                scope.append(var["name"]); items.append({"var": var})
        return items

    def p_enum(self):
        self.expect("res", "enum")
        e = {"name": self.expect("name"), "values": []}
        self.expect("sym", "{")
        if self.accept("sym", "}"): return e
        while True:
            n = self.expect("name"); self.expect("sym", "="); v = self.expect("num")
            if n in [x[0] for x in e["values"]]: raise ProtoError("Name %s used twice in enum" % n)
            e["values"].append([n, v])
            s = self.expect("sym")
            if s == "}": return e
            if s != ",": self.err()

    # -- plain AST
    def ast(self):
        def meth(m):
            return {"id": m["id"], "name": m["name"], "supported": m["supported"],
                    "request": m["request"] if m["supported"] else [], "response": m["response"] if m["supported"] else []}
        ps = []
        for p in self.protocols.values():
            if p["noresponse"] and any(m["supported"] and m["response"] for m in p["methods"].values()):
                raise ProtoError("%s is marked noresponse but at least one method returns a non-empty response" % p["name"])
            ps.append({"name": p["name"], "id": p["id"], "noresponse": p["noresponse"], "overridden": p["overridden"],
                       "own": p["_file"] is self.fid, "methods": [meth(m) for _, m in sorted(p["methods"].items())]})
        ss = [{"name": s["name"], "parent": s["parent"], "own": s["_file"] is self.fid, "items": s["items"]} for s in self.structs.values()]
        return {"structs": ss, "protocols": ps, "enums": [{"name": e["name"], "values": e["values"]} for e in self.enums]}


def my_ast(protodir, name):
    return MyParser(protodir).parse_file(name).ast()


# ---------------------------------------------------------------------------------------------
# second reader: the repository's own Tokenizer / Parser

_GP_CACHE = {}

def load_generator(repo):
    """generate_protocols.py without its trailing 'for name in os.listdir(...)' driver loop."""
    path = os.path.join(repo, "generate_protocols.py")
    src = open(path).read()
    key = (path, hash(src))
    if key in _GP_CACHE: return _GP_CACHE[key]
    cut = src.rfind("\nfor name in os.listdir(")
    if cut < 0: raise ProtoError("generate_protocols.py: driver loop not found")
    g = {"__name__": "generate_protocols_lib"}
    import warnings
    with warnings.catch_warnings():
        warnings.simplefilter("ignore")
        exec(compile(src[:cut], path, "exec"), g)
    _GP_CACHE[key] = g
    return g


def repo_ast(repo, name):
    g = load_generator(repo)
    cwd = os.getcwd()
    os.chdir(repo)                        # parse_import opens "nintendo/files/proto/%s.proto" relative to cwd
    try:
        with contextlib.redirect_stdout(io.StringIO()):
            text = open("nintendo/files/proto/%s.proto" % name).read()
            f = g["Parser"]().process(g["Tokenizer"]().process(text))
            f.check_protocols()
    finally:
        os.chdir(cwd)
    Cond, Var = g["Condition"], g["Variable"]
    def ty(t): return {"name": t.name, "template": [ty(x) for x in t.template] if t.template else None}
    def var(v): return {"type": ty(v.type), "name": v.name, "default": v.default}
    def body(b):
        out = []
        for fld in b.fields:
            if isinstance(fld, Cond):
                out.append({"cond": "nex" if fld.type == Cond.VERSION else "revision", "value": fld.value, "items": body(fld.body)})
            else:
                out.append({"var": var(fld)})
        return out
    def meth(m):
        return {"id": m.id, "name": m.name, "supported": m.supported,
                "request": [var(v) for v in m.request.vars] if m.supported else [],
                "response": [var(v) for v in m.response.vars] if m.supported else []}
    ps = [{"name": p.name, "id": p.id, "noresponse": p.noresponse, "overridden": p.overridden, "own": p.file is f,
           "methods": [meth(m) for _, m in sorted(p.methods.items())]} for p in f.protocols.values()]
    ss = [{"name": s.name, "parent": s.parent, "own": s.file is f, "items": body(s.body)} for s in f.structs.values()]
    return {"structs": ss, "protocols": ps, "enums": [{"name": e.name, "values": [list(x) for x in e.values]} for e in f.enums]}


def cross_check(protodir, repo, name):
    """returns (ast, None) when both readers agree, else (my_ast_or_None, description)."""
    try:
        mine = my_ast(protodir, name)
    except Exception as e:
        mine, merr = None, repr(e)
    else:
        merr = None
    try:
        theirs = repo_ast(repo, name)
    except Exception as e:
        theirs, terr = None, repr(e)
    else:
        terr = None
    if merr or terr:
        return mine, "readers failed: mine=%s repo=%s" % (merr, terr)
    if mine != theirs:
        return mine, "readers disagree: " + first_diff(mine, theirs)
    return mine, None


def first_diff(a, b, path=""):
    if type(a) != type(b): return "%s: %r vs %r" % (path, a, b)
    if isinstance(a, dict):
        for k in a:
            if k not in b: return "%s.%s missing" % (path, k)
            d = first_diff(a[k], b[k], path + "." + str(k))
            if d: return d
        for k in b:
            if k not in a: return "%s.%s extra" % (path, k)
        return None
    if isinstance(a, list):
        for i, (x, y) in enumerate(zip(a, b)):
            d = first_diff(x, y, "%s[%d]" % (path, i))
            if d: return d
        if len(a) != len(b): return "%s: length %d vs %d" % (path, len(a), len(b))
        return None
    return None if a == b else "%s: %r vs %r" % (path, a, b)


# ---------------------------------------------------------------------------------------------
# schema environment of one definition file (what the generated module's namespace resolves)

def code(name):
    return int.from_bytes(name.encode("ascii"), "big")

def uncode(n):
    return n.to_bytes((n.bit_length() + 7) // 8, "big").decode("ascii")

BUILTIN_NAMES = ["Data", "NullData", "ResultRange"]


class SchemaEnv:
    """structs: name -> struct (file's own + imported + the externals it references); protos: non-overridden."""

    def __init__(self, protodir, name, ast):
        self.name = name
        self.ast = ast
        self.structs = {s["name"]: s for s in ast["structs"]}
        self.external = {}
        if "NotificationEvent" not in self.structs and self.refers("NotificationEvent"):
            nast = my_ast(protodir, "notification")
            ne = [s for s in nast["structs"] if s["name"] == "NotificationEvent"][0]
            self.external["NotificationEvent"] = ne
        self.protos = [p for p in ast["protocols"] if not p["overridden"]]
        self.order = self.topo()

    def all_types(self):
        def walk_items(items):
            for it in items:
                if "var" in it: yield it["var"]["type"]
                else: yield from walk_items(it["items"])
        for s in self.ast["structs"]:
            yield from walk_items(s["items"])
        for p in self.ast["protocols"]:
            for m in p["methods"]:
                for v in m["request"] + m["response"]:
                    yield v["type"]

    def refers(self, name):
        def has(t): return t["name"] == name or any(has(x) for x in (t["template"] or []))
        return any(has(t) for t in self.all_types())

    def resolve(self, name):
        if name in self.structs: return self.structs[name]
        if name in self.external: return self.external[name]
        return None

    def struct_refs(self, s):
        out = []
        if s["parent"] and s["parent"] != "Data": out.append(s["parent"])
        def wt(t):
            if t["name"] in ("list", "map"):
                for x in t["template"]: wt(x)
            elif t["name"] not in BASIC: out.append(t["name"])
        def wi(items):
            for it in items:
                if "var" in it: wt(it["var"]["type"])
                else: wi(it["items"])
        wi(s["items"])
        return out

    def topo(self):
        """definitions ordered so that parents / referenced structs come first; cycles are left in file order
        (the kernel obligation `wfStructs` then fails)."""
        allS = dict(self.external); allS.update(self.structs)
        done, order, visiting = set(BUILTIN_NAMES), [], set()
        def visit(n):
            if n in done or n not in allS: return
            if n in visiting: return
            visiting.add(n)
            for r in self.struct_refs(allS[n]): visit(r)
            visiting.discard(n); done.add(n); order.append(allS[n])
        for n in allS: visit(n)
        return order

    # ---- rendering
    def ty_tokens(self, t):
        n = t["name"]
        if n == "list": return "L " + self.ty_tokens(t["template"][0])
        if n == "map": return "M %s %s" % (self.ty_tokens(t["template"][0]), self.ty_tokens(t["template"][1]))
        if n in BASIC: return BASIC[n]
        return "S %d" % code(n)

    def items_tokens(self, items):
        out = ["["]
        for it in items:
            if "var" in it:
                v = it["var"]
                out.append("F %d %s %d" % (code(v["name"]), self.ty_tokens(v["type"]), 0 if v["default"] is None else 1))
            else:
                out.append("%s %d %s" % ("N" if it["cond"] == "nex" else "R", it["value"], self.items_tokens(it["items"])))
        out.append("]")
        return " ".join(out)

    def parent_code(self, s):
        return None if s["parent"] is None else code(s["parent"])

    def driver_lines(self):
        lines = ["reset"]
        for s in self.order:
            p = self.parent_code(s)
            lines.append("struct %d %s %s" % (code(s["name"]), "-" if p is None else p, self.items_tokens(s["items"])))
        for p in self.protos:
            lines.append("proto %d %d %d" % (code(p["name"]), p["id"], 1 if p["noresponse"] else 0))
            for m in p["methods"]:
                def args(vs): return "[ " + " ".join("F %d %s 0" % (code(v["name"]), self.ty_tokens(v["type"])) for v in vs) + (" ]" if vs else "]")
                lines.append("method %d %d %d %d %s %s" % (code(p["name"]), m["id"], code(m["name"]), 1 if m["supported"] else 0,
                                                           args(m["request"]), args(m["response"])))
        return lines

    def ty_lean(self, t):
        n = t["name"]
        if n == "list": return "(.list %s)" % self.ty_lean(t["template"][0])
        if n == "map": return "(.map %s %s)" % (self.ty_lean(t["template"][0]), self.ty_lean(t["template"][1]))
        if n in BASIC:
            b = BASIC[n]
            if b[0] in "us" and b[1:].isdigit() and b not in ("string", "stationurl"):
                return "(.%s .b%s)" % ("uint" if b[0] == "u" else "sint", b[1:])
            return {"f32": ".float", "f64": ".double"}.get(b, "." + b)
        return "(.struct %d)" % code(n)

    def items_lean(self, items):
        if not items: return ".nil"
        it, rest = items[0], self.items_lean(items[1:])
        if "var" in it:
            v = it["var"]
            return "(.field %d %s %s %s)" % (code(v["name"]), self.ty_lean(v["type"]), "false" if v["default"] is None else "true", rest)
        return "(.%s %d %s %s)" % ("nex" if it["cond"] == "nex" else "rev", it["value"], self.items_lean(it["items"]), rest)

    def lean_env(self):
        ss = []
        for s in self.order:
            p = self.parent_code(s)
            ss.append("  { name := %d, parent := %s, items := %s }" % (code(s["name"]), "none" if p is None else "some %d" % p, self.items_lean(s["items"])))
        ps = []
        for p in self.protos:
            ms = []
            for m in p["methods"]:
                def args(vs): return "[" + ", ".join("(%d, %s)" % (code(v["name"]), self.ty_lean(v["type"])) for v in vs) + "]"
                ms.append("    { id := %d, name := %d, supported := %s, request := %s, response := %s }" % (
                    m["id"], code(m["name"]), "true" if m["supported"] else "false", args(m["request"]), args(m["response"])))
            ps.append("  { name := %d, id := %d, noresponse := %s, methods := [\n%s] }" % (
                code(p["name"]), p["id"], "true" if p["noresponse"] else "false", ",\n".join(ms)))
        return "{ structs := builtins ++ [\n%s],\n  protos := [\n%s] }" % (",\n".join(ss), ",\n".join(ps))

    def versioned(self):
        def has_rev(items):
            return any("cond" in it and (it["cond"] == "revision" or has_rev(it["items"])) for it in items)
        return [s for s in self.order if has_rev(s["items"])]

    def lean_obligations(self):
        """(source, [theorem names in order]) — every theorem is `by decide +kernel` on a Bool checker."""
        names = ["wf_structs", "wf_protos"]
        src = ["import NxProofs.Schema", "open Nx Nx.Schema", "set_option maxRecDepth 100000",
               "-- generated from %s.proto by tools/schema_proto2lean.py" % self.name,
               "def env : Env :=\n" + self.lean_env(), "",
               "/-- struct names unique; every parent / struct-typed field refers to an earlier definition (acyclic) -/",
               "theorem wf_structs : wfStructs env = true := by decide +kernel",
               "/-- protocol names unique; per protocol: method ids unique, method names unique, every struct reference resolves, noresponse ⇒ empty responses -/",
               "theorem wf_protos : wfProtos env = true := by decide +kernel"]
        for s in self.versioned():
            tn = "rev_ascending_%s" % s["name"]
            names.append(tn)
            src.append("theorem %s : ((lookup env %d).map (fun d => d.items.revAscending)) = some true := by decide +kernel" % (tn, code(s["name"])))
        names.append("wf_env")
        src.append("/-- the hypothesis of the schema theorems, from the Bool checkers; instantiated: every method is found by its id and by its name -/")
        src.append("theorem wf_env : WFEnv env ∧ (∀ p ∈ env.protos, ∀ m ∈ p.methods, findMethodById p m.id = some m ∧ findMethod p m.name = some m) := ⟨⟨wf_structs, wf_protos⟩, wfEnv_methods ⟨wf_structs, wf_protos⟩⟩")
        return "\n".join(src) + "\n", names


def load_env(protodir, repo, name):
    ast, problem = cross_check(protodir, repo, name)
    if ast is None:
        return None, problem
    return SchemaEnv(protodir, name, ast), problem


if __name__ == "__main__":
    import sys, json
    repo = sys.argv[1] if len(sys.argv) > 1 else "/repo"
    pd = os.path.join(repo, "nintendo/files/proto")
    for fn in sorted(os.listdir(pd)):
        n = fn[:-6]
        env, prob = load_env(pd, repo, n)
        print(n, "structs", len(env.order), "protos", len(env.protos), "methods", sum(len(p["methods"]) for p in env.protos), "problem", prob)
