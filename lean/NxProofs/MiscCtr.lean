import NxModel.Crypto.Aes
import Mathlib.Tactic.Ring
/-! The counter arithmetic of the AES-CTR reference (`aesCtr`, used by `prodTlsD` = `ProdInfo.get_tls_key`):
the WHOLE 16-byte block is one big-endian numeral; a carry out of any byte — in particular out of the low
64 bits — reaches the bytes above it. -/
namespace Nx.Crypto
open Nx

theorem ctrBlock_length (n : Nat) : (ctrBlock n).length = 16 := by simp [ctrBlock]

/-- its first eight bytes are the upper half of the numeral … -/
theorem ctrBlock_high_half (n : Nat) : bytesToNatBE ((ctrBlock n).take 8) = n / 2 ^ 64 % 2 ^ 64 := by
  simp [ctrBlock, bytesToNatBE, List.range, List.range.loop]
  omega

/-- … and its last eight bytes the lower half -/
theorem ctrBlock_low_half (n : Nat) : bytesToNatBE ((ctrBlock n).drop 8) = n % 2 ^ 64 := by
  simp [ctrBlock, bytesToNatBE, List.range, List.range.loop]
  omega

theorem bytesToNatBE_foldl (b : Bytes) (a : Nat) :
    b.foldl (fun a x => a * 256 + x.toNat) a = a * 256 ^ b.length + bytesToNatBE b := by
  induction b generalizing a with
  | nil => simp [bytesToNatBE]
  | cons x r ih =>
    simp only [List.foldl_cons, List.length_cons, bytesToNatBE]
    rw [ih, ih (0 * 256 + x.toNat), Nat.pow_succ]
    ring

theorem bytesToNatBE_append (a b : Bytes) : bytesToNatBE (a ++ b) = bytesToNatBE a * 256 ^ b.length + bytesToNatBE b := by
  simp only [bytesToNatBE, List.foldl_append]
  exact bytesToNatBE_foldl b _

/-- the counter block is the 128-bit big-endian numeral of `n` -/
theorem bytesToNatBE_ctrBlock (n : Nat) : bytesToNatBE (ctrBlock n) = n % 2 ^ 128 := by
  have h := bytesToNatBE_append ((ctrBlock n).take 8) ((ctrBlock n).drop 8)
  rw [List.take_append_drop, ctrBlock_high_half, ctrBlock_low_half] at h
  rw [h, List.length_drop, ctrBlock_length]
  omega

/-- When the low 64 bits of the initial block are `j` short of all ones, block `i > j` of the key stream carries
    `hi + 1` in its upper half (a 64-bit counter behind a fixed 64-bit prefix would still show `hi`) and
    `i - j - 1` in its lower half. -/
theorem ctr_carry_into_high_half (hi j i : Nat) (hj : j < 2 ^ 64) (hji : j < i) (hi2 : i ≤ j + 2 ^ 64) :
    bytesToNatBE ((ctrBlock ((hi * 2 ^ 64 + (2 ^ 64 - 1 - j) + i) % 2 ^ 128)).take 8) = (hi + 1) % 2 ^ 64 ∧
    bytesToNatBE ((ctrBlock ((hi * 2 ^ 64 + (2 ^ 64 - 1 - j) + i) % 2 ^ 128)).drop 8) = i - j - 1 := by
  rw [ctrBlock_high_half, ctrBlock_low_half]
  constructor <;> omega

/-- and before the carry (block `i ≤ j`) the upper half is unchanged -/
theorem ctr_no_carry_before (hi j i : Nat) (hhi : hi < 2 ^ 64) (hj : j < 2 ^ 64) (hij : i ≤ j) :
    bytesToNatBE ((ctrBlock ((hi * 2 ^ 64 + (2 ^ 64 - 1 - j) + i) % 2 ^ 128)).take 8) = hi := by
  rw [ctrBlock_high_half]
  omega

/-- the key stream of the reference (`AES.new(key, MODE_CTR, nonce=b"", initial_value=iv)`): block `i` is the
    encryption of the 128-bit numeral `(iv + i) mod 2^128` -/
theorem aesCtr_keystream (key iv data : Bytes) (w : Array Bytes) (hk : keyExpansion key = some w) (hiv : iv.length = 16) :
    aesCtr key iv data = .ok (xorB data ((List.range ((data.length + 15) / 16)).flatMap fun i =>
      encryptBlockW w (ctrBlock ((bytesToNatBE iv + i) % 2 ^ 128)))) := by
  simp [aesCtr, hk, hiv]

end Nx.Crypto
