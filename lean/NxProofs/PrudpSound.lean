import NxProofs.PrudpV1
/-! bytes → packet → bytes for v1: every accepted datagram is the encoding of what it decodes to -/
set_option linter.unusedSimpArgs false
namespace Nx.Prudp
open Nx

/-- the v1 encoding of `p` with its option dict `o` emitted in the order given -/
def v1EncodeWith (p : Packet) (o : Opts) : Bytes :=
  [0xEA, 0xD0] ++ v1EncodeHeader p (encodeOptions o).length ++ p.signature.getD [] ++ encodeOptions o ++ p.payload

theorem v1EncodeWith_canonical (p : Packet) : v1EncodeWith p (v1Options p) = v1Encode p := rfl

theorem v1RdHeader_inv {b r : Bytes} {h : V1Hdr} (hh : v1RdHeader b = .ok (h, r)) :
    b = [0xEA, 0xD0] ++ (u8 1 ++ (u8 h.optionSize ++ (u16le h.payloadSize ++ (u8 h.source ++ (u8 h.dest ++
          (u16le h.typeFlags ++ (u8 h.session ++ (u8 h.substream ++ (u16le h.packetId ++ r))))))))) ∧
    h.optionSize < 256 ∧ h.payloadSize < 65536 ∧ h.source < 256 ∧ h.dest < 256 ∧ h.typeFlags < 65536 ∧
    h.session < 256 ∧ h.substream < 256 ∧ h.packetId < 65536 := by
  unfold v1RdHeader at hh
  repeat' split at hh
  all_goals first | (cases hh; done) | skip
  simp only [Except.ok.injEq, Prod.mk.injEq] at hh
  obtain ⟨rfl, rfl⟩ := hh
  rename_i _ magic r0 h0 hm _ _ v r1 h1 hv _ os r2 h2 _ ps r3 h3 _ so r4 h4 _ de r5 h5 _ tf r6 h6 _ se r7 h7 _ su r8 h8 _ pid r9 h9
  obtain ⟨rfl, hml⟩ := rd_inv h0
  obtain ⟨rfl, -⟩ := rdU8_inv h1
  obtain ⟨rfl, b2⟩ := rdU8_inv h2
  obtain ⟨rfl, b3⟩ := rdU16_inv h3
  obtain ⟨rfl, b4⟩ := rdU8_inv h4
  obtain ⟨rfl, b5⟩ := rdU8_inv h5
  obtain ⟨rfl, b6⟩ := rdU16_inv h6
  obtain ⟨rfl, b7⟩ := rdU8_inv h7
  obtain ⟨rfl, b8'⟩ := rdU8_inv h8
  obtain ⟨rfl, b9⟩ := rdU16_inv h9
  simp only [ne_eq, Decidable.not_not] at hm hv
  subst hm hv
  exact ⟨rfl, b2, b3, b4, b5, b6, b7, b8', b9⟩


theorem pyOr4_divmod (x : Nat) : pyOr (x % 16) (x / 16) 4 = x := by
  rw [pyOr4 _ (Nat.mod_lt _ (by omega))]; omega

/-- **bytes → packet → bytes** for v1: an accepted datagram is exactly the encoding of the decoded packet with the
    option dict in the order it arrived (`o`); the key set of `o` is the one `verify_options` demands -/
theorem v1DecodeOne_sound {b rest : Bytes} {p : Packet} (h : v1DecodeOne b = .ok (p, rest)) :
    ∃ o : Opts, v1VerifyOptions p.type o = true ∧ OptsWF o ∧ b = v1EncodeWith p o ++ rest := by
  unfold v1DecodeOne at h
  simp only [] at h
  repeat' split at h
  all_goals first | (cases h; done) | skip
  simp only [Except.ok.injEq, Prod.mk.injEq] at h
  obtain ⟨rfl, rfl⟩ := h
  rename_i _ hd r0 h0 _ sig r1 h1 _ od r2 h2 _ opts h3 hv _ f h4 _ pl r3 h5
  obtain ⟨rfl, b2, b3, b4, b5, b6, b7, b8', b9⟩ := v1RdHeader_inv h0
  obtain ⟨rfl, hsl⟩ := rd_inv h1
  obtain ⟨rfl, hol⟩ := rd_inv h2
  obtain ⟨rfl, hpl⟩ := rd_inv h5
  obtain ⟨he, hw⟩ := decodeOptions_sound _ _ h3
  refine ⟨opts, by simpa using hv, hw, ?_⟩
  simp only [v1EncodeWith, v1EncodeHeader, pyOr4_divmod, he, hol, hpl, Option.getD_some, List.append_assoc]

end Nx.Prudp
