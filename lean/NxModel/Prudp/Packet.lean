import NxModel.Bytes
/-!
# PRUDP L0 wire model — packets (mirrors `nintendo/nex/prudp.py` lines 20-127)

## API summary of the L0 layer (names are stable; L1 builds on them)

`NxModel/Prudp/Packet.lean`   (namespace `Nx.Prudp`)
* constants `TYPE_SYN .. TYPE_PING`, `FLAG_ACK FLAG_RELIABLE FLAG_NEED_ACK FLAG_HAS_SIZE FLAG_MULTI_ACK`
* `structure Packet` — one field per attribute of `PRUDPPacket` (`Option Bytes` where Python has
  `None` vs bytes: `signature`, `connectionSignature`; `version : Option Nat`)
* `Packet.blank` = `PRUDPPacket()` defaults (with `type`/`flags`/stream types/ports 0 instead of None)
* `Packet.hasFlag p f` — truthiness of `p.flags & f` (f one of the FLAG constants);
  `hasAck hasReliable hasNeedAck hasSize hasMultiAck : Nat → Bool` on a flags word
* `pyOr a b sh` = `a | (b << sh)`

`NxModel/Prudp/Options.lean`
* `OptVal` (`int n | bytes b | none`), `Opts := List (Nat × OptVal)` (dict in insertion order)
* `optSize : Nat → Option Nat` (the `OPTIONS` table), `encodeOptions : Opts → Bytes` (total),
  `encodeOptionsErr : Opts → Option Err`, `encodeOptionsChecked : Opts → Except Err Bytes`
* `decodeOptions : Bytes → Except Err Opts` (unknown type / bad length / duplicate → `.value`,
  short read → `.overflow`; result in wire order = dict insertion order)
* `Opts.get`, `Opts.keysEq`

`NxModel/Prudp/V0.lean`
* `structure V0Cfg` (`signatureVersion checksumVersion flagsVersion : Nat`, `accessKey : Bytes`)
* `v0Checksum : V0Cfg → Bytes → Nat`, `v0Body`, `v0Encode : V0Cfg → Packet → Bytes` (total, mod-256 writers),
  `v0EncodeErr : V0Cfg → Packet → Option Err`, `v0EncodeChecked : V0Cfg → Packet → Except Err Bytes`
* `v0DecodeOne : V0Cfg → Bytes → Except Err (Packet × Bytes)`, `v0Decode : V0Cfg → Bytes → Except Err (List Packet)`
* `V0WF : V0Cfg → Packet → Prop` (decidable)

`NxModel/Prudp/V1.lean`
* `v1Options`, `v1EncodeOptions`, `v1EncodeHeader p optionSize`, `v1Encode`, `v1EncodeErr`, `v1EncodeChecked`,
  `v1VerifyOptions`, `v1DecodeOne`, `v1Decode : Bytes → Except Err (List Packet)`, `V1WF`

`NxModel/Prudp/Lite.lean`
* `liteOptions`, `liteEncodeOptions`, `liteEncodeHeader`, `liteEncode`, `liteEncodeErr`, `liteEncodeChecked`,
  `liteVerifyOptions`, `liteParse`, `liteLoop`,
  `liteFeed : Bytes(buffer) → Bytes(chunk) → Except Err (List Packet) × Bytes(new buffer)`,
  `liteFeedAll : Bytes → List Bytes → Except Err (List Packet) × Bytes` (stops at the first error), `LiteWF`

`NxModel/Prudp/Select.lean`
* `Codec` (`v0 | v1 | lite`), `SelCfg` (`transport version : Nat`), `select : SelCfg → Option Nat → Codec`,
  `analyze : SelCfg → Bytes → Codec`, `signatureSize : Codec → Nat`,
  `structure Cfg` (`v0 : V0Cfg`, `sel : SelCfg`), `encode : Cfg → Packet → Bytes`, `encodeChecked`,
  `decode : Cfg → Bytes(lite buffer) → Bytes(data) → Except Err (List Packet) × Bytes(new lite buffer)`

(`Sig.lean`, `Payload.lean`: C08 reference — signatures, key chain, RC4/zlib framing, connection request.)

Conventions: encoders are total functions on `Nat` fields (writers reduce mod 256 / 65536 exactly like the
frozen `u8/u16le/u32le`); `…EncodeErr` computes the first exception the Python encoder would raise, in
evaluation order (`bytes([v])` out of range → `Err.value`, `struct.pack` out of range or wrong type →
`Err.struct`, `None` written to a stream / concatenated → `Err.type`); `…EncodeChecked` combines the two.
No Mathlib imports (linked into the drivers).
-/
namespace Nx.Prudp
open Nx

def TYPE_SYN : Nat := 0
def TYPE_CONNECT : Nat := 1
def TYPE_DATA : Nat := 2
def TYPE_DISCONNECT : Nat := 3
def TYPE_PING : Nat := 4

def FLAG_ACK : Nat := 1
def FLAG_RELIABLE : Nat := 2
def FLAG_NEED_ACK : Nat := 4
def FLAG_HAS_SIZE : Nat := 8
def FLAG_MULTI_ACK : Nat := 0x200

/-- `PRUDPPacket`. Python's `type`, `flags`, `source_type`, … start as `None`; every caller assigns
    them before use, the model keeps them `Nat`. -/
structure Packet where
  type : Nat := 0
  flags : Nat := 0
  version : Option Nat := none
  sourceType : Nat := 0
  sourcePort : Nat := 0
  destType : Nat := 0
  destPort : Nat := 0
  sessionId : Nat := 0
  packetId : Nat := 0
  fragmentId : Nat := 0
  substreamId : Nat := 0
  connectionSignature : Option Bytes := none
  initialUnreliableId : Nat := 0
  maxSubstreamId : Nat := 0
  supportedFunctions : Nat := 0
  minorVersion : Nat := 0
  signature : Option Bytes := none
  payload : Bytes := []
  deriving DecidableEq, Repr

/-- `PRUDPPacket()` -/
def Packet.blank : Packet := {}

/-- `flags & FLAG_ACK` etc. as truth values (each flag is a single bit). -/
def hasAck (flags : Nat) : Bool := flags.testBit 0
def hasReliable (flags : Nat) : Bool := flags.testBit 1
def hasNeedAck (flags : Nat) : Bool := flags.testBit 2
def hasSize (flags : Nat) : Bool := flags.testBit 3
def hasMultiAck (flags : Nat) : Bool := flags.testBit 9

/-- truthiness of `p.flags & f` for an arbitrary mask -/
def Packet.hasFlag (p : Packet) (f : Nat) : Bool := p.flags &&& f != 0

/-- Python `a | (b << sh)` -/
def pyOr (a b sh : Nat) : Nat := a ||| (b <<< sh)

/-- `type in [TYPE_SYN, TYPE_CONNECT]` -/
def isSynOrConnect (t : Nat) : Bool := t == 0 || t == 1

/-- `Option Bytes` has the given length (`None` never has) -/
def optLen (b : Option Bytes) (n : Nat) : Prop := b.map List.length = some n

instance (b : Option Bytes) (n : Nat) : Decidable (optLen b n) := by unfold optLen; exact inferInstance

end Nx.Prudp
