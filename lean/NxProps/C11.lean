import NxProofs.RmcServer
import NxProofs.RmcResult
import NxProofs.RmcRequest
import NxProofs.RmcServerObj
import NxProofs.RmcListener
/-!
# C11 — an RMC server answers every request exactly once with the right outcome

Model: `NxModel/Nex/RmcServer.lean` — `react` mirrors `RMCClient.handle_request`, `serve` the receive loop
over a request sequence, `generatedHandle` the `handle()` / `handle_<method>` code that
`generate_protocols.py` emits (tables translated from the generated modules on every run).
Responses are stated as the *reference framing* of C09 (`Rmc.specEncode`), so "carries the request's
protocol and call id" is a statement about the bytes on the wire (`Nx.C09.rmc_reference_accepted`
decodes them back).

Quantifier of the property = `ReqWF` (fields as `RMCMessage.decode` yields them) + `Answerable`:
the handler returned (method id < 2^15 as every generated id is — generated obligation `method_ids_fit` —
and an output that fits a u32 length), or raised an RMC error whose code is a u32 with bit 31 (what
`RMCError(code)` yields for every code of the table), or raised any `Exception`.
Outside it (stated, not hidden): a `BaseException` that is no `Exception`, or an `RMCError` whose code does
not fit 32 bits, leaves `handle_request` and ends the loop — `not_answered_examples`.
Wrongly typed RESULTS (`NxModel/Nex/RmcResult.lean`): the generated handler validates only the top level of what
the user's method returned; every other position is checked by the encoder alone. `RmcResult.check slot v` models
which exception writing the Python value `v` at a position declared `slot` raises (tied by the correspondence on
every position of every generated result type); `incompat` is the property's own relation "a position declared
`slot` cannot hold a value of this type" (the harness's oracle, `rmc_results.incompatible`, is its twin, compared
on every case). Containers, structures and response fields only propagate (nothing in the encoder catches).
Truncation BELOW the top level (`NxModel/Nex/RmcRequest.lean`, `NxProofs/RmcRequest.lean`): a request body is nested —
structure frames `u8 version, u32 size, size bytes` per class (structure headers), anydata holders, counted lists,
length-prefixed strings and buffers. `readRequest` models the generated `input.<type>(...)` statements over a schema
read from the code under test; the harness's reference reader is its twin (compared on every case) and the model
computes the `extract` outcome of every such request from the request's own body (`extractOf`).
Registered OBJECTS and slow handlers (`NxModel/Nex/RmcServerObj.lean`): what is registered is an instance of the user's
subclass of a generated class — it may be falsy (`__len__` / `__bool__` of a subclass keeping a registry or a queue) — and
its user methods are coroutines that may await for any time. `handleTimed` = `generatedHandle` + `react` over the objects'
classes and the time that passes; the correspondence drives the real loop on a virtual clock and compares answer and time.
A LISTENER with several connections (`NxModel/Nex/RmcListener.lean`, `NxProofs/RmcListener.lean`): `rmc.serve` /
`serve_on_transport` give every accepted connection an `RMCClient` of its own that starts with the listener's servers; a
handler may attach further servers to ITS connection (`client.register_server`). `RmcListener.step` is the listener over
accept / close / register / request events; the table a request is answered from (`react`, hence everything above) is that
of its own connection. The correspondence replays whole lives of real listeners (driver lines `lnew lacc lclose lreg lreq`).
Statements only; proofs in `NxProofs/RmcServer.lean`, `NxProofs/RmcResult.lean`, `NxProofs/RmcRequest.lean`.
-/
namespace Nx.C11
open Nx Nx.Rmc Nx.RmcServer Nx.RmcResult

/-- exactly one response, carrying the request's protocol and call id — or none iff the protocol is NORESPONSE -/
theorem one_response (servers : Registry) (req : Msg) (m : Nat) (w : ReqWF req m) (h : HandleResult)
    (ha : Answerable m h) :
    (regLookup req.protocol servers = some true ∧ react servers req h = .silent) ∨
    (regLookup req.protocol servers ≠ some true ∧
      ∃ data msg, react servers req h = .sends data ∧ decode data = .ok msg ∧
        msg.mode = 1 ∧ msg.protocol = req.protocol ∧ msg.callId = req.callId) := by
  rcases react_answer (servers := servers) w h ha with hl | ⟨hn, s, hwf, hs, h1, h2, h3⟩
  · exact .inl hl
  · exact .inr ⟨hn, specEncode s, ofSpec s, hs, decode_specEncode s hwf, h1, h2, h3⟩

/-- the outcome table for a registered protocol that is not response-less -/
theorem outcome_table (servers : Registry) (req : Msg) (m : Nat) (w : ReqWF req m)
    (hp : regLookup req.protocol servers = some false) :
    (∀ out : Bytes, m < 32768 → out.length + 12 < 4294967296 →
      react servers req (.returned out) = .sends (specEncode (.success req.protocol req.callId m out))) ∧
    (∀ code : Nat, 2147483648 ≤ code → code < 4294967296 →
      react servers req (.raised (.rmcError code)) = .sends (specEncode (.failure req.protocol req.callId code))) ∧
    react servers req (.raised .typeError) = .sends (specEncode (.failure req.protocol req.callId 0x80040002)) ∧
    react servers req (.raised .indexError) = .sends (specEncode (.failure req.protocol req.callId 0x80040003)) ∧
    react servers req (.raised .memoryError) = .sends (specEncode (.failure req.protocol req.callId 0x80040006)) ∧
    react servers req (.raised .keyError) = .sends (specEncode (.failure req.protocol req.callId 0x80040007)) ∧
    react servers req (.raised .other) = .sends (specEncode (.failure req.protocol req.callId 0x80040001)) :=
  ⟨fun out hm hb => react_returned w hp out hm hb, fun c h1 h2 => react_rmcError w hp c h1 h2, react_py w hp⟩

/-- an unknown protocol is answered `Core::NotImplemented`, whatever else is going on -/
theorem unknown_protocol_not_implemented (servers : Registry) (req : Msg) (m : Nat) (w : ReqWF req m)
    (hp : regLookup req.protocol servers = none) (h : HandleResult) :
    react servers req h = .sends (specEncode (.failure req.protocol req.callId 0x80010002)) :=
  react_unregistered w hp h

/-- generated dispatch: an unknown method id, an unsupported method and an unimplemented (stub) method
    all end in `RMCError("Core::NotImplemented")`, hence (by `outcome_table`) in error 0x80010002 -/
theorem not_implemented_dispatch (srv : Server) (mid : Nat) (ex : Option Exc) (u : User) :
    (findMethod mid srv.methods = none → generatedHandle srv mid ex u = notImplemented) ∧
    (∀ mt, findMethod mid srv.methods = some mt → mt.supported = false → generatedHandle srv mid ex u = notImplemented) ∧
    (∀ mt, findMethod mid srv.methods = some mt → mt.supported = true → generatedHandle srv mid none .stub = notImplemented) :=
  ⟨gen_unknown_method srv mid ex u, fun mt h hs => gen_unsupported srv mid ex u mt h hs, fun mt h hs => gen_stub srv mid mt h hs⟩

theorem not_implemented_response (servers : Registry) (req : Msg) (m : Nat) (w : ReqWF req m)
    (hp : regLookup req.protocol servers = some false) :
    react servers req notImplemented = .sends (specEncode (.failure req.protocol req.callId 0x80010002)) :=
  react_rmcError w hp 0x80010002 (by decide) (by decide)

/-- a request for a method id the addressed server does not define — the id as it stands on the wire, all 32 bits,
    whatever defined id it may resemble — is answered with exactly one `Core::NotImplemented` response carrying the
    request's protocol and call id; `handle()` is entered with that very id, no user method runs, and nothing the
    user's methods would have done can change the answer -/
theorem unknown_method_not_implemented (tbl : List Server) (srv : Server) (p c mid : Nat) (body : Bytes)
    (hwf : (Spec.request p c mid body).WF) (hs : findServer p tbl = some srv) (hn : srv.noresponse = false)
    (hu : findMethod mid srv.methods = none) (ex : Option Exc) (u : User) :
    ∃ req, decode (specEncode (.request p c mid body)) = .ok req ∧
      dispatch tbl req ex = some (p, mid, none) ∧
      react (registryOf tbl) req (generatedHandle srv mid ex u) = .sends (specEncode (.failure p c 0x80010002)) := by
  obtain ⟨hp, hc, _, _⟩ := hwf
  refine ⟨ofSpec (.request p c mid body), decode_specEncode _ ⟨hp, hc, ‹_›, ‹_›⟩, ?_, ?_⟩
  · simp only [dispatch, ofSpec, hs, invoked_unknown srv mid ex hu, (findServer_some hs).2]
  · rw [gen_unknown_method srv mid ex u hu]
    have hreg : regLookup p (registryOf tbl) = some false := by rw [regLookup_registryOf, hs]; simp [hn]
    exact not_implemented_response (registryOf tbl) (ofSpec (.request p c mid body)) mid ⟨hp, hc, rfl⟩ hreg

/-- the unknown ids that *alias* a defined one: every generated id is below 2^15 (generated obligation
    `method_ids_fit`), so a defined id `k` with any bit from 15 upwards set (`k | 2^b`, `k + 2^b`, `0xFFFF0000 | k`:
    what a 15/16-bit narrowing or a response-style `& ~0x8000` would map back to `k`) is not in the table; below
    bit 15 an id is unknown exactly when no entry carries it -/
theorem alias_ids_unknown (srv : Server) (hfit : srv.methodIdsFit = true) (k : Nat) :
    (∀ b, 15 ≤ b → findMethod (k ||| 2 ^ b) srv.methods = none ∧ findMethod (k + 2 ^ b) srv.methods = none) ∧
    findMethod (0xFFFF0000 ||| k) srv.methods = none ∧
    (∀ mid, 32768 ≤ mid → findMethod mid srv.methods = none) ∧
    (∀ mid, findMethod mid srv.methods = none ↔ mid ∉ srv.methods.map (·.id)) :=
  ⟨fun b hb => ⟨findMethod_none_of_ge hfit (or_pow_ge k b hb), findMethod_none_of_ge hfit (add_pow_ge k b hb)⟩,
   findMethod_none_of_ge hfit (Nat.le_trans (by decide) Nat.left_le_or),
   fun _ h => findMethod_none_of_ge hfit h, fun _ => findMethod_none_iff⟩

/-- which user code runs: the entry with exactly the requested id, if it is supported and its parameters could be
    read — and if none runs, the outcome is the same for every behaviour of the user's methods -/
theorem handler_runs_iff (srv : Server) (mid : Nat) (ex : Option Exc) :
    (∀ k, invoked srv mid ex = some k ↔
      k = mid ∧ ex = none ∧ ∃ mt, findMethod mid srv.methods = some mt ∧ mt.supported = true) ∧
    (invoked srv mid ex = none → ∀ u u', generatedHandle srv mid ex u = generatedHandle srv mid ex u') :=
  ⟨invoked_some_iff srv mid ex, not_invoked_user_irrelevant srv mid ex⟩

/-- generated dispatch of a known, supported method: reading past the end of the body (or any other failure
    while extracting the parameters) is the handler's exception; otherwise the user's exception, or — for a
    well-typed result — whatever encoding it yields; a wrongly typed / incomplete result is a `RuntimeError` -/
theorem dispatch_supported (srv : Server) (mid : Nat) (mt : Method)
    (h : findMethod mid srv.methods = some mt) (hs : mt.supported = true) :
    (∀ e u, generatedHandle srv mid (some e) u = .raised e) ∧
    (∀ e, generatedHandle srv mid none (.raises e) = .raised e) ∧
    (∀ enc, generatedHandle srv mid none (.returns .good enc) = if mt.resp = .none then .returned [] else enc) ∧
    (∀ sh enc, sh ≠ .good → (mt.resp = .single false ∨ mt.resp = .multi) →
      generatedHandle srv mid none (.returns sh enc) = .raised .other) :=
  ⟨fun e u => gen_extract_fails srv mid e u mt h hs, fun e => gen_raises srv mid e mt h hs,
   fun enc => gen_returns_good srv mid enc mt h hs, fun sh enc hsh hr => gen_returns_bad srv mid enc mt sh h hs hsh hr⟩

/-- a result the validation / encoder rejects at one position with exception `e` is answered with exactly the
    error response carrying the PythonCore code of `e` (TypeError → 0x80040002, everything else it raises →
    0x80040001): never a success, never part of the output -/
theorem wrong_result_answered_with_error (servers : Registry) (req : Msg) (m : Nat) (w : ReqWF req m)
    (hp : regLookup req.protocol servers = some false)
    (srv : Server) (mid : Nat) (mt : Method) (hf : findMethod mid srv.methods = some mt)
    (hs : mt.supported = true) (hr : mt.resp ≠ .none)
    (wh : Where) (s : Slot) (v : Val) (e : PyExc) (obs : Bytes) (he : resultCheck wh s v = some e) :
    react servers req (generatedHandle srv mid none (.returns .good (encOf (resultCheck wh s v) obs)))
      = .sends (specEncode (.failure req.protocol req.callId (pyCode e))) :=
  rejected_result_response w hp srv mid mt hf hs hr wh s v e obs he

/-- every value the property calls wrongly typed for a declared type is rejected by the encoder model, with the
    class of exception the property states (so, by `wrong_result_answered_with_error`, answered with that code) -/
theorem incompatible_value_rejected (s : Slot) (v : Val) (c : Exc) (h : incompat s v = some c) :
    ∃ e, check s v = some e ∧ e.cls = c :=
  incompat_sound s v c h

/-- a string position holds exactly `None` and text that encodes to at most 65534 UTF-8 bytes; everything else —
    int, float, bool, bytes, lists, objects — is a TypeError (an encoder that formats instead of concatenating
    breaks exactly this) -/
theorem string_position (v : Val) :
    (check .string v = none ↔ v = .atom .none ∨ ∃ cps, v = .atom (.str cps) ∧ textCheck cps = none) ∧
    (v ≠ .atom .none → (∀ cps, v ≠ .atom (.str cps)) → check .string v = some .typeError) :=
  ⟨string_accepts_iff v, string_rejects_non_text v⟩

/-- the top level of a single-value result: `isinstance` first (RuntimeError), then the encoder -/
theorem top_level_result (t : TopType) (s : Slot) (v : Val) :
    (isInstance t v = false → resultCheck (.top t) s v = some .runtimeError) ∧
    (isInstance t v = true → resultCheck (.top t) s v = check s v) :=
  resultCheck_top t s v

/-- lists and maps: the first rejected element / key / value decides, whatever follows it -/
theorem containers_propagate_first_failure :
    (∀ (e : Slot) (k : SeqKind) (pre post : List Atom) (a : Atom) (x : PyExc),
      (∀ b ∈ pre, check e (.atom b) = none) → check e (.atom a) = some x →
      check (.list e) (.seq k (pre ++ a :: post)) = some x) ∧
    (∀ (ks vs : Slot) (pre post : List (Atom × Atom)) (kv : Atom × Atom) (x : PyExc),
      (∀ p ∈ pre, check ks (.atom p.1) = none ∧ check vs (.atom p.2) = none) →
      (check ks (.atom kv.1) = some x ∨ (check ks (.atom kv.1) = none ∧ check vs (.atom kv.2) = some x)) →
      check (.map ks vs) (.dict (pre ++ kv :: post)) = some x) :=
  ⟨list_first_failure, map_first_failure⟩


/-! ## nested framing of the request body -/
section Framing
open Nx.RmcRequest

/-- with structure headers the fields of one class of a structure are read from the `size` bytes of its frame ONLY:
    what follows the frame can neither supply missing fields nor be consumed by them -/
theorem struct_frame_is_bounded (R : Hook) (env : Env) (items : Items) (ver : Nat) (hv : ver < 256) (frame rest : Bytes)
    (h : frame.length < 4294967296) :
    decLevel R env true items (u8 ver ++ u32le frame.length ++ frame ++ rest) =
      match loadFrame R env ver items frame with
      | .ok vs => .ok (vs, rest)
      | .error e => .error e :=
  decLevel_frame R env items ver hv frame rest h

/-- a structure frame that declares (and holds) FEWER bytes than its fields need — the first `k` bytes of a frame whose
    fields take `frame.length - left.length > k` — is an OverflowError, whatever follows the frame (later parameters,
    trailing data): the missing fields are never taken from there -/
theorem short_frame_rejected (env : Env) (f : Nat) (items : Items) (ver : Nat) (hv : ver < 256)
    (frame : Bytes) (hl : frame.length < 4294967296) (vs : List RmcRequest.Val) (left : Bytes)
    (hok : decItems (decObj env true f) env ver items frame = .ok (vs, left))
    (k : Nat) (hk : k < frame.length - left.length) (rest : Bytes) :
    decLevel (decObj env true f) env true items (u8 ver ++ u32le k ++ frame.take k ++ rest) = .error .overflow := by
  have hlen : (frame.take k).length = k := by simp [List.length_take]; omega
  have h1 := decLevel_frame (decObj env true f) env items ver hv (frame.take k) rest (by omega)
  rw [hlen] at h1
  rw [h1]
  unfold loadFrame
  rw [Local.truncated (decItems_local _ env (decObj_local env true f) ver items) hok k hk]

/-- the same at the top level and at every level in between: a body that ends inside what the parameters take
    (any proper prefix of the consumed bytes) is an OverflowError — at whatever nesting depth the cut falls -/
theorem truncated_request_rejected (env : Env) (hdr : Bool) (tys : List Ty) (b : Bytes) (vs : List RmcRequest.Val) (r : Bytes)
    (h : decArgs (decObj env hdr fuel) env tys b = .ok (vs, r)) (k : Nat) (hk : k < b.length - r.length) :
    readRequest env hdr tys (b.take k) = .error .overflow ∧ extractOf env hdr tys (b.take k) = some .other := by
  have := Local.truncated (decArgs_local _ env (decObj_local env hdr fuel) tys) h k hk
  simp [readRequest, extractOf, this, excOf]

/-- every reader of the model consumes a prefix of its input, is independent of what follows that prefix and fails with
    OverflowError on every proper prefix of it (the lemma behind the two theorems above) -/
theorem readers_are_local (env : Env) (hdr : Bool) (f : Nat) :
    (∀ t, Local (decTy (decObj env hdr f) env t)) ∧ (∀ ver it, Local (decItems (decObj env hdr f) env ver it)) ∧
    (∀ id, Local (decObj env hdr f id)) ∧ (∀ ts, Local (decArgs (decObj env hdr f) env ts)) :=
  ⟨decTy_local _ env (decObj_local env hdr f), decItems_local _ env (decObj_local env hdr f),
   decObj_local env hdr f, decArgs_local _ env (decObj_local env hdr f)⟩

/-- a request whose parameters cannot be read — at any nesting level: the reader's exception `e` — is answered with exactly
    one error response carrying the PythonCore code of `e` and the request's protocol and call id, and NO user method is
    invoked, whatever the user's methods would have done -/
theorem unreadable_request_answered_with_error (servers : Registry) (req : Msg) (m : Nat) (w : ReqWF req m)
    (hp : regLookup req.protocol servers = some false)
    (srv : Server) (mid : Nat) (mt : Method) (hf : findMethod mid srv.methods = some mt) (hs : mt.supported = true)
    (env : Env) (hdr : Bool) (tys : List Ty) (e : Err) (he : readRequest env hdr tys req.body = .error e) (u : User) :
    invoked srv mid (extractOf env hdr tys req.body) = none ∧
    react servers req (generatedHandle srv mid (extractOf env hdr tys req.body) u)
      = .sends (specEncode (.failure req.protocol req.callId (errCode e))) := by
  have hx : extractOf env hdr tys req.body = some (excOf e) := by simp [extractOf, he]
  rw [hx, gen_extract_fails srv mid (excOf e) u mt hf hs]
  refine ⟨by simp [invoked, hf], ?_⟩
  obtain ⟨ht, hi, _, hk, ho⟩ := react_py (servers := servers) w hp
  cases e <;> simp only [excOf, errCode] <;> assumption

/-- and a request whose parameters can be read reaches the user method with its own id (supported method) -/
theorem readable_request_reaches_handler (srv : Server) (mid : Nat) (mt : Method)
    (hf : findMethod mid srv.methods = some mt) (hs : mt.supported = true)
    (env : Env) (hdr : Bool) (tys : List Ty) (body : Bytes) (vs : List RmcRequest.Val)
    (h : readRequest env hdr tys body = .ok vs) : invoked srv mid (extractOf env hdr tys body) = some mid := by
  have hx : extractOf env hdr tys body = none := by simp [extractOf, h]
  have := (findMethod_some hf).2
  simp [hx, invoked, hf, hs, this]

end Framing

/-- with distinct method ids (generated obligation `method_ids_distinct`) every table entry is reachable
    under its own id, and a lookup only ever yields an entry with the requested id -/
theorem dispatch_reaches_every_method (srv : Server) (hd : srv.methodIdsDistinct = true) (mt : Method)
    (hm : mt ∈ srv.methods) : findMethod mt.id srv.methods = some mt :=
  findMethod_of_mem hd hm

theorem dispatch_only_own_id (srv : Server) (mid : Nat) (mt : Method) (h : findMethod mid srv.methods = some mt) :
    mt ∈ srv.methods ∧ mt.id = mid :=
  findMethod_some h

/-- a response-less protocol is never answered -/
theorem noresponse_silent (servers : Registry) (req : Msg) (hp : regLookup req.protocol servers = some true)
    (h : HandleResult) (hb : h ≠ .raised .base) : react servers req h = .silent :=
  react_noresponse hp h hb

/-- any sequence of answerable requests is answered request by request, each exactly as if it were alone:
    a failing handler neither ends the loop nor affects later requests -/
theorem C11_sequence (servers : Registry) (reqs : List (Msg × HandleResult))
    (hall : ∀ x ∈ reqs, ∃ m, ReqWF x.1 m ∧ Answerable m x.2) :
    serve servers reqs = reqs.map (fun x => react servers x.1 x.2) ∧
    Reaction.propagates ∉ serve servers reqs := by
  refine ⟨serve_eq_map servers reqs hall, ?_⟩
  rw [serve_eq_map servers reqs hall]
  intro hmem
  obtain ⟨x, hx, he⟩ := List.mem_map.mp hmem
  obtain ⟨m, w, ha⟩ := hall x hx
  exact react_ne_propagates w x.2 ha he

/-- what was answered before does not change what is answered next (`handle_request` assigns to nothing) -/
theorem server_state_unchanged (servers : Registry) (before after : List (Msg × HandleResult))
    (hb : ∀ x ∈ before, ∃ m, ReqWF x.1 m ∧ Answerable m x.2) :
    serve servers (before ++ after) = serve servers before ++ serve servers after :=
  serve_append servers before after hb

/-- the driver replays the real request sequence of a connection through `serveStep`, one request per line;
    that is the same function as `serve` (so `C11_sequence` speaks about what the correspondence ties) -/
theorem serve_is_replayed (servers : Registry) (l : List (Msg × HandleResult)) :
    serve servers l = serveInc servers true l :=
  serve_eq_serveInc servers l

/-- outside the quantifier: these end the receive loop instead of being answered -/
theorem not_answered_examples :
    react [(10, false)] { mode := 0, protocol := 10, method := some 1, callId := 7, error := -1, body := [] }
      (.raised .base) = .propagates ∧
    react [(10, false)] { mode := 0, protocol := 10, method := some 1, callId := 7, error := -1, body := [] }
      (.raised (.rmcError 0x180000000)) = .propagates := by
  decide

/-! non-vacuity -/
example : ReqWF { mode := 0, protocol := 0x7F, method := some 5, callId := 4294967295, error := -1, body := [1] } 5 :=
  ⟨by decide, by decide, rfl⟩
example : Answerable 5 (.returned [1, 2, 3]) := by simp [Answerable]
example : Answerable 5 (.raised (.rmcError 0x80030065)) := by simp [Answerable]
example : Answerable 0xFFFFFFFF (.raised .keyError) := by simp [Answerable]
example : react [(10, false), (14, true)]
    { mode := 0, protocol := 10, method := some 2, callId := 9, error := -1, body := [] } (.raised .keyError)
    = .sends [10, 0, 0, 0, 10, 0, 7, 0, 4, 0x80, 9, 0, 0, 0] := by decide
example : react [(10, false), (14, true)]
    { mode := 0, protocol := 14, method := some 1, callId := 9, error := -1, body := [] } (.returned []) = .silent := by decide
example : generatedHandle { protocol := 10, noresponse := false, methods := [{ id := 1, supported := true, resp := .single false }] }
    1 (some .other) .stub = .raised .other := by decide
example : findMethod (5 ||| 2 ^ 15) [{ id := 5, supported := true, resp := .single false }] = none ∧
    findMethod 5 [{ id := 5, supported := true, resp := .single false }] ≠ none := by decide
example : dispatch [{ protocol := 10, noresponse := false, methods := [{ id := 5, supported := true, resp := .single false }] }]
    { mode := 0, protocol := 10, method := some 0x8005, callId := 9, error := -1, body := [] } none = some (10, 0x8005, none) ∧
  dispatch [{ protocol := 10, noresponse := false, methods := [{ id := 5, supported := true, resp := .single false }] }]
    { mode := 0, protocol := 10, method := some 5, callId := 9, error := -1, body := [] } none = some (10, 5, some 5) := by decide
example : (Spec.request 10 9 0x8005 [1, 0, 0, 0]).WF := by decide
example : incompat .string (.atom (.int 12345)) = some .typeError := by decide
example : incompat (.list .string) (.atom .opaque) = some .typeError := by decide
example : incompat .u32 (.atom (.str [49])) = some .other := by decide
example : resultCheck (.inner false) .string (.atom (.bytes [110, 111, 100, 101] false)) = some .typeError := by decide
example : check (.list .string) (.seq .list [.str [110], .int 2, .str [110]]) = some .typeError := by decide
example : check (.map .u16 .string) (.dict [(.int 1, .str [97]), (.int 70000, .opaque)]) = some .structError := by decide
example : resultCheck (.top .list) (.list .string) (.seq .tuple [.str [97]]) = some .runtimeError := by decide
example : check .u32 (.atom (.bool true)) = none ∧ check .stationurl (.atom (.int 5)) = none ∧ check .bool (.atom .opaque) = none := by decide
example : react [(10, false)] { mode := 0, protocol := 10, method := some 1, callId := 9, error := -1, body := [] }
    (generatedHandle { protocol := 10, noresponse := false, methods := [{ id := 1, supported := true, resp := .multi }] } 1 none
      (.returns .good (encOf (resultCheck (.inner false) .string (.atom (.int 12345))) [1, 0, 1, 0])))
    = .sends [10, 0, 0, 0, 10, 0, 2, 0, 4, 0x80, 9, 0, 0, 0] := by decide
example : serve [(10, false)]
    [({ mode := 0, protocol := 10, method := some 2, callId := 1, error := -1, body := [] }, .raised .typeError),
     ({ mode := 0, protocol := 11, method := some 2, callId := 2, error := -1, body := [] }, .returned [])]
    = [.sends [10, 0, 0, 0, 10, 0, 2, 0, 4, 0x80, 1, 0, 0, 0], .sends [10, 0, 0, 0, 11, 0, 2, 0, 1, 0x80, 2, 0, 0, 0]] := by decide

/-! nested framing, on the layout of DataStore `get_rating(target : DataStoreRatingTarget {u64 data_id, s8 slot}, u64 password)` -/
section FramingExamples
open Nx.RmcRequest
def exEnv : Env := { structs := [(1, [.field .u64 (.field .s8 .nil)])], registry := [] }
def exTarget : Bytes := [0xE8, 3, 0, 0, 0, 0, 0, 0, 3]
def exPassword : Bytes := [0x88, 0x77, 0x66, 0x55, 0x44, 0x33, 0x22, 0x11]
/-- well-formed -/
example : readRequest exEnv true [.struct 1, .u64] (u8 0 ++ u32le 9 ++ exTarget ++ exPassword)
    = .ok [.obj [.int 1000, .int 3], .int 0x1122334455667788] := by rfl
/-- the frame cut to 4 of its 9 bytes, the password following: unreadable, although 13 bytes follow the header -/
example : readRequest exEnv true [.struct 1, .u64] (u8 0 ++ u32le 4 ++ exTarget.take 4 ++ exPassword) = .error .overflow := by rfl
/-- the frame declaring 8 bytes, all 9 kept -/
example : readRequest exEnv true [.struct 1, .u64] (u8 0 ++ u32le 8 ++ exTarget ++ exPassword) = .error .overflow := by rfl
/-- a longer frame (newer structure version): surplus inside the frame is skipped -/
example : readRequest exEnv true [.struct 1, .u64] (u8 1 ++ u32le 11 ++ exTarget ++ [0xAA, 0xBB] ++ exPassword)
    = .ok [.obj [.int 1000, .int 3], .int 0x1122334455667788] := by rfl
/-- hypotheses of `short_frame_rejected` at a non-trivial point -/
example : decItems (decObj exEnv true 3) exEnv 0 (.field .u64 (.field .s8 .nil)) exTarget = .ok ([.int 1000, .int 3], []) := by rfl
example : extractOf exEnv true [.struct 1, .u64] (u8 0 ++ u32le 4 ++ exTarget.take 4 ++ exPassword) = some .other := by rfl
/-- an unregistered holder name is a KeyError -/
example : extractOf exEnv true [.anydata] ([2, 0, 65, 0] ++ u32le 4 ++ u32le 0) = some .keyError := by rfl
end FramingExamples

/-! registered objects that are falsy, handlers that take long -/

/-- the truth values of the registered objects are irrelevant: objects of the same classes — truthy, falsy, changing
    from request to request — give the same handler run, the same answer and take the same time -/
theorem falsy_object_answered (objs objs' : List Obj) (hsame : objs.map (·.srv) = objs'.map (·.srv))
    (req : Msg) (ex : Option Exc) (p : Prog) : handleTimed objs req ex p = handleTimed objs' req ex p :=
  handleTimed_truth_irrelevant objs objs' hsame req ex p

/-- however long the user's coroutine awaits before it returns / raises: what `handle()` did and the answer are those
    of the coroutine that does the same at once -/
theorem slow_handler_answered (objs : List Obj) (req : Msg) (ex : Option Exc) (p : Prog) :
    (handleTimed objs req ex p).2 = (handleTimed objs req ex (.done p.outcome)).2 :=
  handleTimed_waits_irrelevant objs req ex p

/-- the answer is `react` of what the addressed object's generated `handle()` did with the coroutine's outcome — so
    `one_response`, `outcome_table`, `noresponse_silent`, `unknown_method_not_implemented` … speak about it -/
theorem timed_answer_is_react (objs : List Obj) (req : Msg) (ex : Option Exc) (p : Prog) :
    (handleTimed objs req ex p).2.2 = react (registryOf (objServers objs)) req (handleTimedResult objs req ex p) ∧
    (∀ srv mid, findServer req.protocol (objServers objs) = some srv → req.method = some mid →
      handleTimedResult objs req ex p = generatedHandle srv mid ex p.outcome) :=
  ⟨handleTimed_reaction objs req ex p, fun srv mid hs hm => handleTimed_result objs req ex p srv mid hs hm⟩

/-- the loop is back at `recv()` exactly when the coroutine is done (no deadline cuts it short, nothing is sent early):
    all of its awaiting if the dispatch reaches it, no time at all otherwise -/
theorem handler_time_is_awaited (objs : List Obj) (req : Msg) (ex : Option Exc) (p : Prog) :
    (∀ srv mid, findServer req.protocol (objServers objs) = some srv → req.method = some mid →
      (handleTimed objs req ex p).1 = if (invoked srv mid ex).isSome then p.waited else 0) ∧
    (findServer req.protocol (objServers objs) = none → (handleTimed objs req ex p).1 = 0) :=
  ⟨fun srv mid hs hm => handleTimed_elapsed objs req ex p srv mid hs hm, handleTimed_unregistered_elapsed objs req ex p⟩

/-- the driver's `sreqo` (`serveStepTimed`) is `serveStep` — hence `serve`, hence `C11_sequence` — on these requests -/
theorem timed_loop_is_serve (objs : List Obj) (alive : Bool) (req : Msg) (ex : Option Exc) (p : Prog) :
    (serveStepTimed objs alive req ex p).1 =
      (serveStep (registryOf (objServers objs)) alive (req, handleTimedResult objs req ex p)).1 ∧
    (serveStepTimed objs alive req ex p).2.map (·.2.2) =
      (serveStep (registryOf (objServers objs)) alive (req, handleTimedResult objs req ex p)).2 :=
  serveStepTimed_serveStep objs alive req ex p

/-- a falsy object of a class with one method, a coroutine awaiting 31 s + 1 h and then raising KeyError:
    answered with PythonCore::KeyError after 3631 s; on a response-less protocol: silence -/
example : handleTimed [{ srv := { protocol := 10, noresponse := false, methods := [{ id := 1, supported := true, resp := .single false }] }, truthy := false }]
    { mode := 0, protocol := 10, method := some 1, callId := 9, error := -1, body := [] } none
    (.wait 31000 (.wait 3600000 (.done (.raises .keyError))))
    = (3631000, some (.raised .keyError), .sends [10, 0, 0, 0, 10, 0, 7, 0, 4, 0x80, 9, 0, 0, 0]) := by decide
example : handleTimed [{ srv := { protocol := 14, noresponse := true, methods := [{ id := 1, supported := true, resp := .none }] }, truthy := false }]
    { mode := 0, protocol := 14, method := some 1, callId := 9, error := -1, body := [] } none
    (.wait 600000 (.done (.returns .good (.returned []))))
    = (600000, some (.returned []), .silent) := by decide

/-! ### a listener with several connections: registration is per connection -/
open Nx.RmcListener in
/-- what connection `c` registers for itself does not exist for another connection `d`: a request for that protocol on `d`
    is still answered `Core::NotImplemented`, and `d` can register an instance of its own -/
theorem listener_registration_is_per_connection (l : Listener) (c d : Nat) (s : Server) (hcd : d ≠ c)
    (td : List Server) (hd : tableOf d l.conns = some td) (hp : findServer s.protocol td = none)
    (req : Msg) (m : Nat) (w : ReqWF req m) (hreq : req.protocol = s.protocol) (h : HandleResult) :
    (step (step l (.register c s)).1 (.request d req h)).2
        = .reaction (.sends (specEncode (.failure req.protocol req.callId 0x80010002))) ∧
    (∀ s' : Server, s'.protocol = s.protocol → (step (step l (.register c s)).1 (.register d s')).2 = .registered true) := by
  have ht : tableOf d (step l (.register c s)).1.conns = some td := by rw [step_other l (.register c s) d hcd, hd]
  refine ⟨?_, fun s' hs' => (register_ok _ d td s' ht (by rw [hs']; exact hp)).1⟩
  rw [request_not_here _ d td req m w ht (by rw [hreq]; exact hp) h]

open Nx.RmcListener in
/-- whole histories: whatever OTHER connections do (accept, register, request, close — any number of events), the servers of
    connection `d` stay what they were; and the listener's own list never changes -/
theorem listener_history_frame (l : Listener) (evs : List Ev) (d : Nat) (h : ∀ e ∈ evs, d ≠ e.conn) :
    tableOf d (run l evs).1.conns = tableOf d l.conns ∧ (run l evs).1.servers = l.servers :=
  ⟨run_other l evs d h, run_servers l evs⟩

open Nx.RmcListener in
/-- a registration ends with its connection: after ANY history a newly accepted connection starts with exactly the
    listener's servers, and a closed connection has none -/
theorem listener_accept_starts_with_listeners_servers (l : Listener) (evs : List Ev) (c : Nat) :
    tableOf c (step (run l evs).1 (.accept c)).1.conns = some l.servers ∧
    tableOf c (step (run l evs).1 (.close c)).1.conns = none := by
  refine ⟨?_, close_forgets _ c⟩
  rw [accept_fresh, run_servers]

open Nx.RmcListener in
/-- on ONE connection the second registration of a protocol raises (the handler's exception: PythonCore::Exception by
    `outcome_table`) and changes nothing -/
theorem listener_second_registration_raises (l : Listener) (c : Nat) (t : List Server) (s s' : Server)
    (ht : tableOf c l.conns = some t) (hp : findServer s.protocol t = some s') :
    step l (.register c s) = (l, .registered false) :=
  register_dup l c t s s' ht hp

/-- connections 0 and 1 of a listener serving protocol 10: 0 registers protocol 110; 1 asks for it -> NotImplemented;
    1 registers its own -> fine; 0 registers it again -> raises; 0 closes, a new connection 0 asks -> NotImplemented -/
example :
    let srv (p : Nat) : Server := { protocol := p, noresponse := false, methods := [{ id := 1, supported := true, resp := .none }] }
    let rq : Msg := { mode := 0, protocol := 110, method := some 1, callId := 7, error := -1, body := [] }
    let ni : Nx.RmcListener.Out := .reaction (.sends [10, 0, 0, 0, 110, 0, 2, 0, 1, 0x80, 7, 0, 0, 0])
    (Nx.RmcListener.run { servers := [srv 10], conns := [] }
      [.accept 0, .accept 1, .register 0 (srv 110), .request 1 rq (.returned []), .register 1 (srv 110), .request 1 rq (.returned []),
       .register 0 (srv 110), .close 0, .accept 0, .request 0 rq (.returned [])]).2
    = [.nothing, .nothing, .registered true, ni, .registered true,
       .reaction (.sends [10, 0, 0, 0, 110, 1, 7, 0, 0, 0, 1, 0x80, 0, 0]), .registered false, .nothing, .nothing, ni] := by decide

end Nx.C11
