"""C03 — PRUDP packet codecs are lossless and independent of framing.

Correspondence of the real codec classes (PRUDPMessageV0 x 8 variants, PRUDPMessageV1, PRUDPLiteMessage,
encode_options/decode_options, PRUDPMessageSelector) with the compiled Lean L0 model, plus the property
oracle on the real code: decode(encode p) = [p], re-encode identity, concatenation, chunking independence."""
import itertools, json
from nintendo.nex import prudp
from codec_prudp import *
import C03_many

LEVEL = "proof"

THEOREMS_TIED = ["Nx.C03.v0_decode_encode", "Nx.C03.v1_decode_encode", "Nx.C03.lite_decode_encode",
                 "Nx.C03.v0_concat", "Nx.C03.v1_concat", "Nx.C03.lite_chunking"]


def res_enc(x):
    return "err " + exc_name(x) if isinstance(x, Exception) else "ok " + hx(x)


def res_dec(x):
    return "err " + exc_name(x) if isinstance(x, Exception) else fmt_packets(x)


class Codec:
    """one real codec object + how to address the same codec in the model driver"""
    def __init__(self, enc, sv=0, cv=1, fv=1, key=""):
        self.enc, self.sv, self.cv, self.fv, self.key = enc, sv, cv, fv, key
        self.settings = make_settings(sv=sv, cv=cv, fv=fv, key=key)
        self.obj = self.new()
        self.cfg = cfg_str(sv, cv, fv, key)

    def new(self):
        return {"v0": prudp.PRUDPMessageV0, "v1": prudp.PRUDPMessageV1, "lite": prudp.PRUDPLiteMessage}[self.enc](self.settings)

    def ident(self):
        return {"enc": self.enc, "signature_version": self.sv, "checksum_version": self.cv, "flags_version": self.fv,
                "access_key": self.key}

    def encode(self, t):
        return safe(self.obj.encode, make_packet(t))

    def decode(self, data):
        """stateless decode (a fresh object for lite)"""
        return safe(self.new().decode if self.enc == "lite" else self.obj.decode, data)

    def enc_line(self, t):
        if self.enc == "v0": return "v0enc %s %s" % (self.cfg, fmt_fields(t))
        return "%senc %s" % (self.enc, fmt_fields(t))

    def wf_line(self, t):
        if self.enc == "v0": return "v0wf %s %s" % (self.cfg, fmt_fields(t))
        return "%swf %s" % (self.enc, fmt_fields(t))

    def dec_line(self, data):
        if self.enc == "v0": return "v0dec %s %s" % (self.cfg, hx(data))
        if self.enc == "v1": return "v1dec %s" % hx(data)
        return "litefeed - %s" % hx(data)

    def dec_real(self, data):
        if self.enc != "lite":
            return res_dec(self.decode(data))
        o = self.new()
        r = safe(o.decode, data)
        return res_dec(r) + " buf " + hx(o.buffer)

    def gen(self, rng, ptype=None, flags=None):
        if self.enc == "v0": return gen_v0(rng, self.fv, ptype, flags)
        if self.enc == "v1": return gen_v1(rng, ptype, flags)
        return gen_lite(rng, ptype, flags)


# ---------------------------------------------------------------------------------------------
# the property, stated on the real code

def oracle_roundtrip(c, t):
    """decode(encode p) == [p] on every field, and encode(decode(encode p)) == encode p"""
    data = c.encode(t)
    if isinstance(data, Exception):
        return "encode raised %r for a well-formed packet" % (data,)
    ps = c.decode(data)
    if isinstance(ps, Exception):
        return "decode raised %r on the encoding of a well-formed packet" % (ps,)
    if len(ps) != 1:
        return "encoding of one packet decoded to %d packets" % len(ps)
    got = fields_of(ps[0])
    if got != t:
        d = [(f, a, b) for f, a, b in zip(FIELDS, t, got) if a != b]
        return "round trip changed fields: " + ", ".join("%s: sent %r got %r" % (f, a if f != "payload" else a[:16], b if f != "payload" else b[:16]) for f, a, b in d[:4])
    again = safe(c.obj.encode, ps[0])
    if isinstance(again, Exception) or again != data:
        return "re-encoding the decoded packet gives different bytes"
    return None


def oracle_concat(c, ts):
    datas = [c.encode(t) for t in ts]
    if any(isinstance(d, Exception) for d in datas):
        return "encode raised for a well-formed packet"
    ps = c.decode(b"".join(datas))
    if isinstance(ps, Exception):
        return "decode raised %r on %d concatenated packets" % (ps, len(ts))
    if [fields_of(p) for p in ps] != list(ts):
        return "%d concatenated packets decoded to %d packets / different fields" % (len(ts), len(ps))
    return None


def feed_all(c, chunks):
    o = c.new()
    out = []
    for ch in chunks:
        out += o.decode(ch)
    return out, o.buffer


def oracle_chunking(c, ts, tail, chunks):
    try:
        out, buf = feed_all(c, chunks)
    except Exception as e:
        return "decode raised %r on a valid stream cut into %d chunks" % (e, len(chunks))
    if [fields_of(p) for p in out] != list(ts):
        return "stream of %d packets cut into %d chunks decoded to %d packets / different fields" % (len(ts), len(chunks), len(out))
    if buf != tail:
        return "residual buffer differs after chunked decode (%d bytes, expected %d)" % (len(buf), len(tail))
    return None


def partitions_all(n):
    """all compositions of range(n) into consecutive non-empty chunks, as cut lists"""
    for r in range(n):
        for cuts in itertools.combinations(range(1, n), r):
            yield cuts


def split_at(data, cuts):
    res, prev = [], 0
    for c in cuts:
        res.append(data[prev:c]); prev = c
    res.append(data[prev:])
    return res


# ---------------------------------------------------------------------------------------------

def run(ctx):
    rng = ctx.rng
    drv = ctx.driver()
    quick = ctx.tier == "quick"
    scale = 1 if quick else 40
    ctx.rule = ("well-formed packets generated per encoding (8 v0 variants x access keys, v1, lite) over all types x all legal flag "
                "subsets x boundary/random field values x payloads 0..1400 x every option combination; each is encoded and decoded by the "
                "real codec object and by the compiled Lean model and the results compared (enc/dec/wf lines); datagrams of 1..6 packets; "
                "lite streams cut at every position / every partition when short and at random positions when long (buffer compared after "
                "every call); a malformed stream (all truncations of short datagrams, +-1 on every header byte, bit flips, splices, the "
                "v0 negative-length corner, garbage); raw out-of-range packets through the encoders; encode_options/decode_options and the "
                "selector exhaustively on their small axes; MANY packets in one datagram / stream chunk (17, 32, 100, 1000, around every power of two, "
                "random counts; ack bursts, small, option-bearing and full-size packets) at codec level (one piece and cut at packet boundaries, "
                "in groups, at random positions, in blocks: after every decode call the packets delivered = the packets completely fed) and "
                "through the real receive loops PRUDPSocketTransport.handle / PRUDPDatagramTransport.process / PRUDPClientTransport.process "
                "(every packet dispatched before the loop reads on). The property oracle (round trip, re-encode, concat, chunking) runs on the real "
                "code for every well-formed case. distinct non-trivial = distinct model lines not ending in a rejection of random garbage")
    lines, reals, meta = [], [], []

    budget = [600_000_000]     # characters of correspondence lines kept in memory; the unchanged tree needs < 10% of it. A decoder
                               # whose buffer runs away (e.g. a buffer shared between objects) would otherwise need tens of GB
    def add(line, real, m):
        cost = len(line) + len(real)
        if cost > budget[0]:
            ctx.tag("correspondence line dropped: memory budget exhausted (runaway buffers)"); return
        budget[0] -= cost
        lines.append(line); reals.append(real); meta.append(m)

    codecs = []
    for (sv, cv, fv) in V0_VARIANTS:
        for key in (ACCESS_KEYS if not quick else [ACCESS_KEYS[0], ACCESS_KEYS[1], rng.choice(ACCESS_KEYS[2:])]):
            codecs.append(Codec("v0", sv, cv, fv, key))
    codecs.append(Codec("v1", key=rng.choice(ACCESS_KEYS)))
    codecs.append(Codec("lite", key=rng.choice(ACCESS_KEYS)))
    v0codecs = [c for c in codecs if c.enc == "v0"]
    weight = {"v0": 1, "v1": len(v0codecs), "lite": len(v0codecs)}

    # ---- 1. well-formed packets: grid over types x flag subsets, then random ----------------------------
    wf = []   # (codec, tuple)
    for c in codecs:
        width = 5 if (c.enc == "v0" and c.fv == 0) else 12
        bits = [b for b in FLAG_BITS if b < (1 << width)]
        maxtype = 7 if (c.enc == "v0" and c.fv == 0) else 15
        types = list(range(5)) + [5, maxtype]
        for ty in types:
            for r in range(len(bits) + 1):
                for sub in itertools.combinations(bits, r):
                    fl = sum(sub)
                    reps = 1 if c.enc == "v0" else 4
                    for _ in range(reps):
                        wf.append((c, c.gen(rng, ty, fl)))
    n_random = 15000 * scale
    for _ in range(n_random):
        r = rng.random()
        c = rng.choice(v0codecs) if r < 0.5 else codecs[-2] if r < 0.75 else codecs[-1]
        wf.append((c, c.gen(rng)))

    valid = {"v0": [], "v1": [], "lite": []}   # (codec, data, tuple)
    oracle_fail = 0
    for c, t in wf:
        e = c.encode(t)
        add(c.enc_line(t), res_enc(e), ("enc", c.enc))
        add(c.wf_line(t), "true", ("wf", c.enc))
        if isinstance(e, bytes):
            add(c.dec_line(e), c.dec_real(e), ("dec", c.enc))
            valid[c.enc].append((c, e, t))
        why = oracle_roundtrip(c, t)
        if why and oracle_fail < 6:
            oracle_fail += 1
            ctx.violation("%s-roundtrip:type=%d:flags=%#x" % (c.enc, t[0], t[1]), "PRUDP %s round trip fails on the real code: %s" % (c.enc, why),
                          {"codec": c.ident(), "packet": dict(zip(FIELDS, [x.hex() if isinstance(x, bytes) else x for x in t])), "why": why,
                           "how": "codec.decode(codec.encode(packet)) with the codec class of prudp.py built from these settings"})

    # ---- 1b. the encoding is a function of the packet's CURRENT fields: one packet object filled in, encoded, changed and encoded
    # again (a sweep over a header field that reuses a base packet; a sender building fragments / retries from one object), a
    # copy.copy() of an encoded packet given new values, a decoded packet that is changed and re-encoded -------------------
    import copy
    reuse_fail = 0
    n_reuse = 0
    for c in codecs:
        for rep in range(2 if c.enc == "v0" else 30 * (1 if quick else 8)):
            obj_codec = c.new()            # the codec object is reused too
            ts = [c.gen(rng) for _ in range(rng.randint(2, 6))]
            if rng.random() < 0.6:
                # the same type/flags with other ids / payload: the fields an endpoint changes between fragments and retries
                base = ts[0]
                ts = [base] + [base[:8] + t[8:11] + base[11:16] + t[16:18] for t in ts[1:]]
            how = rng.choice(["same-object", "copy", "decoded"])
            p = make_packet(ts[0])
            first = safe(obj_codec.encode, p)
            for k, t in enumerate(ts[1:], 1):
                if how == "copy":
                    p = copy.copy(p)
                elif how == "decoded" and isinstance(first, bytes):
                    d = safe(c.new().decode, first)
                    if not isinstance(d, Exception) and len(d) == 1:
                        p = d[0]
                for f, v in zip(FIELDS, t):
                    setattr(p, f, v)
                got = safe(obj_codec.encode, p)
                want = c.encode(t)           # a fresh packet object with the same fields
                n_reuse += 1
                if isinstance(want, bytes) and got != want and reuse_fail < 4:
                    reuse_fail += 1
                    back = safe(c.new().decode, got) if isinstance(got, bytes) else got
                    diff = []
                    if not isinstance(back, Exception) and len(back) == 1:
                        diff = [(f, a, b) for f, a, b in zip(FIELDS, t, fields_of(back[0])) if a != b]
                    ctx.violation("%s-reused-object:%s" % (c.enc, how),
                                  "PRUDP %s: a packet object that was encoded, given new field values (%s) and encoded again does not encode its current fields: "
                                  "decode(encode(p)) differs from p in %s" % (c.enc, how, ", ".join("%s: set %r, decoded %r" % (f, a if f != "payload" else a[:12], b if f != "payload" else b[:12]) for f, a, b in diff[:4]) or "the bytes (%r)" % (got if isinstance(got, Exception) else got[:24].hex(),)),
                                  {"codec": c.ident(), "how": how, "step": k,
                                   "packets": [dict(zip(FIELDS, [x.hex() if isinstance(x, bytes) else x for x in t_])) for t_ in ts[:k + 1]]})
                first = got
    ctx.tag("reused-packet-object encodes", n_reuse)

    # ---- 2. datagrams of 1..6 packets -----------------------------------------------------------------
    n_dgram = 3000 * scale
    for i in range(n_dgram):
        r = rng.random()
        c = rng.choice(v0codecs) if r < 0.5 else codecs[-2] if r < 0.8 else codecs[-1]
        n = 1 + i % 6
        ts = []
        for j in range(n):
            t = c.gen(rng)
            if c.enc == "v0" and j < n - 1 and not t[1] & 8:
                t = (t[0], t[1] | 8) + t[2:]
            if len(t[-1]) > 300: t = t[:-1] + (t[-1][:rng.randint(0, 40)],)
            ts.append(t)
        data = b"".join(c.encode(t) for t in ts) if all(isinstance(c.encode(t), bytes) for t in ts) else None
        if data is not None:
            add(c.dec_line(data), c.dec_real(data), ("concat%d" % n, c.enc))
            # without HAS_SIZE on an inner packet the v0 code swallows the rest: model must agree (not a violation)
            if c.enc == "v0" and n > 1 and rng.random() < 0.15:
                ts2 = [(t[0], t[1] & ~8) + t[2:] for t in ts]
                d2 = b"".join(c.encode(t) for t in ts2)
                add(c.dec_line(d2), c.dec_real(d2), ("concat-nosize", c.enc))
        why = oracle_concat(c, ts)
        if why:
            ctx.violation("%s-concat:n=%d" % (c.enc, n), "PRUDP %s concatenation fails on the real code: %s" % (c.enc, why),
                          {"codec": c.ident(), "packets": [dict(zip(FIELDS, [x.hex() if isinstance(x, bytes) else x for x in t])) for t in ts], "why": why})

    # ---- 3. lite chunking --------------------------------------------------------------------------
    lc = codecs[-1]
    def chunk_case(ts, tail, chunks, tag, model=True):
        if model:
            o = lc.new()
            for ch in chunks:
                before = o.buffer
                r = safe(o.decode, ch)
                add("litefeed %s %s" % (hx(before), hx(ch)), res_dec(r) + " buf " + hx(o.buffer), (tag, "lite"))
                if isinstance(r, Exception): break
        else:
            ctx.case(key=None, nontrivial=False, tag=tag + ":oracle-only")
        why = oracle_chunking(lc, ts, tail, chunks)
        if why:
            ctx.violation("lite-chunking:%s" % tag, "lite stream decoding depends on how the stream is cut: " + why,
                          {"codec": lc.ident(), "packets": [dict(zip(FIELDS, [x.hex() if isinstance(x, bytes) else x for x in t])) for t in ts],
                           "tail": tail.hex(), "chunks": [ch.hex() for ch in chunks], "why": why})

    def small_lite(maxpayload):
        t = gen_lite(rng)
        return t[:-1] + (t[-1][:rng.randint(0, maxpayload)],)
    def lite_ok(make):
        # an encoder that refuses a well-formed packet is reported by the round-trip oracle; the chunking sections skip such packets
        for _ in range(200):
            t = make()
            if not isinstance(lc.encode(t), Exception): return t
        raise RuntimeError("the lite encoder refuses every well-formed packet")
    small_ok = lambda: lite_ok(lambda: small_lite(6))
    # (a) one minimal packet: every partition (2^(n-1)), oracle on all, model on a sample
    for rep in range(2 if quick else 6):
        t = gen_lite(rng, ptype=rng.choice([2, 3, 4]))
        t = t[:-1] + (t[-1][:rep % 2],)
        data = lc.encode(t)
        if isinstance(data, Exception):
            ctx.violation("c03:lite:encode-raised", "PRUDP lite: encode raised %r for a well-formed packet" % (data,), {"fields": repr(t)})
            continue
        for k, cuts in enumerate(partitions_all(len(data))):
            chunk_case([t], b"", split_at(data, cuts), "chunk-all-partitions", model=(k % 97 == 0))
    # (b) short streams (<= 64 bytes): every single cut and every pair of cuts
    for rep in range(12 * scale):
        ts = []
        while True:
            t = small_ok()
            if sum(len(lc.encode(x)) for x in ts) + len(lc.encode(t)) > 64: break
            ts.append(t)
        data = b"".join(lc.encode(t) for t in ts)
        tailsrc = lc.encode(small_ok())
        tail = tailsrc[:rng.randrange(len(tailsrc))] if rep % 2 else b""
        stream = data + tail
        for i in range(len(stream) + 1):
            chunk_case(ts, tail, [stream[:i], stream[i:]], "chunk-every-cut")
        pairs = list(itertools.combinations(range(len(stream) + 1), 2))
        for (i, j) in (pairs if not quick else rng.sample(pairs, min(len(pairs), 150))):
            chunk_case(ts, tail, [stream[:i], stream[i:j], stream[j:]], "chunk-every-pair", model=(rng.random() < 0.2))
    # (c) long streams: random partitions incl. empty chunks and byte-at-a-time
    for rep in range(150 * scale):
        ts = [lite_ok(lambda: gen_lite(rng)) for _ in range(rng.randint(1, 6))]
        ts = [t if len(t[-1]) <= 400 or rng.random() < 0.2 else t[:-1] + (t[-1][:50],) for t in ts]
        data = b"".join(lc.encode(t) for t in ts)
        tailsrc = lc.encode(lite_ok(lambda: gen_lite(rng)))
        tail = tailsrc[:rng.randrange(len(tailsrc))] if rng.random() < 0.5 else b""
        stream = data + tail
        mode = rep % 4
        if mode == 0 and len(stream) <= 200:
            chunks = [stream[i:i + 1] for i in range(len(stream))]
        else:
            k = rng.randint(1, 8)
            cuts = sorted(rng.randint(0, len(stream)) for _ in range(k))   # repeated cut = empty chunk
            chunks = split_at(stream, cuts)
        chunk_case(ts, tail, chunks, "chunk-random")

    # ---- 4. malformed stream ---------------------------------------------------------------------------
    def mal(c, data, tag):
        add(c.dec_line(data), c.dec_real(data), (tag, c.enc))
    for encname in ("v0", "v1", "lite"):
        pool = valid[encname]
        short = [v for v in pool if len(v[1]) <= 90]
        rng.shuffle(short)
        for c, data, t in short[: (40 if quick else 600) * (3 if encname == "v0" else 1)]:
            for k in range(len(data)):
                mal(c, data[:k], "trunc")
            for i in range(min(len(data), 34)):
                for d in (1, -1):
                    m = bytearray(data); m[i] = (m[i] + d) & 0xFF
                    mal(c, bytes(m), "perturb")
            mal(c, data + b"\0", "append"); mal(c, data + rng.randbytes(rng.randint(1, 20)), "append")
        for _ in range(1500 * scale):
            c, data, t = rng.choice(pool)
            r = rng.random()
            if r < 0.5:
                m = bytearray(data)
                for _ in range(rng.randint(1, 3)):
                    m[rng.randrange(min(len(m), 48))] ^= 1 << rng.randrange(8)
                mal(c, bytes(m), "bitflip")
            elif r < 0.8:
                c2, d2, _ = rng.choice(pool)
                mal(c, data[:rng.randrange(len(data) + 1)] + d2[rng.randrange(len(d2) + 1):], "splice")
            else:
                mal(c, rng.randbytes(rng.randint(0, 40)), "garbage")
    # the v0 negative-length corner: no HAS_SIZE and fewer bytes than a checksum after the fixed fields; the checksum
    # field then overlaps the header. Built with the real calc_checksum so that the packet is *accepted*.
    for _ in range(400 * scale):
        c = rng.choice(v0codecs)
        hdr = 10 if c.fv == 0 else 11
        ty = rng.choice([0, 1, 2, 3, 4])
        extra = {0: 4, 1: 4, 2: 1}.get(ty, 0)
        csz = 4 if c.cv == 0 else 1
        total = hdr + extra + rng.randrange(csz)          # available after fixed fields < csz
        body = bytearray(rng.randbytes(total - csz))
        fl = rng.choice([0, 1, 2, 4, 5]) if c.fv == 0 else rng.choice([0, 1, 2, 4, 0x200, 0x205])
        if len(body) > 2:
            if c.fv == 0: body[2] = ty | (fl << 3)
            else:
                body[2] = (ty | (fl << 4)) & 0xFF
                if len(body) > 3: body[3] = (ty | (fl << 4)) >> 8
        body = bytes(body)
        ck = c.obj.calc_checksum(body)
        data = body + (struct.pack("<I", ck) if c.cv == 0 else bytes([ck]))
        mal(c, data, "v0-negative-length")
        # the same corner reached as the last packet of a datagram
        pre = c.encode(gen_v0(rng, c.fv, flags=8))
        if isinstance(pre, bytes): mal(c, pre + data, "v0-negative-length")
    # lite: malformed streams fed in chunks to one object, continuing after an exception (the buffer survives it)
    for _ in range(500 * scale):
        c, data, t = rng.choice(valid["lite"])
        m = bytearray(data)
        r = rng.random()
        if r < 0.4: m[rng.randrange(min(len(m), 30))] ^= 1 << rng.randrange(8)
        elif r < 0.6: m[0] = rng.choice([0x80, 0x81, 0])
        elif r < 0.8: m[1] = (m[1] + rng.choice([1, -1, 2, 16])) & 0xFF
        stream = bytes(m) + rng.choice(valid["lite"])[1] + (rng.choice(valid["lite"])[1] if rng.random() < .5 else b"")
        cuts = sorted(rng.randint(0, len(stream)) for _ in range(rng.randint(0, 4)))
        o = lc.new()
        for ch in split_at(stream, cuts):
            before = o.buffer
            rr = safe(o.decode, ch)
            add("litefeed %s %s" % (hx(before), hx(ch)), res_dec(rr) + " buf " + hx(o.buffer), ("lite-mal-stream", "lite"))

    # ---- 5. raw packets outside the well-formed sets through the encoders -----------------------------
    def pick():
        r = rng.random()
        return rng.choice(v0codecs) if r < 0.5 else codecs[-2] if r < 0.75 else codecs[-1]
    for _ in range(6000 * scale):
        c = pick()
        t = list(c.gen(rng))
        for _ in range(rng.randint(1, 3)):
            i = rng.randrange(18)
            t[i] = gen_raw(rng)[i]
        if t[0] is None: t[0] = 0
        t = tuple(t)
        e = c.encode(t)
        add(c.enc_line(t), res_enc(e), ("encraw", c.enc))
        if isinstance(e, bytes):
            add(c.enc_line(t).replace("enc ", "enct ", 1), res_enc(e), ("encraw-total", c.enc))
            add(c.dec_line(e), c.dec_real(e), ("decraw", c.enc))
    for _ in range(1500 * scale):
        c = pick()
        t = gen_raw(rng)
        add(c.enc_line(t), res_enc(c.encode(t)), ("encraw", c.enc))

    # ---- 6. options --------------------------------------------------------------------------------
    KEYS = [0, 1, 2, 3, 4, 128]
    def optval(k, wellformed=True):
        if k in (1, 128):
            if wellformed: return rng.randbytes(16)
            return rng.choice([None, rng.randbytes(3), rng.randbytes(20), b""])
        hi = {0: 0xFFFFFFFF, 2: 0xFF, 3: 0xFFFF, 4: 0xFF}.get(k, 0xFF)
        if wellformed: return rng.choice([0, 1, hi, rng.randint(0, hi)])
        return rng.choice([hi + 1, None, hi * 3])
    def fmt_opts(d):
        if not d: return "-"
        return ",".join("%d=%s" % (k, "n" if v is None else ("b" + hx(v)) if isinstance(v, bytes) else "i%d" % v) for k, v in d.items())
    def res_opts(x):
        if isinstance(x, Exception): return "err " + exc_name(x)
        return "ok" if not x else "ok " + ",".join("%d=%s" % (k, ("b" + hx(v)) if isinstance(v, bytes) else "i%d" % v) for k, v in x.items())
    optdicts = []
    for r in range(len(KEYS) + 1):
        for sub in itertools.combinations(KEYS, r):
            perms = list(itertools.permutations(sub))
            for perm in (perms if len(perms) <= 24 else rng.sample(perms, 24 if quick else 120)):
                optdicts.append({k: optval(k) for k in perm})
    for d in optdicts:
        e = safe(prudp.encode_options, d)
        add("optenc " + fmt_opts(d), res_enc(e), ("optenc", "opt"))
        if isinstance(e, bytes):
            back = safe(prudp.decode_options, e)
            add("optdec " + hx(e), res_opts(back), ("optdec", "opt"))
            if isinstance(back, Exception) or list(back.items()) != list(d.items()):
                ctx.violation("options-roundtrip:keys=%s" % list(d), "decode_options(encode_options(d)) != d on the real code",
                              {"options": {str(k): (v.hex() if isinstance(v, bytes) else v) for k, v in d.items()}, "decoded": res_opts(back)})
            # every truncation, a duplicate of every entry, every length byte perturbed, an unknown type
            for k in range(len(e)):
                add("optdec " + hx(e[:k]), res_opts(safe(prudp.decode_options, e[:k])), ("optdec-trunc", "opt"))
            if len(d) <= 3:
                pos = 0
                for key in d:
                    size = prudp.OPTIONS[key][0]
                    dup = e + e[pos:pos + 2 + size]
                    rdup = safe(prudp.decode_options, dup)
                    add("optdec " + hx(dup), res_opts(rdup), ("optdec-dup", "opt"))
                    if not isinstance(rdup, ValueError):
                        ctx.violation("options-duplicate-accepted:key=%d" % key, "decode_options accepted an option block with a duplicate entry",
                                      {"data": dup.hex(), "result": repr(rdup)})
                    for delta in (1, -1):
                        m = bytearray(e); m[pos + 1] = (m[pos + 1] + delta) & 0xFF
                        rlen = safe(prudp.decode_options, bytes(m))
                        add("optdec " + hx(bytes(m)), res_opts(rlen), ("optdec-len", "opt"))
                        if not isinstance(rlen, ValueError):
                            ctx.violation("options-length-accepted:key=%d" % key, "decode_options accepted an option with a wrong length byte",
                                          {"data": bytes(m).hex(), "result": repr(rlen)})
                    pos += 2 + size
    for ty in range(256):
        for ln in (0, 1, 2, 4, 16):
            d = bytes([ty, ln]) + bytes(ln)
            r = safe(prudp.decode_options, d)
            add("optdec " + hx(d), res_opts(r), ("optdec-type", "opt"))
            if ty not in prudp.OPTIONS and not isinstance(r, ValueError):
                ctx.violation("options-unknown-accepted:type=%d" % ty, "decode_options accepted an unknown option type", {"data": d.hex()})
    for _ in range(300 * scale):
        d = {k: optval(k, rng.random() < 0.7) for k in rng.sample(KEYS + [5, 127, 129, 255], rng.randint(1, 4))}
        add("optenc " + fmt_opts(d), res_enc(safe(prudp.encode_options, d)), ("optenc-raw", "opt"))

    # ---- 7. selector -----------------------------------------------------------------------------------
    datas = [b"", b"\xea", b"\xea\xd0", b"\xea\xd0\x01", b"\xea\xd0\x01\x00\x00", b"\xea\xd0\x00\x01", b"\xea\xd1\x01", b"\xeb\xd0\x01",
             b"\x80\x00\x00", b"\xa1\xaf\x00"] + [rng.randbytes(rng.randint(1, 8)) for _ in range(10)]
    datas += [v[1][:20] for v in valid["v0"][:10] + valid["v1"][:10] + valid["lite"][:10]]
    names = {prudp.PRUDPMessageV0: "v0", prudp.PRUDPMessageV1: "v1", prudp.PRUDPLiteMessage: "lite"}
    for tr in (0, 1, 2):
        for ver in (0, 1, 2, 3):
            s = make_settings(transport=tr, version=ver)
            sel = prudp.PRUDPMessageSelector(s)
            for pv in (None, 0, 1, 2):
                add("sel %d %d %s" % (tr, ver, "none" if pv is None else pv), names[type(sel.select(pv))], ("select", "sel"))
            for d in datas:
                got = names[type(sel.analyze(d))]
                add("ana %d %d %s" % (tr, ver, hx(d)), got, ("analyze", "sel"))
                want = ("lite" if tr != 0 else ("v1" if d[:3] == b"\xea\xd0\x01" else "v0") if ver == 2 else "v0" if ver == 0 else "v1")
                if got != want:
                    ctx.violation("select:transport=%d:version=%d" % (tr, ver), "PRUDPMessageSelector.analyze chose %s, specification says %s" % (got, want),
                                  {"transport": tr, "version": ver, "data": d.hex()})
    # through the selector end to end (encode by packet.version, decode by magic)
    for _ in range(300 * scale):
        tr = rng.choice([0, 0, 0, 1, 2]); ver = rng.choice([0, 1, 2, 2])
        sv, cv, fv = rng.choice(V0_VARIANTS); key = rng.choice(ACCESS_KEYS)
        s = make_settings(tr, ver, sv, cv, fv, key)
        sel = prudp.PRUDPMessageSelector(s)
        which = names[type(sel.select(rng.choice([0, 1])))]
        t = gen_v0(rng, fv) if which == "v0" else gen_v1(rng) if which == "v1" else gen_lite(rng)
        e = safe(sel.encode, make_packet(t))
        add("selenc %d %d %s %s" % (tr, ver, cfg_str(sv, cv, fv, key), fmt_fields(t)), res_enc(e), ("selenc", "sel"))
        if isinstance(e, bytes):
            r = safe(sel.decode, e)
            add("seldec %d %d %s - %s" % (tr, ver, cfg_str(sv, cv, fv, key), hx(e)), res_dec(r) + " buf " + hx(sel.lite.buffer), ("seldec", "sel"))
            # decode goes by magic (UDP, version 2) or by the configured version; a v0 datagram that happens to start with the
            # v1 magic is inherently ambiguous and excluded (select_by_magic states the rule)
            decodes_with = "lite" if tr != 0 else ("v1" if e[:3] == b"\xea\xd0\x01" else "v0") if ver == 2 else "v0" if ver == 0 else "v1"
            if decodes_with == which:
                if isinstance(r, Exception) or [fields_of(p) for p in r] != [t]:
                    ctx.violation("selector-roundtrip:transport=%d:version=%d:%s" % (tr, ver, which),
                                  "PRUDPMessageSelector.decode(encode(p)) != [p] on the real code",
                                  {"transport": tr, "version": ver, "codec": {"sv": sv, "cv": cv, "fv": fv, "key": key},
                                   "packet": dict(zip(FIELDS, [x.hex() if isinstance(x, bytes) else x for x in t])), "result": res_dec(r)[:300]})

    # ---- 8. MANY whole packets in ONE chunk / datagram (17, 32, 100, 1000, ...): codec level and through the real receive
    # loops of the transports (C03_many.py) ---------------------------------------------------------------
    C03_many.run_many(ctx, add, codecs)

    # ---- run the model, diff -----------------------------------------------------------------------------
    outs = drv.batch(lines)
    diffs = []
    class_diffs = 0
    sample_every = max(1, len(lines) // 6)
    for idx, (line, real, model, m) in enumerate(zip(lines, reals, outs, meta)):
        words = model.split(" ", 2)
        cls = words[0] + (":" + words[1] if words[0] == "err" and len(words) > 1 else "")
        nontrivial = not (m[0] in ("garbage",) and words[0] == "err")
        ctx.case(key=hash(line), nontrivial=nontrivial, tag="%s:%s:%s" % (m[1], m[0], cls),
                 sample={"op": line[:160], "model": model[:160], "real": real[:160]} if idx % sample_every == 0 else None)
        if real != model:
            # which exception class a rejected input raises is not part of C03 (C07 only needs `except Exception`): a
            # difference in the class alone is counted, not reported
            if real.startswith("err ") and model.startswith("err ") and real.split(" ")[2:] == model.split(" ")[2:]:
                class_diffs += 1
            else:
                diffs.append((line, real, model, m))
    ctx.traces_validated = len(lines)
    ctx.extra["correspondence_lines"] = len(lines)
    ctx.extra["correspondence_diffs"] = len(diffs)
    ctx.extra["exception_class_only_diffs"] = class_diffs
    ctx.extra["wellformed_packets"] = len(wf)
    ctx.extra["codecs"] = len(codecs)
    # wf lines that differ: the generator produced a packet outside the theorem's hypothesis -> harness bug, or the model's WF
    # no longer matches; either way it is a broken tie, not a violation by itself
    if diffs and not ctx.violations and not ctx.known_hits:
        line, real, model, m = diffs[0]
        ctx.corr_break("prudp-codec-correspondence",
                       "real PRUDP codecs and the Lean L0 model disagree on %d of %d lines (first: %s)" % (len(diffs), len(lines), m[0]),
                       {"first_op": line[:4000], "real": real[:4000], "model": model[:4000], "kinds": sorted({d[3][0] + ":" + d[3][1] for d in diffs})[:20],
                        "theorems_no_longer_tied": THEOREMS_TIED})


def replay(ctx, path):
    r = json.load(open(path))
    print(json.dumps({k: (v if len(repr(v)) < 400 else repr(v)[:400]) for k, v in r.items()}, indent=1))
    if str(r.get("family", "")).startswith("many-"):
        return C03_many.replay_many(r)
    if "codec" in r and "packet" in r and "enc" in r.get("codec", {}):
        cd = r["codec"]
        c = Codec(cd["enc"], cd["signature_version"], cd["checksum_version"], cd["flags_version"], cd["access_key"])
        t = tuple(bytes.fromhex(r["packet"][f]) if isinstance(r["packet"][f], str) else r["packet"][f] for f in FIELDS)
        why = oracle_roundtrip(c, t)
        print("replay: " + (why or "round trip holds now"))
        return 1 if why else 0
    return 0
