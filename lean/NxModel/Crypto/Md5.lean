import NxModel.Bytes
/-!
# MD5 (RFC 1321), HMAC-MD5 (RFC 2104), RC4 — reference implementations

Used only as executable references for the correspondence (never reasoned about
beyond "RC4 is xor with a keystream"). Validated against RFC test vectors in
`NxProps/CryptoVectors.lean` and in the driver self-tests.
-/
namespace Nx.Crypto

open Nx

def md5S : Array UInt32 := #[
  7,12,17,22,7,12,17,22,7,12,17,22,7,12,17,22,
  5,9,14,20,5,9,14,20,5,9,14,20,5,9,14,20,
  4,11,16,23,4,11,16,23,4,11,16,23,4,11,16,23,
  6,10,15,21,6,10,15,21,6,10,15,21,6,10,15,21]

def md5K : Array UInt32 := #[
  0xd76aa478,0xe8c7b756,0x242070db,0xc1bdceee,0xf57c0faf,0x4787c62a,0xa8304613,0xfd469501,
  0x698098d8,0x8b44f7af,0xffff5bb1,0x895cd7be,0x6b901122,0xfd987193,0xa679438e,0x49b40821,
  0xf61e2562,0xc040b340,0x265e5a51,0xe9b6c7aa,0xd62f105d,0x02441453,0xd8a1e681,0xe7d3fbc8,
  0x21e1cde6,0xc33707d6,0xf4d50d87,0x455a14ed,0xa9e3e905,0xfcefa3f8,0x676f02d9,0x8d2a4c8a,
  0xfffa3942,0x8771f681,0x6d9d6122,0xfde5380c,0xa4beea44,0x4bdecfa9,0xf6bb4b60,0xbebfbc70,
  0x289b7ec6,0xeaa127fa,0xd4ef3085,0x04881d05,0xd9d4d039,0xe6db99e5,0x1fa27cf8,0xc4ac5665,
  0xf4292244,0x432aff97,0xab9423a7,0xfc93a039,0x655b59c3,0x8f0ccc92,0xffeff47d,0x85845dd1,
  0x6fa87e4f,0xfe2ce6e0,0xa3014314,0x4e0811a1,0xf7537e82,0xbd3af235,0x2ad7d2bb,0xeb86d391]

def rotl32 (x : UInt32) (c : UInt32) : UInt32 := (x <<< c) ||| (x >>> (32 - c))

def word32le (a b c d : UInt8) : UInt32 :=
  a.toUInt32 ||| (b.toUInt32 <<< 8) ||| (c.toUInt32 <<< 16) ||| (d.toUInt32 <<< 24)

def wordsOf : Bytes → List UInt32
  | a :: b :: c :: d :: r => word32le a b c d :: wordsOf r
  | _ => []

def le32 (w : UInt32) : Bytes :=
  [w.toUInt8, (w >>> 8).toUInt8, (w >>> 16).toUInt8, (w >>> 24).toUInt8]

structure Md5State where
  a : UInt32
  b : UInt32
  c : UInt32
  d : UInt32

def md5Init : Md5State := ⟨0x67452301, 0xefcdab89, 0x98badcfe, 0x10325476⟩

def md5Round (m : Array UInt32) (i : Nat) (s : Md5State) : Md5State :=
  let (f, g) :=
    if i < 16 then ((s.b &&& s.c) ||| (~~~ s.b &&& s.d), i)
    else if i < 32 then ((s.d &&& s.b) ||| (~~~ s.d &&& s.c), (5 * i + 1) % 16)
    else if i < 48 then (s.b ^^^ s.c ^^^ s.d, (3 * i + 5) % 16)
    else (s.c ^^^ (s.b ||| ~~~ s.d), (7 * i) % 16)
  let f' := f + s.a + md5K[i]! + m[g]!
  ⟨s.d, s.b + rotl32 f' md5S[i]!, s.b, s.c⟩

def md5Block (s : Md5State) (block : Bytes) : Md5State :=
  let m := (wordsOf block).toArray
  let t := (List.range 64).foldl (fun st i => md5Round m i st) s
  ⟨s.a + t.a, s.b + t.b, s.c + t.c, s.d + t.d⟩

def md5Pad (len : Nat) : Bytes :=
  let r := (len + 1) % 64
  let z := if r ≤ 56 then 56 - r else 120 - r
  (0x80 : UInt8) :: List.replicate z 0 ++ u64le (8 * len % 18446744073709551616)

def chunks64 (fuel : Nat) (b : Bytes) : List Bytes :=
  match fuel with
  | 0 => []
  | fuel + 1 => if b.isEmpty then [] else b.take 64 :: chunks64 fuel (b.drop 64)

def md5 (msg : Bytes) : Bytes :=
  let padded := msg ++ md5Pad msg.length
  let s := (chunks64 (padded.length / 64 + 1) padded).foldl md5Block md5Init
  le32 s.a ++ le32 s.b ++ le32 s.c ++ le32 s.d

def xorBytes (a b : Bytes) : Bytes := List.zipWith (· ^^^ ·) a b

def hmacMd5 (key msg : Bytes) : Bytes :=
  let k0 := if key.length > 64 then md5 key else key
  let k := k0 ++ List.replicate (64 - k0.length) 0
  let ipad := k.map (· ^^^ 0x36)
  let opad := k.map (· ^^^ 0x5c)
  md5 (opad ++ md5 (ipad ++ msg))

/-! ## RC4 -/

structure Rc4 where
  s : Array UInt8
  i : Nat
  j : Nat

def rc4Ksa (key : Bytes) : Rc4 :=
  let karr := key.toArray
  let s0 : Array UInt8 := (Array.range 256).map (fun n => UInt8.ofNat n)
  if karr.size = 0 then ⟨s0, 0, 0⟩ else
  let (s, _) := (List.range 256).foldl (fun (acc : Array UInt8 × Nat) i =>
      let (s, j) := acc
      let j' := (j + (s[i]!).toNat + (karr[i % karr.size]!).toNat) % 256
      let si := s[i]!
      let sj := s[j']!
      ((s.set! i sj).set! j' si, j')) (s0, 0)
  ⟨s, 0, 0⟩

def rc4Next (st : Rc4) : UInt8 × Rc4 :=
  let i := (st.i + 1) % 256
  let si := st.s[i]!
  let j := (st.j + si.toNat) % 256
  let sj := st.s[j]!
  let s := (st.s.set! i sj).set! j si
  (s[(si.toNat + sj.toNat) % 256]!, ⟨s, i, j⟩)

/-- encrypt = decrypt = xor with the key stream; returns the advanced state. -/
def rc4Apply (st : Rc4) : Bytes → Bytes × Rc4
  | [] => ([], st)
  | x :: r =>
    let (k, st') := rc4Next st
    let (out, st'') := rc4Apply st' r
    ((x ^^^ k) :: out, st'')

def rc4 (key data : Bytes) : Bytes := (rc4Apply (rc4Ksa key) data).1

end Nx.Crypto
