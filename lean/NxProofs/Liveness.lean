import NxProofs.Channel
/-!
# C01 — the liveness half on the L2 channel: once every emitted packet has arrived at least once, everything is released

The retransmission machinery (C02: `resend_chain`, `silence_bound`) keeps re-sending a packet until it is acknowledged or the
budget is exhausted; "faults within the budget" means: of every packet, at least one copy reaches the receiver. What the
receiver then does is this file: whatever the order, the duplicates and the interleaving with sends and pings, the sliding
window ends up having released the whole log (`all_arrived_all_released`), hence — `C01_complete` — exactly the sent messages
have been delivered.

Invariant: every index that has arrived so far is either already released or buffered in the window under its id (`Cov`).
Together with "the head of the window is never buffered" (`SInv`) an unreleased index that has arrived is impossible.
-/
namespace Nx.Chan
open Nx

variable {α : Type}

/-- every index in `A` is released (`< r`) or buffered under its id, within half a window of the release point -/
def Cov (start : Nat) (A : List Nat) (w : Window α) (r : Nat) : Prop :=
  ∀ j ∈ A, j < r ∨ (j < r + 32768 ∧ idOf start j ∈ keys w.packets)

theorem keys_erase_mem {k id : Nat} {l : List (Nat × α)} (h : id ∈ keys l) (hne : id ≠ k) : id ∈ keys (erase k l) := by
  unfold keys at h ⊢
  obtain ⟨x, hx, hid⟩ := List.mem_map.mp h
  exact List.mem_map.mpr ⟨x, mem_erase.mpr ⟨hx, by rw [hid]; exact hne⟩, hid⟩

/-- the release loop keeps `Cov`: the release point moves by exactly the number of packets appended to `acc` -/
theorem drain_cov (start : Nat) (A : List Nat) :
    ∀ (fuel : Nat) (w : Window α) (r : Nat) (acc : List α), w.next = idOf start r → Cov start A w r →
      Cov start A (Window.drain fuel w acc).1 (r + ((Window.drain fuel w acc).2.length - acc.length)) := by
  intro fuel
  induction fuel with
  | zero => intro w r acc _ h; simpa [Window.drain] using h
  | succ fuel ih =>
    intro w r acc hn h
    cases hl : lookup w.next w.packets with
    | none => simpa [Window.drain, hl] using h
    | some p =>
      simp only [Window.drain, hl]
      have hn' : ({ next := seqNext w.next, packets := erase w.next w.packets } : Window α).next = idOf start (r + 1) := by
        show seqNext w.next = idOf start (r + 1)
        rw [hn]; unfold seqNext idOf; omega
      have hcov' : Cov start A ({ next := seqNext w.next, packets := erase w.next w.packets } : Window α) (r + 1) := by
        intro j hj
        rcases h j hj with h1 | ⟨h1, h2⟩
        · exact Or.inl (by omega)
        · by_cases hjr : j < r + 1
          · exact Or.inl hjr
          · refine Or.inr ⟨by omega, keys_erase_mem h2 ?_⟩
            rw [hn]; unfold idOf; omega
      have := ih _ (r + 1) (acc ++ [p]) hn' hcov'
      have hlen := drain_acc_len fuel ({ next := seqNext w.next, packets := erase w.next w.packets } : Window α) (acc ++ [p])
      simp only [List.length_append, List.length_cons, List.length_nil] at this hlen
      have he : r + 1 + ((Window.drain fuel { next := seqNext w.next, packets := erase w.next w.packets } (acc ++ [p])).2.length - (acc.length + 1)) =
          r + ((Window.drain fuel { next := seqNext w.next, packets := erase w.next w.packets } (acc ++ [p])).2.length - acc.length) := by omega
      rw [he] at this
      exact this

theorem keys_append_mem {id : Nat} {l : List (Nat × α)} (x : Nat × α) (h : id ∈ keys l) : id ∈ keys (l ++ [x]) := by
  unfold keys at h ⊢; simp only [List.map_append, List.mem_append]; exact Or.inl h

/-- `SlidingWindow.update` keeps `Cov` and adds the index that just arrived -/
theorem update_cov (start : Nat) (A : List Nat) (w : Window α) (r i : Nat) (p : α) (hn : w.next = idOf start r)
    (h : Cov start A w r) (h1 : r < i + 32768) (h2 : i < r + 32768) :
    Cov start (i :: A) (w.update (idOf start i) p).1 (r + (w.update (idOf start i) p).2.length) := by
  unfold Window.update
  rw [hn]
  by_cases hir : i < r
  · have := (isDup_iff start r i h1 h2).mpr hir
    simp only [this, Bool.true_or, if_true, List.length_nil, Nat.add_zero]
    intro j hj
    rcases List.mem_cons.mp hj with e | hj
    · subst e; exact Or.inl hir
    · exact h j hj
  · have hd : isDup (idOf start r) (idOf start i) = false := by
      cases hh : isDup (idOf start r) (idOf start i) with
      | false => rfl
      | true => exact absurd ((isDup_iff start r i h1 h2).mp hh) hir
    simp only [hd, Bool.false_or]
    cases hl : lookup (idOf start i) w.packets with
    | some q =>
      simp only [Option.isSome_some, if_true, List.length_nil, Nat.add_zero]
      intro j hj
      rcases List.mem_cons.mp hj with e | hj
      · subst e
        refine Or.inr ⟨h2, ?_⟩
        have := mem_of_lookup hl
        exact List.mem_map.mpr ⟨_, this, rfl⟩
      · exact h j hj
    | none =>
      simp only [Option.isSome_none, Bool.false_eq_true, if_false]
      have hcov' : Cov start (i :: A) ({ w with packets := w.packets ++ [(idOf start i, p)] } : Window α) r := by
        intro j hj
        rcases List.mem_cons.mp hj with e | hj
        · subst e
          refine Or.inr ⟨h2, ?_⟩
          unfold keys; simp
        · rcases h j hj with h3 | ⟨h3, h4⟩
          · exact Or.inl h3
          · exact Or.inr ⟨h3, keys_append_mem _ h4⟩
      have := drain_cov start (i :: A) (w.packets ++ [(idOf start i, p)]).length
        ({ w with packets := w.packets ++ [(idOf start i, p)] } : Window α) r [] hn hcov'
      simpa [hn] using this

/-! ## on the channel -/

/-- the indices that have effectively arrived during a run: copies of existing log entries handed to an open receiver -/
def arrivedBy (ch : Chan) : Op → List Nat
  | .arrive j => if (ch.s.log[j]?).isSome && !ch.r.core.closed then [j] else []
  | _ => []

def arrived (c : Cipher) (size : Nat) : Chan → List Op → List Nat
  | _, [] => []
  | ch, op :: ops => arrivedBy ch op ++ arrived c size (step c size ch op) ops

theorem step_receiver_of_sender_op (c : Cipher) (size : Nat) (ch : Chan) (op : Op) (h : ∀ j, op ≠ .arrive j) :
    (step c size ch op).r = ch.r := by
  cases op with
  | arrive j => exact absurd rfl (h j)
  | _ => rfl

/-- **coverage is an invariant of every run**: whatever arrived is released or buffered -/
theorem cov_run (c : Cipher) (hc : CipherOk c) (size : Nat) (hsz : 1 ≤ size) (start : Nat) :
    ∀ (ops : List Op) (ch : Chan) (A : List Nat), SndInv c start ch.s → RcvInv c start ch → runOk c size ch ops = true →
      (ch.r.core.closed = false → Cov start A ch.r.win ch.r.nrel) →
      ((run c size ch ops).r.core.closed = false →
        Cov start (A ++ arrived c size ch ops) (run c size ch ops).r.win (run c size ch ops).r.nrel) := by
  intro ops
  induction ops with
  | nil => intro ch A _ _ _ hcov hcl; simpa [arrived, run] using hcov hcl
  | cons op ops ih =>
    intro ch A hs hr hok hcov
    have hok' := hok
    simp only [runOk, Bool.and_eq_true] at hok'
    obtain ⟨hop, hrest⟩ := hok'
    have hinv1 := inv_run c hc size hsz start [op] ch hs hr (by simp [runOk, hop])
    simp only [run, List.foldl_cons, List.foldl_nil] at hinv1
    simp only [run, List.foldl_cons, arrived]
    -- the set grows by what this op made arrive; show coverage after the op, then use the induction hypothesis
    have key : (step c size ch op).r.core.closed = false →
        Cov start (A ++ arrivedBy ch op) (step c size ch op).r.win (step c size ch op).r.nrel := by
      intro hcl'
      cases op with
      | arrive j =>
        simp only [step, arrivedBy]
        cases hw : ch.s.log[j]? with
        | none =>
          simp only [Option.isSome_none, Bool.false_and, Bool.false_eq_true, if_false, List.append_nil]
          simp only [step, hw] at hcl'
          exact hcov hcl'
        | some w =>
          simp only [step, hw] at hcl'
          by_cases hcl : ch.r.core.closed = true
          · -- receiver already closed: stays closed, contradiction with hcl'
            simp only [Receiver.arrive, hcl, if_true] at hcl'
            cases hcl'
          · have hclf : ch.r.core.closed = false := bool_false_of_not_true hcl
            simp only [Option.isSome_some, hclf, Bool.not_false, Bool.and_self, if_true]
            have hjlt : j < ch.s.log.length := by
              rcases Nat.lt_or_ge j ch.s.log.length with h | h
              · exact h
              · rw [List.getElem?_eq_none h] at hw; cases hw
            simp only [opOk, Bool.or_eq_true, decide_eq_true_eq] at hop
            have h12 : j < ch.r.nrel + 32768 ∧ ch.r.nrel < j + 32768 := by
              rcases hop with h | h
              · exact h
              · omega
            have hid : w.id = idOf start j := by
              have := hs.ids j hjlt
              rw [List.getElem?_eq_getElem hjlt] at hw
              cases hw; exact this
            have hnext : ch.r.win.next = idOf start ch.r.nrel := (hr.win hclf).1.next
            have := update_cov start A ch.r.win ch.r.nrel j w hnext (hcov hclf) h12.2 h12.1
            simp only [Receiver.arrive, hclf, Bool.false_eq_true, if_false, hid]
            intro k hk
            apply this k
            rcases List.mem_append.mp hk with hk | hk
            · exact List.mem_cons_of_mem _ hk
            · rw [List.mem_singleton.mp hk]; exact List.mem_cons_self
      | send m => simp only [arrivedBy, List.append_nil]; exact hcov hcl'
      | begin m => simp only [arrivedBy, List.append_nil]; exact hcov hcl'
      | frag => simp only [arrivedBy, List.append_nil]; exact hcov hcl'
      | ping => simp only [arrivedBy, List.append_nil]; exact hcov hcl'
      | disconnect => simp only [arrivedBy, List.append_nil]; exact hcov hcl'
    have := ih (step c size ch op) _ hinv1.1 hinv1.2 hrest key
    simpa [run, List.append_assoc] using this

/-- **liveness core.** If, in a run within the half-window hypothesis, every packet of the final log has arrived at least once
    while the receiver was open, then the window has released the whole log. -/
theorem all_arrived_all_released (c : Cipher) (hc : CipherOk c) (size : Nat) (hsz : 1 ≤ size) (start : Nat) (hs : start < 65536)
    (ops : List Op) (hok : runOk c size (init start) ops = true)
    (hopen : (run c size (init start) ops).r.core.closed = false)
    (hall : ∀ j, j < (run c size (init start) ops).s.log.length → j ∈ arrived c size (init start) ops) :
    (run c size (init start) ops).r.nrel = (run c size (init start) ops).s.log.length := by
  obtain ⟨hS, hR⟩ := inv_run c hc size hsz start ops (init start) (inv_init c start hs).1 (inv_init c start hs).2 hok
  have hcov := cov_run c hc size hsz start ops (init start) [] (inv_init c start hs).1 (inv_init c start hs).2 hok
    (fun _ j hj => by cases hj) hopen
  simp only [List.nil_append] at hcov
  rcases Nat.lt_or_ge (run c size (init start) ops).r.nrel (run c size (init start) ops).s.log.length with hlt | hge
  · exfalso
    have hin := hall _ hlt
    rcases hcov _ hin with h1 | ⟨_, h2⟩
    · omega
    · obtain ⟨hw, hnone⟩ := hR.win hopen
      rw [hw.next] at hnone
      exact (lookup_none_iff.mp hnone) h2
  · exact Nat.le_antisymm hR.le hge

end Nx.Chan

namespace Nx.Chan
open Nx

/-- **graceful close is in order.** If the receiver has reached end-of-stream through the sender's DISCONNECT and that
    `disconnect()` was called while no `send` was between its fragments, then everything the application ever passed to `send`
    has been delivered before the end-of-stream, and nothing partial is left. -/
theorem closed_after_everything (c : Cipher) (start : Nat) (ch : Chan) (hS : SndInv c start ch.s) (hR : RcvInv c start ch)
    (hcl : ch.r.core.closed = true) (hclean : ch.s.clean = true) :
    ch.s.closing = true ∧ ch.r.core.reasm.out = ch.s.sent ∧ ch.r.core.reasm.buf = [] := by
  have hlog : ch.s.log = ch.s.log.take ch.r.nrel ++ ch.s.log.drop ch.r.nrel := (List.take_append_drop _ _).symm
  have hcore : Core.consume c core0 ch.s.log = ch.r.core := by
    rw [hlog, consume_append, ← hR.core, consume_closed c _ _ hcl]
  have hclosing : ch.s.closing = true := by
    cases h : ch.s.closing with
    | true => rfl
    | false =>
      have := sndInv_log_open hS h
      rw [hcore, hcl] at this; cases this
  have := ((hS.dead hclosing).2.2 hclean).2
  rw [hcore] at this
  rw [this]; exact ⟨hclosing, rfl, rfl⟩

end Nx.Chan
