"""C18 helpers: case generation, driving the real Switch clients through their request callback,
encoding the same case as a line for the Lean driver (nxdrv_C18)."""
import base64, json, struct
import anyio
from anynet import http

# the fixed reference list (same as Nx.Switch.documentedLanguages in lean/NxModel/Switch/Checks.lean)
DOCUMENTED_LANGUAGES = ["en-US", "en-GB", "ja", "fr", "de", "es-419", "es", "it", "nl", "fr-CA", "pt", "ru",
                        "zh-Hans", "zh-Hant", "ko", "pt-BR"]
BOUNDARIES = [1300, 1500, 1800, 1900]

KEYS = {"aes_kek_generation_source": bytes(range(16))}
for _i in range(0, 40):
    KEYS["master_key_%02x" % _i] = bytes([_i] * 16)

CLIENTS = ["dauth", "aauth", "baas", "dragons", "five", "sun", "atumn"]


def hx(b):
    if isinstance(b, str):
        b = b.encode()
    return b.hex() if b else "-"


def enc_arg(t, v):
    if v is None: return "none"
    if t == "bool": return "t" if v else "f"
    if t == "n": return "n:%d" % v
    if t == "s": return "s:" + hx(v)
    if t == "b": return "b:" + hx(v)
    if t == "ln": return "ln:" + (",".join(str(x) for x in v) or "-")
    if t == "ls": return "ls:" + (",".join(hx(x) for x in v) or "-")
    if t == "d": return "d:" + (",".join(hx(k) + "=" + hx(x) for k, x in v.items()) or "-")
    raise ValueError(t)


def exc_name(e):
    if isinstance(e, struct.error): return "StructError"
    if isinstance(e, ValueError): return "ValueError"
    if isinstance(e, TypeError): return "TypeError"
    if isinstance(e, KeyError): return "KeyError"
    if isinstance(e, IndexError): return "IndexError"
    if isinstance(e, OverflowError): return "OverflowError"
    return "Other"


def make_client(mods, client, devid):
    if client == "dauth": return mods["dauth"].DAuthClient(KEYS)
    if client == "aauth": return mods["aauth"].AAuthClient()
    if client == "baas": return mods["baas"].BAASClient()
    if client == "dragons": return mods["dragons"].DragonsClient(devid)
    if client == "five": return mods["five"].FiveClient()
    if client == "sun": return mods["sun"].SunClient(devid)
    if client == "atumn": return mods["atumn"].AtumnClient(devid)
    raise ValueError(client)


def load_modules():
    import importlib
    return {m: importlib.import_module("nintendo.switch." + m) for m in CLIENTS + ["common"]}


# ------------------------------------------------------------------ call table
# name -> (list of arg types as the model sees the *user* args, python method name)
SIGS = {
    "dauth": {
        "challenge": [],
        "device_token": ["n"],
        "edge_token": ["n", "s"],
    },
    "aauth": {
        "challenge": ["s"],
        "auth_nocert": ["n", "n", "s"],
        "auth_system": ["n", "n", "s"],
        "auth_digital": ["n", "n", "s", "cert"],
        "auth_gamecard": ["n", "n", "s", "b", "b", "s", "s"],
    },
    "baas": {
        "authenticate": ["s", "s"],
        "login": ["n", "s", "s", "s", "s", "bool"],
        "register": ["s"],
        "update_presence": ["n", "n", "s", "s", "n", "n", "d", "n"],
        "get_friends": ["n", "s", "n"],
    },
    "dragons": {
        "publish_elicense_archive": ["s", "s", "b", "n"],
        "report_elicense_archive": ["s", "s", "n"],
        "publish_device_linked_elicenses": ["s"],
        "exercise_elicense": ["s", "ls", "ln", "n"],
        "contents_authorization_token_for_aauth": ["s", "s", "n", "n"],
    },
    "five": {
        "get_unread_invitation_count": ["s", "n"],
        "get_inbox": ["s", "n"],
        "get_invitation_group": ["s", "n"],
        "mark_as_read": ["s", "ln"],
        "mark_all_as_read": ["s", "n"],
        "send_invitation": ["s", "ln", "n", "n", "b", "d", "bool", "n"],
    },
    "sun": {"system_update_meta": []},
    "atumn": {
        "download_content_metadata": ["n", "n", "bool"],
        "download_content": ["s"],
    },
}

RET = {  # what the public method returns from the response: the JSON, None, json["count"], or the body
    ("five", "get_unread_invitation_count"): "count",
    ("five", "mark_as_read"): "none", ("five", "mark_all_as_read"): "none",
    ("dragons", "report_elicense_archive"): "none", ("dragons", "exercise_elicense"): "none",
}


def ret_kind(client, call):
    if client == "atumn": return "none"
    return RET.get((client, call), "json")


CHALLENGE = "TzJ0EB3EvsWvQI5aPj15uaNVH9paGdsWB4l-eI5uzW0="
CHALLENGE_DATA = "4SxW91vqVg6pz4CXMH2Ouw=="
CONTENT_ID = "0123456789abcdef0123456789abcdef"


def good_response(client, call, req):
    """a success response that lets multi-request calls continue"""
    r = http.HTTPResponse(200)
    if client == "atumn":
        r.headers["X-Nintendo-Content-ID"] = CONTENT_ID
        r.body = b"\x01\x02"
        return r
    r.json = {"challenge": CHALLENGE, "data": CHALLENGE_DATA, "count": 3, "value": "v"}
    return r


def invoke(cl, client, call, args):
    m = getattr(cl, call)
    if client == "atumn" and call == "download_content_metadata":
        return m(args[0], args[1], system_update=args[2])
    return m(*args)


async def run_case(mods, case, responder=None):
    """Runs one public call on a fresh real client. Returns dict(result, caps, exc)."""
    client, devid, ver, cfg, call, args = case["client"], case["devid"], case["ver"], case["cfg"], case["call"], case["args"]
    cl = make_client(mods, client, devid)
    caps = []
    ctx_obj = cl.context

    async def cb(host, req, context):
        data = req.encode()
        caps.append({"host": host, "data": data, "ctx_ok": context is cl.context, "names": list(req.headers.keys())})
        if responder is not None:
            return responder(len(caps) - 1, req)
        return good_response(client, call, req)

    cl.set_request_callback(cb)
    if ver != "init":
        cl.set_system_version(ver)
    if "hosts" in cfg:
        if client == "dragons": cl.set_hosts(*cfg["hosts"])
        else: cl.set_host(cfg["hosts"][0])
    if "power" in cfg: cl.set_power_state(cfg["power"])
    if "region" in cfg: cl.set_platform_region(cfg["region"])
    try:
        value = await invoke(cl, client, call, args)
        return {"ok": True, "value": value, "caps": caps}
    except Exception as e:
        return {"ok": False, "exc": e, "caps": caps}


def form_pairs(body):
    return [tuple(f.split("=", 1)) if "=" in f else (f, None) for f in body.split("&")] if body else []


def split_request(data):
    head, _, body = data.partition(b"\r\n\r\n")
    lines = head.decode().split("\r\n")
    method, target, _ = lines[0].split(" ", 2)
    path, _, query = target.partition("?")
    headers = [tuple(l.split(": ", 1)) for l in lines[1:]]
    return method, path, query, headers, body


def shape_of(data):
    """(method, header names, query keys, body keys) of an encoded request — what may change only at boundaries.
    `Content-Length`-dependent transport artefacts (Expect) are left in: they do not depend on the version."""
    method, path, query, headers, body = split_request(data)
    ct = dict((k.lower(), v) for k, v in headers).get("content-type", "")
    bkeys = []
    if body:
        if "json" in ct:
            j = json.loads(body.decode(), object_pairs_hook=list)
            if isinstance(j, list) and j and isinstance(j[0], tuple):
                bkeys = [k for k, _ in j]
            elif isinstance(j, list):
                bkeys = [dict(x).get("path", "?") if isinstance(x, list) else "?" for x in j]
        else:
            bkeys = [k for k, _ in form_pairs(body.decode())]
    return (method, tuple(k for k, _ in headers), tuple(k for k, _ in form_pairs(query)), tuple(bkeys))


FEATURES = ("method", "headers", "params", "body")


def era_allowed(client, call):
    """Per public call and per feature of the request: the version boundaries at which the documentation
    (docs/changelog.md, docs/reference/switch/*.md) and the version tables let it change.
      dauth  : 18.0.0 header order (changelog 2.2.1); edge_token `vendor_id` with API 7 = 13.0.0 (table)
      aauth  : 18.0.0 header order; challenge(): `&device_auth_token` -> `device_auth_token` at 18.0.0 (changelog 3.0.0);
               auth_*: `media_type` -> `auth_type` with API 5 = 19.0.0; auth_digital: ticket -> token at 15.0.0 (aauth.md);
               auth_gamecard: challenge / challenge_src at 19.0.0 (aauth.md)
      baas   : login `naCountry` required from 18.0.0 (changelog 3.0.0); authenticate `penneId`, update_presence `acdIndex` at 19.0.0
      dragons: contents_authorization_token_for_aauth exists from 15.0.0 and loses its User-Agent at 18.0.0
      five   : send_invitation `acd_index` at 19.0.0
    Everything else must be identical for all 41 versions."""
    A = {f: set() for f in FEATURES + ("result",)}
    if client == "dauth":
        A["headers"] = {1800}
        if call == "edge_token": A["body"] = {1300}
    elif client == "aauth":
        A["headers"] = {1800}
        if call == "challenge": A["body"] = {1800}
        elif call == "auth_digital": A["body"] = {1500, 1900}; A["result"] = {1500}
        else: A["body"] = {1900}
    elif client == "baas":
        if call == "login": A["body"] = {1800}; A["result"] = {1800}
        elif call in ("authenticate", "update_presence"): A["body"] = {1900}
    elif client == "dragons":
        if call == "contents_authorization_token_for_aauth": A["headers"] = {1800}; A["result"] = {1500}
    elif client == "five":
        if call == "send_invitation": A["body"] = {1900}
    return A


def era_required(client, call, tag):
    """changes the changelog names explicitly: they must happen exactly there"""
    R = []
    if client in ("dauth", "aauth"): R.append(("headers", 1800))
    if client == "aauth" and call == "challenge": R.append(("body", 1800))
    if client == "baas" and call == "login" and tag == "app-country": R.append(("body", 1800))
    return R


def features_of(res):
    """per request: {feature: value}; or the exception name"""
    if not res["ok"]:
        return ("err", exc_name(res["exc"]))
    out = []
    for cap in res["caps"]:
        m, h, p, b = shape_of(cap["data"])
        out.append({"method": m, "headers": h, "params": p, "body": b})
    return ("ok", out)


def era_diff(fa, fb):
    """the features in which two results differ"""
    if fa[0] != fb[0] or (fa[0] == "err" and fa[1] != fb[1]): return ["result"]
    if fa[0] == "err": return []
    if len(fa[1]) != len(fb[1]): return ["result"]
    d = []
    for x, y in zip(fa[1], fb[1]):
        for f in FEATURES:
            if x[f] != y[f] and f not in d: d.append(f)
    return d


def model_line(case, res, kind="call"):
    """the driver line for this case; oracle inputs (mac, encrypted ticket) are read back from the captured request"""
    client, devid, ver, cfg, call, args = case["client"], case["devid"], case["ver"], case["cfg"], case["call"], case["args"]
    toks = [kind, client, "none" if devid is None else str(devid), str(ver)]
    if "hosts" in cfg: toks.append("h=" + ",".join(hx(h) for h in cfg["hosts"]))
    if "power" in cfg: toks.append("p=" + hx(cfg["power"]))
    if "region" in cfg: toks.append("r=%d" % cfg["region"])
    toks += ["--", call]
    types = SIGS[client][call]
    caps = res["caps"]
    last_form = {}
    if caps:
        _, _, _, _, body = split_request(caps[-1]["data"])
        try:
            last_form = dict(form_pairs(body.decode()))
        except Exception:
            last_form = {}
    for t, v in zip(types, args):
        if t == "cert":
            toks.append(enc_arg("b" if isinstance(v, (bytes, bytearray)) else "s", v))
        else:
            toks.append(enc_arg(t, v))
    if client == "dauth" and call in ("device_token", "edge_token"):
        toks.append(enc_arg("s", CHALLENGE))
        toks.append(enc_arg("s", last_form.get("mac") or ""))
    if client == "aauth" and call == "auth_digital":
        toks.append(enc_arg("s", last_form.get("cert") or ""))
        toks.append(enc_arg("s", last_form.get("cert_key") or ""))
    if client == "atumn" and call == "download_content_metadata":
        toks.append(enc_arg("s", CONTENT_ID))
    return " ".join(toks)


def real_line(res):
    if res["ok"]:
        return "ok " + " ".join(hx(c["host"]) + "|" + hx(c["data"]) for c in res["caps"])
    return "err " + exc_name(res["exc"])


# ------------------------------------------------------------------ argument variants

def ticket(title_id, good=True, size=0x2C0, sig=0x10004, rev=5, rev_field=None):
    t = bytearray(size)
    if size >= 4: struct.pack_into("<I", t, 0, sig)
    if size >= 0x2B0:
        t[0x285] = rev
        struct.pack_into(">Q", t, 0x2A0, title_id)
        struct.pack_into(">Q", t, 0x2A8, rev if rev_field is None else rev_field)
    return bytes(t)


TITLE = 0x0100ABCD12345000
TOK = "dev.token-_~ +/=&%"      # exercises urlencoding
JWT = "aaa.bbb.ccc"


def call_variants(client, thorough=False):
    """(call, args, tag) for every public call with its argument variants"""
    V = []
    if client == "dauth":
        V += [("challenge", [], "plain")]
        V += [("device_token", [0x8F849B5D34778D8E], "baas"), ("device_token", [0], "zero")]
        V += [("edge_token", [0x8F849B5D34778D8E, "akamai"], "default"), ("edge_token", [1, "ven dor&x"], "vendor")]
    elif client == "aauth":
        V += [("challenge", [TOK], "plain")]
        for c in ("auth_nocert", "auth_system"):
            V += [(c, [TITLE, 0x10000, TOK], "plain"), (c, [0, 0, ""], "zero")]
        V += [("auth_digital", [TITLE, 3, TOK, ticket(TITLE)], "ticket-ok"),
              ("auth_digital", [TITLE, 3, TOK, ticket(TITLE + 1)], "ticket-title"),
              ("auth_digital", [TITLE, 3, TOK, ticket(TITLE, size=0x2BF)], "ticket-size"),
              ("auth_digital", [TITLE, 3, TOK, ticket(TITLE, sig=0x10003)], "ticket-sig"),
              ("auth_digital", [TITLE, 3, TOK, ticket(TITLE, rev_field=6)], "ticket-rev"),
              ("auth_digital", [TITLE, 3, TOK, JWT], "jwt-ok"),
              ("auth_digital", [TITLE, 3, TOK, "a.b"], "jwt-onedot"),
              ("auth_digital", [TITLE, 3, TOK, "a.b.c.d"], "jwt-threedots"),
              ("auth_digital", [TITLE, 3, TOK, "x" * 0x2C0], "str-ticket-size"),
              ("auth_digital", [TITLE, 3, TOK, b"a.b.c"], "bytes-jwt")]
        V += [("auth_gamecard", [TITLE, 1, TOK, b"\x01" * 0x200, b"\xfe\xff" * 20, None, None], "no-challenge"),
              ("auth_gamecard", [TITLE, 1, TOK, b"cert", b"g", "chal/lenge", "src="], "challenge")]
    elif client == "baas":
        V += [("authenticate", [TOK, None], "plain"), ("authenticate", [TOK, "penne id"], "penne")]
        V += [("login", [0x1234, "pw d", "acc", None, None, False], "no-country"),
              ("login", [0x1234, "pw d", "acc", "app.tok", "NL", False], "app-country"),
              ("login", [0, "", "acc", "", "JP", True], "empty-app-skip"),
              ("login", [1, "p", "", None, "US", False], "empty-access")]
        V += [("register", ["acc"], "plain"), ("register", [""], "empty-token")]
        V += [("update_presence", [1, 2, "acc", "ONLINE", TITLE, 3, {}, 0], "default"),
              ("update_presence", [1, 2, "acc", "PLAYING", TITLE, 3, {"a": "b", "k\"ey": "v\\alé"}, 7], "fields")]
        V += [("get_friends", [5, "acc", 300], "default"), ("get_friends", [5, "acc", 1], "count")]
    elif client == "dragons":
        V += [("publish_elicense_archive", ["dtok", "chal", b"\x00\x01\x02cert", 0xABC], "plain"),
              ("report_elicense_archive", ["dtok", "archive-id", 0xABC], "plain"),
              ("publish_device_linked_elicenses", ["dtok"], "plain"),
              ("exercise_elicense", ["dtok", ["e1", "e2"], [1, 0xFFFFFFFFFFFFFFFF], 2], "plain"),
              ("exercise_elicense", ["dtok", [], [], 0], "empty"),
              ("contents_authorization_token_for_aauth", ["dtok", "elic", 0x77, TITLE], "plain")]
    elif client == "five":
        V += [("get_unread_invitation_count", ["acc", 9], "plain"), ("get_inbox", ["acc", 9], "plain"),
              ("get_invitation_group", ["acc", 123456], "plain"),
              ("mark_as_read", ["acc", [1, 2, 0xABCDEF]], "plain"), ("mark_as_read", ["acc", []], "empty"),
              ("mark_all_as_read", ["acc", 9], "plain")]
        V += [("send_invitation", ["acc", [1, 2], TITLE, TITLE, b"data", {"en-US": "hi", "ja": "こん \"q\" \\"}, False, 0], "plain"),
              ("send_invitation", ["acc", [], TITLE, TITLE + 1, b"", {}, True, 3], "empty"),
              ("send_invitation", ["acc", list(range(16)), 1, 2, b"x" * 0x400, {"de": "m" * 0xBF}, False, 1], "limits-ok"),
              ("send_invitation", ["acc", list(range(17)), 1, 2, b"", {}, False, 0], "too-many-receivers"),
              ("send_invitation", ["acc", [1], 1, 2, b"x" * 0x401, {}, False, 0], "data-too-large"),
              ("send_invitation", ["acc", [1], 1, 2, b"", {"de": "m" * 0xC0}, False, 0], "message-too-long"),
              ("send_invitation", ["acc", [1], 1, 2, b"", {"xx": "m"}, False, 0], "bad-language")]
        for lang in DOCUMENTED_LANGUAGES:
            V.append(("send_invitation", ["acc", [1], 1, 2, b"", {lang: "m"}, False, 0], "lang:" + lang))
        for lang in ["nlfr-CA", "EN-US", "en", "zh-CN", "zh-TW", "", "en-US "]:
            V.append(("send_invitation", ["acc", [1], 1, 2, b"", {lang: "m"}, False, 0], "nolang:" + lang))
    elif client == "sun":
        V += [("system_update_meta", [], "plain")]
    elif client == "atumn":
        V += [("download_content_metadata", [TITLE, 5, False], "app"), ("download_content_metadata", [0x0100000000000816, 0, True], "system"),
              ("download_content", [CONTENT_ID], "plain")]
    return V


def to_jtokens(v):
    """prefix token form of a JSON value for the driver"""
    if v is None: return ["N"]
    if v is True: return ["T"]
    if v is False: return ["F"]
    if isinstance(v, int): return ["i%d" % v]
    if isinstance(v, str): return ["s" + hx(v)]
    if isinstance(v, list):
        out = ["a%d" % len(v)]
        for x in v: out += to_jtokens(x)
        return out
    if isinstance(v, dict):
        out = ["o%d" % len(v)]
        for k, x in v.items(): out += ["s" + hx(k)] + to_jtokens(x)
        return out
    raise ValueError(v)


def jhex(v):
    return hx(json.dumps(v, separators=(",", ":")))
