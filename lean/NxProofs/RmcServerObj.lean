import NxModel.Nex.RmcServerObj
/-! lemmas about registered objects (truth values) and slow handlers — statements in `NxProps/C11.lean` -/
namespace Nx.RmcServer
open Nx Nx.Rmc

/-- what `handle()` did, as `react` is given it (`handle_request` consults it only for a registered protocol) -/
def handleTimedResult (objs : List Obj) (req : Msg) (extract : Option Exc) (p : Prog) : HandleResult :=
  ((handleTimed objs req extract p).2.1).getD (.returned [])

theorem handleTimed_truth_irrelevant (objs objs' : List Obj) (hsame : objs.map (·.srv) = objs'.map (·.srv))
    (req : Msg) (ex : Option Exc) (p : Prog) :
    handleTimed objs req ex p = handleTimed objs' req ex p := by
  have h : objServers objs = objServers objs' := hsame
  unfold handleTimed
  rw [h]

theorem handleTimed_waits_irrelevant (objs : List Obj) (req : Msg) (ex : Option Exc) (p : Prog) :
    (handleTimed objs req ex p).2 = (handleTimed objs req ex (.done p.outcome)).2 := by
  unfold handleTimed
  split <;> rfl

theorem handleTimed_elapsed (objs : List Obj) (req : Msg) (ex : Option Exc) (p : Prog) (srv : Server) (mid : Nat)
    (hs : findServer req.protocol (objServers objs) = some srv) (hm : req.method = some mid) :
    (handleTimed objs req ex p).1 = if (invoked srv mid ex).isSome then p.waited else 0 := by
  unfold handleTimed
  rw [hs, hm]

theorem handleTimed_unregistered_elapsed (objs : List Obj) (req : Msg) (ex : Option Exc) (p : Prog)
    (hs : findServer req.protocol (objServers objs) = none) : (handleTimed objs req ex p).1 = 0 := by
  unfold handleTimed
  rw [hs]

theorem handleTimed_reaction (objs : List Obj) (req : Msg) (ex : Option Exc) (p : Prog) :
    (handleTimed objs req ex p).2.2 = react (registryOf (objServers objs)) req (handleTimedResult objs req ex p) := by
  unfold handleTimedResult handleTimed
  split <;> rfl

theorem handleTimed_result (objs : List Obj) (req : Msg) (ex : Option Exc) (p : Prog) (srv : Server) (mid : Nat)
    (hs : findServer req.protocol (objServers objs) = some srv) (hm : req.method = some mid) :
    handleTimedResult objs req ex p = generatedHandle srv mid ex p.outcome := by
  unfold handleTimedResult handleTimed
  rw [hs, hm]
  rfl

theorem serveStepTimed_serveStep (objs : List Obj) (alive : Bool) (req : Msg) (ex : Option Exc) (p : Prog) :
    (serveStepTimed objs alive req ex p).1 =
      (serveStep (registryOf (objServers objs)) alive (req, handleTimedResult objs req ex p)).1 ∧
    (serveStepTimed objs alive req ex p).2.map (·.2.2) =
      (serveStep (registryOf (objServers objs)) alive (req, handleTimedResult objs req ex p)).2 := by
  unfold serveStepTimed serveStep
  cases alive with
  | false => simp
  | true =>
    simp only [if_true]
    rw [← handleTimed_reaction]
    cases h : (handleTimed objs req ex p).2.2 <;> simp [h]

end Nx.RmcServer
