"""Translator: re-reads nintendo/miis.py with `ast` on every run and extracts
  * the field layout of MiiData.decode   (name, kind, n) in stream order,
  * the field layout of MiiData.encode   (name, kind, n) in stream order,
  * the list of (offset, size) byte swaps performed by MiiData.swap_endian,
  * the constants of crc16 (mask, polynomial, flag bit, initial value).
Nothing is taken from an imported module: a statement the extractor does not recognise is reported
(the generated obligation then fails), it is never skipped.

Kinds (codes used in the generated Lean file):
  0 bits n | 1 bit | 2 flag (bool(bit)) | 3 flagBits n (bool(bits n)) | 4 u8 | 5 u8s n | 6 raw n | 7 wstr n
On the encode side `repeat(v, u8)` and `write(v)` carry no count: n = 0 there.
"""
import ast, os

KIND = {"bits": 0, "bit": 1, "flag": 2, "flagBits": 3, "u8": 4, "u8s": 5, "raw": 6, "wstr": 7}


def name_code(name):
    n = 0
    for ch in name.encode("ascii"):
        n = n * 256 + ch
    return n


def _const(node):
    if isinstance(node, ast.Constant) and isinstance(node.value, int):
        return node.value
    raise ValueError("not an int constant: " + ast.dump(node))


def _is_stream_call(node, meth):
    return (isinstance(node, ast.Call) and isinstance(node.func, ast.Attribute) and node.func.attr == meth
            and isinstance(node.func.value, ast.Name) and node.func.value.id == "stream")


def _self_attr(node):
    if isinstance(node, ast.Attribute) and isinstance(node.value, ast.Name) and node.value.id == "self":
        return node.attr
    raise ValueError("not self.<attr>: " + ast.dump(node))


def _dec_expr(e):
    if _is_stream_call(e, "bits") and len(e.args) == 1: return ("bits", _const(e.args[0]))
    if _is_stream_call(e, "bit") and not e.args: return ("bit", 0)
    if _is_stream_call(e, "u8") and not e.args: return ("u8", 0)
    if _is_stream_call(e, "read") and len(e.args) == 1: return ("raw", _const(e.args[0]))
    if _is_stream_call(e, "repeat") and len(e.args) == 2:
        f = e.args[0]
        if isinstance(f, ast.Attribute) and f.attr == "u8" and isinstance(f.value, ast.Name) and f.value.id == "stream":
            return ("u8s", _const(e.args[1]))
    if isinstance(e, ast.Call) and isinstance(e.func, ast.Name) and e.func.id == "bool" and len(e.args) == 1:
        k, n = _dec_expr(e.args[0])
        if k == "bit": return ("flag", 0)
        if k == "bits": return ("flagBits", n)
    # stream.wchars(N).split("\0")[0]
    if (isinstance(e, ast.Subscript) and isinstance(e.slice, ast.Constant) and e.slice.value == 0
            and isinstance(e.value, ast.Call) and isinstance(e.value.func, ast.Attribute) and e.value.func.attr == "split"
            and len(e.value.args) == 1 and isinstance(e.value.args[0], ast.Constant) and e.value.args[0].value == "\0"
            and _is_stream_call(e.value.func.value, "wchars")):
        return ("wstr", _const(e.value.func.value.args[0]))
    raise ValueError("unrecognised decode expression: " + ast.unparse(e))


def _enc_stmt(e):
    """e: a call on `stream` inside encode -> (name, kind, n)"""
    if _is_stream_call(e, "bits") and len(e.args) == 2: return (_self_attr(e.args[0]), "bits", _const(e.args[1]))
    if _is_stream_call(e, "bit") and len(e.args) == 1: return (_self_attr(e.args[0]), "bit", 0)
    if _is_stream_call(e, "u8") and len(e.args) == 1: return (_self_attr(e.args[0]), "u8", 0)
    if _is_stream_call(e, "write") and len(e.args) == 1: return (_self_attr(e.args[0]), "raw", 0)
    if _is_stream_call(e, "repeat") and len(e.args) == 2:
        f = e.args[1]
        if isinstance(f, ast.Attribute) and f.attr == "u8" and isinstance(f.value, ast.Name) and f.value.id == "stream":
            return (_self_attr(e.args[0]), "u8s", 0)
    if _is_stream_call(e, "wchars") and len(e.args) == 1:
        a = e.args[0]
        # self.X + "\0" * (N - len(self.X))
        if (isinstance(a, ast.BinOp) and isinstance(a.op, ast.Add) and isinstance(a.right, ast.BinOp)
                and isinstance(a.right.op, ast.Mult) and isinstance(a.right.left, ast.Constant) and a.right.left.value == "\0"):
            name = _self_attr(a.left)
            r = a.right.right
            if (isinstance(r, ast.BinOp) and isinstance(r.op, ast.Sub) and isinstance(r.right, ast.Call)
                    and isinstance(r.right.func, ast.Name) and r.right.func.id == "len" and _self_attr(r.right.args[0]) == name):
                return (name, "wstr", _const(r.left))
    raise ValueError("unrecognised encode statement: " + ast.unparse(e))


def extract(repo):
    """returns dict(dec=[(name,kind,n)], enc=[(name,kind,n)], dec_tail=[...], swaps=[(offset,size)], crc=dict, problems=[str])"""
    path = os.path.join(repo, "nintendo", "miis.py")
    tree = ast.parse(open(path).read())
    problems = []
    cls = next(n for n in tree.body if isinstance(n, ast.ClassDef) and n.name == "MiiData")
    fn = {n.name: n for n in cls.body if isinstance(n, ast.FunctionDef)}
    dec, enc, tail, swaps = [], [], [], []
    # ---- decode
    body = fn["decode"].body
    # first two statements: data = stream.read(0x60); stream = BitStreamIn(self.swap_endian(data), ">")
    head = [ast.unparse(s) for s in body[:2]]
    if head != ["data = stream.read(96)", "stream = streams.BitStreamIn(self.swap_endian(data), '>')"]:
        problems.append("decode prologue changed: %r" % head)
    for st in body[2:]:
        try:
            if isinstance(st, ast.Assign) and len(st.targets) == 1:
                name = _self_attr(st.targets[0])
                k, n = _dec_expr(st.value)
                if tail: problems.append("field %s read after the checksum slot" % name)
                dec.append((name, k, n))
            elif isinstance(st, ast.Expr) and _is_stream_call(st.value, "u16"):
                tail.append("u16")
            elif isinstance(st, ast.If):
                tail.append(ast.unparse(st.test) + " -> " + ast.unparse(st.body[0]))
            else:
                problems.append("unrecognised decode statement: " + ast.unparse(st))
        except ValueError as e:
            problems.append(str(e))
    if tail != ["u16", "crc16(data) != 0 -> raise ValueError('Mii data checksum not valid')"]:
        problems.append("decode epilogue changed: %r" % tail)
    # ---- encode
    body = fn["encode"].body
    if ast.unparse(body[0]) != "stream = streams.BitStreamOut('>')":
        problems.append("encode prologue changed: " + ast.unparse(body[0]))
    epi = []
    for st in body[1:]:
        try:
            if isinstance(st, ast.Expr) and isinstance(st.value, ast.Call) and isinstance(st.value.func, ast.Attribute) \
                    and isinstance(st.value.func.value, ast.Name) and st.value.func.value.id == "stream":
                if epi: problems.append("field written after the epilogue began")
                enc.append(_enc_stmt(st.value))
            else:
                epi.append(ast.unparse(st))
        except ValueError as e:
            problems.append(str(e))
    if epi != ["data = self.swap_endian(stream.get())", "outstream.write(data)", "outstream.u16(crc16(data + b'\\x00\\x00'))"]:
        problems.append("encode epilogue changed: %r" % epi)
    # ---- build / parse wrappers
    if [ast.unparse(s) for s in fn["build"].body] != ["stream = streams.StreamOut('>')", "self.encode(stream)", "return stream.get()"]:
        problems.append("build changed")
    # ---- swap_endian: evaluate the loop structure symbolically (only range-for loops and direct calls)
    def do_call(c, env):
        if isinstance(c, ast.Call) and isinstance(c.func, ast.Name) and c.func.id in ("swap16", "swap32") and len(c.args) == 2 \
                and isinstance(c.args[0], ast.Name) and c.args[0].id == "array":
            off = c.args[1]
            if isinstance(off, ast.Name): off = env[off.id]
            else: off = _const(off)
            swaps.append((off, 2 if c.func.id == "swap16" else 4))
        else:
            raise ValueError("unrecognised swap_endian statement: " + ast.unparse(c))
    body = fn["swap_endian"].body
    if ast.unparse(body[0]) != "array = bytearray(data)" or ast.unparse(body[-1]) != "return bytes(array)":
        problems.append("swap_endian prologue/epilogue changed")
    for st in body[1:-1]:
        try:
            if isinstance(st, ast.Expr):
                do_call(st.value, {})
            elif isinstance(st, ast.For) and isinstance(st.target, ast.Name) and isinstance(st.iter, ast.Call) \
                    and isinstance(st.iter.func, ast.Name) and st.iter.func.id == "range":
                args = [_const(a) for a in st.iter.args]
                for i in range(*args):
                    for s2 in st.body:
                        do_call(s2.value, {st.target.id: i})
            else:
                problems.append("unrecognised swap_endian statement: " + ast.unparse(st))
        except ValueError as e:
            problems.append(str(e))
    # ---- module-level helpers: the exact text of crc16 / swap16 / swap32 is pinned
    mfn = {n.name: n for n in tree.body if isinstance(n, ast.FunctionDef)}
    crc_src = ast.unparse(mfn["crc16"])
    crc_expected = ("def crc16(data):\n    hash = 0\n    for char in data:\n        for i in range(8):\n"
                    "            flag = hash & 32768\n            hash = hash << 1 & 65535\n            if flag:\n"
                    "                hash ^= 4129\n        hash ^= char\n    return hash")
    if crc_src != crc_expected:
        problems.append("crc16 source differs from the modelled text")
    if ast.unparse(mfn["swap32"]) != "def swap32(data, offs):\n    struct.pack_into('<I', data, offs, struct.unpack_from('>I', data, offs)[0])":
        problems.append("swap32 changed")
    if ast.unparse(mfn["swap16"]) != "def swap16(data, offs):\n    struct.pack_into('<H', data, offs, struct.unpack_from('>H', data, offs)[0])":
        problems.append("swap16 changed")
    return dict(dec=dec, enc=enc, swaps=swaps, problems=problems)


def lean_list(items):
    return "[" + ", ".join(items) + "]"


def lean_obligations(x):
    """Lean source: the extracted tables equal the views of the Lean constant `Nx.Misc.miiLayout` / `miiRegions`."""
    dec = lean_list("(%d, %d, %d)" % (name_code(n), KIND[k], c) for n, k, c in x["dec"])
    enc = lean_list("(%d, %d, %d)" % (name_code(n), KIND[k], c) for n, k, c in x["enc"])
    sw = lean_list("(%d, %d)" % (o, s) for o, s in x["swaps"])
    return """import NxModel.Misc.Mii
open Nx.Misc
/-- fields read by `MiiData.decode`, in stream order, as extracted from miis.py -/
theorem mii_decode_layout_agrees : decView miiLayout = %s := by decide +kernel
/-- fields written by `MiiData.encode`, in stream order, as extracted from miis.py -/
theorem mii_encode_layout_agrees : encView miiLayout = %s := by decide +kernel
/-- byte swaps done by `MiiData.swap_endian`, in program order -/
theorem mii_swaps_agree : swapView miiRegions 0 = %s := by decide +kernel
""" % (dec, enc, sw)


if __name__ == "__main__":
    import sys
    x = extract(sys.argv[1] if len(sys.argv) > 1 else "/repo")
    print(len(x["dec"]), len(x["enc"]), x["problems"])
    for (n, k, c) in x["dec"]:
        print("  ⟨%d, .%s%s⟩,  -- %s" % (name_code(n), k, (" %d" % c) if k in ("bits", "flagBits", "u8s", "raw", "wstr") else "", n))
    print(x["swaps"])
