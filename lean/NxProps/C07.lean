import NxProofs.Frame
import NxProofs.Gating
import NxProps.C03
import NxProofs.HandshakeClient
/-!
# C07 — malformed or hostile traffic cannot crash a transport or disturb other peers

Model: L1 transports (`ServerT.processData` = `PRUDPServerTransport.process_data`: decode, dispatch over the port
table, `except Exception` barrier). `processData` is a total Lean function (no `partial`): whatever the bytes, it
returns the new transport state, the outputs and the swallowed exception — the receive loop has no other exit.
`ServerT.conn t pk k` = the connection with remote key `k = (addr, port, type)` on the stream bound at `pk`.

Work bound: the decode loops make progress by ≥ 10 (v0) / ≥ 30 (v1) / ≥ 12 (lite) bytes per iteration — theorems
`Nx.C03.v0_decode_progress`, `v1_decode_progress` (C03), so a read of n bytes yields at most n/10+1 packets and as many
dispatches.
-/
namespace Nx.C07
open Nx Nx.Prudp Nx.L1

/-- **frame theorem**: bytes from `addr` — valid, malformed or hostile — leave every connection of every other remote
    address, on every virtual port, exactly as it was -/
theorem frame_other_addr (env : Env) (now : Time) (rnd : Rnd) (t : ServerT) (data : Bytes) (addr : Addr)
    (pk : Nat) (k : ClientKey) (hk : k.1 ≠ addr) :
    (t.processData env now rnd data addr).t.conn pk k = t.conn pk k :=
  processData_frame env now rnd t data addr pk k hk

/-- a message is handed only to the connection selected by (source address, source port, source type) under the
    addressed port: one packet changes at most that one connection of that one stream -/
theorem deliver_only_addressed (env : Env) (now : Time) (rnd : Rnd) (up : Bool) (s : ServerStream) (p : Packet) (addr : Addr) :
    SameOthers addr (s.handle env now rnd up p addr).s s :=
  handle_frame env now rnd up s p addr

/-- undecodable data changes no stream and sends nothing -/
theorem undecodable_changes_nothing (env : Env) (now : Time) (rnd : Rnd) (t : ServerT) (data : Bytes) (addr : Addr) (e : Err)
    (h : (decode env.cfg (if t.isStream = true then bufLookup addr t.liteBufs else t.liteBuf) data).1 = .error e) :
    (t.processData env now rnd data addr).t.streams = t.streams ∧ (t.processData env now rnd data addr).outs = [] :=
  processData_undecodable env now rnd t data addr e h

/-- stream transports: what one stream connection sends never touches the reassembly buffer of another connection
    (false for the original code, which shared one buffer: DESIGN §6 D4, repaired in repo commit 033af42) -/
theorem frame_other_stream (env : Env) (now : Time) (rnd : Rnd) (t : ServerT) (data : Bytes) (addr other : Addr)
    (hs : t.isStream = true) (hne : other ≠ addr) :
    bufLookup other (t.processData env now rnd data addr).t.liteBufs = bufLookup other t.liteBufs :=
  processData_frame_buffers env now rnd t data addr other hs hne

/-- traffic for a port that is not bound creates no state and is answered by nothing -/
theorem unknown_port_creates_nothing (env : Env) (now : Time) (rnd : Rnd) (addr : Addr) (p : Packet) (ps : List Packet) (t : ServerT)
    (h : streamLookup (portKey p.destPort p.destType) t.streams = none) :
    (ServerT.dispatch env now rnd addr (p :: ps) t).t = t ∧ (ServerT.dispatch env now rnd addr (p :: ps) t).outs = [] ∧
    (ServerT.dispatch env now rnd addr (p :: ps) t).err = some .value :=
  dispatch_unknown_port env now rnd addr p ps t h

/-- traffic from a peer the server does not know (other than a SYN / CONNECT request) creates no state -/
theorem unknown_peer_creates_nothing (env : Env) (now : Time) (rnd : Rnd) (up : Bool) (s : ServerStream) (p : Packet) (addr : Addr)
    (h1 : ¬ (p.type = TYPE_SYN ∧ (!hasAck p.flags) = true)) (h2 : ¬ (p.type = TYPE_CONNECT ∧ (!hasAck p.flags) = true))
    (h : clientLookup (addr, p.sourcePort, p.sourceType) s.clients = none) :
    (s.handle env now rnd up p addr).s = s ∧ (s.handle env now rnd up p addr).outs = [] ∧ (s.handle env now rnd up p addr).err = none :=
  server_unknown_peer env now rnd up s p addr h1 h2 h

/-- a SYN from anyone is answered statelessly -/
theorem syn_is_stateless (env : Env) (s : ServerStream) (p : Packet) (addr : Addr) : (s.processSyn env p addr).s = s :=
  server_syn_stateless env s p addr

/-! ## whole histories -/

/-- one datagram (or stream chunk) as the transport's receive loop sees it -/
structure Rx where
  now : Time
  rnd : Rnd
  data : Bytes
  addr : Addr

/-- the receive loop over a history of reads: each goes through `process_data` (which swallows whatever is raised) -/
def feed (env : Env) (t : ServerT) (h : List Rx) : ServerT :=
  h.foldl (fun t x => (t.processData env x.now x.rnd x.data x.addr).t) t

/-- **any history of traffic from other addresses** — any number of reads, valid, malformed or hostile, at any times, with
    any random draws — leaves a connection exactly as it was (state, timers, windows, queues: the whole `Conn`) -/
theorem hostile_history_frame (env : Env) (pk : Nat) (k : ClientKey) : ∀ (h : List Rx) (t : ServerT),
    (∀ x ∈ h, x.addr ≠ k.1) → (feed env t h).conn pk k = t.conn pk k := by
  intro h
  induction h with
  | nil => intro t _; rfl
  | cons x xs ih =>
    intro t hall
    have h1 := ih (t.processData env x.now x.rnd x.data x.addr).t (fun y hy => hall y (List.mem_cons_of_mem _ hy))
    have h2 := frame_other_addr env x.now x.rnd t x.data x.addr pk k (fun e => hall x List.mem_cons_self e.symm)
    show (feed env (t.processData env x.now x.rnd x.data x.addr).t xs).conn pk k = _
    rw [h1, h2]

theorem dispatch_isStream (env : Env) (now : Time) (rnd : Rnd) (addr : Addr) : ∀ (ps : List Packet) (t : ServerT),
    (ServerT.dispatch env now rnd addr ps t).t.isStream = t.isStream := by
  intro ps
  induction ps with
  | nil => intro t; rfl
  | cons p ps ih =>
    intro t
    simp only [ServerT.dispatch]
    split
    · rfl
    · split
      · rfl
      · simp only []; rw [ih]

theorem processData_isStream (env : Env) (now : Time) (rnd : Rnd) (t : ServerT) (data : Bytes) (addr : Addr) :
    (t.processData env now rnd data addr).t.isStream = t.isStream := by
  unfold ServerT.processData
  simp only []
  split
  · cases t.isStream <;> rfl
  · rw [dispatch_isStream]; cases t.isStream <;> rfl

/-- … and, on stream transports, its reassembly buffer -/
theorem hostile_history_frame_buffers (env : Env) (other : Addr) : ∀ (h : List Rx) (t : ServerT),
    t.isStream = true → (∀ x ∈ h, x.addr ≠ other) →
    bufLookup other (feed env t h).liteBufs = bufLookup other t.liteBufs ∧ (feed env t h).isStream = true := by
  intro h
  induction h with
  | nil => intro t hs _; exact ⟨rfl, hs⟩
  | cons x xs ih =>
    intro t hs hall
    have hs' : (t.processData env x.now x.rnd x.data x.addr).t.isStream = true := by
      rw [processData_isStream]; exact hs
    have h1 := ih (t.processData env x.now x.rnd x.data x.addr).t hs' (fun y hy => hall y (List.mem_cons_of_mem _ hy))
    have h2 := frame_other_stream env x.now x.rnd t x.data x.addr other hs (fun e => hall x List.mem_cons_self e.symm)
    show bufLookup other (feed env (t.processData env x.now x.rnd x.data x.addr).t xs).liteBufs = _ ∧ _
    exact ⟨by rw [h1.1, h2], h1.2⟩

/-- **a SYN/ACK from anybody, at any time after the handshake, changes nothing**: a SYN packet handed to a CONNECTED client
    connection that has no SYN waiting for its acknowledgement (its SYN was acknowledged: the handshake is over) — late, duplicated
    or crafted, with any parameters and any connection signature — leaves the connection exactly as it was: negotiated
    parameters, the peer's signature, counters, timers, everything. (The class of seeded change C07-21.) -/
theorem late_synack_changes_nothing (env : Env) (now : Time) (c : Conn) (p : Packet) (hp : p.type = TYPE_SYN)
    (hst : c.state = STATE_CONNECTED) (hno : ∀ e ∈ c.ackEvents, e.1.1 ≠ TYPE_SYN) : (c.handle env now p).c = c :=
  late_syn_inert env now c p hp hst hno

/-- … and a CONNECT packet (a late, duplicated or crafted CONNECT/ACK, or a CONNECT request) handed to a client connection that
    has no CONNECT waiting for its acknowledgement changes nothing either, in any state -/
theorem late_connect_changes_nothing (env : Env) (now : Time) (c : Conn) (p : Packet) (hp : p.type = TYPE_CONNECT)
    (hno : ∀ e ∈ c.ackEvents, e.1.1 ≠ TYPE_CONNECT) : (c.handle env now p).c = c :=
  late_connect_inert env now c p hp hno

/-! non-vacuity -/
example : ServerT.conn { streams := [(portKey 1 10, { key := none, supFuncs := 0, maxSub := 0, minorVer := 0, addr := ("s", 1), port := 1, type := 10 })] }
    (portKey 1 10) (("a", 2), 15, 10) = none := by decide

end Nx.C07
