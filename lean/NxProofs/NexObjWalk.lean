import NxModel.Nex.ObjWalk
import NxProofs.NexStationURL
/-! Walks on one value object: several values through one stream; StationURL mutated and serialised repeatedly -/
namespace Nx.Nex.ObjWalk
open Nx Nx.Nex Nx.Nex.StationURL

/-! ## several values through one stream -/

theorem rSeq_wSeq (pidSize : Nat) (items : List (Ty × Val))
    (hrt : ∀ e ∈ items, ∀ b rest, wVal pidSize e.1 e.2 = .ok b → rVal pidSize e.1 (b ++ rest) = .ok (e.2, rest)) :
    ∀ b rest, wSeq pidSize items = .ok b →
      rSeq pidSize (items.map (·.1)) (b ++ rest) = .ok (items.map (·.2), rest) := by
  induction items with
  | nil => intro b rest h; simp only [wSeq, Except.ok.injEq] at h; subst h; rfl
  | cons e r ih =>
    intro b rest h
    obtain ⟨t, v⟩ := e
    simp only [wSeq] at h
    obtain ⟨a, ha, h⟩ := bind_ok h
    obtain ⟨c, hc, h⟩ := bind_ok h
    simp only [pure, Except.pure, Except.ok.injEq] at h
    subst h
    have h1 := hrt (t, v) (by simp) a (c ++ rest) ha
    have h2 := ih (fun y hy => hrt y (by simp [hy])) c rest hc
    simp only [List.map_cons, rSeq, List.append_assoc, h1, bind, Except.bind, h2, pure, Except.pure]

/-- the bytes of a sequence are the concatenation of the bytes of its values, each as a fresh stream writes it -/
theorem wSeq_append (pidSize : Nat) (xs ys : List (Ty × Val)) {a b : Bytes}
    (ha : wSeq pidSize xs = .ok a) (hb : wSeq pidSize ys = .ok b) : wSeq pidSize (xs ++ ys) = .ok (a ++ b) := by
  induction xs generalizing a with
  | nil => simp only [wSeq, Except.ok.injEq] at ha; subst ha; simpa using hb
  | cons e r ih =>
    obtain ⟨t, v⟩ := e
    simp only [wSeq] at ha
    obtain ⟨x, hx, ha⟩ := bind_ok ha
    obtain ⟨c, hc, ha⟩ := bind_ok ha
    simp only [pure, Except.pure, Except.ok.injEq] at ha
    subst ha
    simp only [List.cons_append, wSeq, hx, ih hc, bind, Except.bind, pure, Except.pure, List.append_assoc]

theorem wSeq_single (pidSize : Nat) (t : Ty) (v : Val) : wSeq pidSize [(t, v)] = wVal pidSize t v := by
  simp only [wSeq, bind, Except.bind, pure, Except.pure]
  cases wVal pidSize t v <;> simp

/-! ## StationURL walks: observations are functions of the logical content -/

theorem run_final (u : URL) (ops : List UOp) : (run u ops).2 = content u ops := by
  induction ops generalizing u with
  | nil => rfl
  | cons op r ih => simp only [run, content, List.foldl_cons]; exact ih _

theorem run_length (u : URL) (ops : List UOp) : (run u ops).1.length = ops.length := by
  induction ops generalizing u with
  | nil => rfl
  | cons op r ih => simp only [run, List.length_cons, ih]

/-- the i-th observation of a walk is what a *fresh* object holding the logical content reached by the first
`i` operations shows: nothing else of the history is visible -/
theorem run_obs (u : URL) (ops : List UOp) (i : Nat) (h : i < ops.length) :
    (run u ops).1[i]? = some (observe (content u (ops.take i)) ops[i]) := by
  induction ops generalizing u i with
  | nil => simp at h
  | cons op r ih =>
    cases i with
    | zero => simp [run, content]
    | succ j =>
      simp only [List.length_cons, Nat.add_lt_add_iff_right] at h
      simp only [run, List.getElem?_cons_succ, List.take_succ_cons, List.getElem_cons_succ, content, List.foldl_cons]
      exact ih _ j h

/-! ## typed access after `url[k] = v` -/

theorem dictGet_dictInsert_same {ν : Type} (k : Str) (v : ν) (l : List (Str × ν)) :
    dictGet k (dictInsert k v l) = some v := by
  induction l with
  | nil => simp [dictInsert, dictGet]
  | cons e r ih =>
    obtain ⟨k', v'⟩ := e
    by_cases hk : (k' == k) = true
    · simp [dictInsert, dictGet, hk]
    · simp only [Bool.not_eq_true] at hk
      simp [dictInsert, dictGet, hk, ih]

theorem dictGet_dictInsert_other {ν : Type} (k f : Str) (v : ν) (l : List (Str × ν)) (hne : f ≠ k) :
    dictGet f (dictInsert k v l) = dictGet f l := by
  induction l with
  | nil =>
    have : (k == f) = false := by simp; exact fun e => hne e.symm
    simp [dictInsert, dictGet, this]
  | cons e r ih =>
    obtain ⟨k', v'⟩ := e
    by_cases hk : (k' == k) = true
    · have hkk : k' = k := by simpa using hk
      have : (k' == f) = false := by simp; rw [hkk]; exact fun e => hne e.symm
      simp [dictInsert, dictGet, hk, this]
    · simp only [Bool.not_eq_true] at hk
      by_cases hf : (k' == f) = true
      · simp [dictInsert, dictGet, hk, hf]
      · simp only [Bool.not_eq_true] at hf
        simp [dictInsert, dictGet, hk, hf, ih]

/-- an integer stored under an integer parameter is what typed access returns, whatever was there before -/
theorem getitem_setitem_int (u : URL) (k : Str) (n : Int)
    (hs : k ∉ strParams) (hi : k ∈ intParams) :
    getitem (setitem u k (.i n)) k = .ok (.i n) := by
  simp [getitem, setitem, hs, hi, dictGet_dictInsert_same]

/-- a value stored under a string parameter comes back as its text -/
theorem getitem_setitem_str (u : URL) (k : Str) (v : PVal) (hs : k ∈ strParams) :
    getitem (setitem u k v) k = .ok (.s v.render) := by
  simp [getitem, setitem, hs, dictGet_dictInsert_same]

/-- frame: storing under `k` changes typed access to no other parameter -/
theorem getitem_setitem_other (u : URL) (k f : Str) (v : PVal) (hne : f ≠ k) :
    getitem (setitem u k v) f = getitem u f := by
  simp [getitem, setitem, dictGet_dictInsert_other k f v u.params hne]

/-! ## well-formedness is preserved by clean operations, hence the text form round-trips after any walk -/

/-- the operations that keep a URL inside the domain of the round trip -/
def OpClean : UOp → Prop
  | .set k v => Clean k ∧ Clean v.render ∧ k ≠ "scheme".toList ∧ k ≠ "self".toList
  | .scheme s => s ≠ [] ∧ ':' ∉ s
  | _ => True

theorem keys_dictInsert {ν : Type} (k : Str) (v : ν) (l : List (Str × ν)) :
    (dictInsert k v l).map (·.1) = if k ∈ l.map (·.1) then l.map (·.1) else l.map (·.1) ++ [k] := by
  induction l with
  | nil => simp [dictInsert]
  | cons e r ih =>
    obtain ⟨k', v'⟩ := e
    by_cases hk : (k' == k) = true
    · have hkk : k' = k := by simpa using hk
      simp [dictInsert, hkk]
    · simp only [Bool.not_eq_true] at hk
      have hne : ¬ k = k' := by
        intro e; subst e; simp at hk
      simp only [dictInsert, hk, Bool.false_eq_true, if_false, List.map_cons, ih, List.mem_cons, hne, false_or]
      split <;> simp

theorem mem_dictInsert {ν : Type} (k : Str) (v : ν) (l : List (Str × ν)) (p : Str × ν) (hp : p ∈ dictInsert k v l) :
    p ∈ l ∨ p = (k, v) := by
  induction l with
  | nil => simp [dictInsert] at hp; exact Or.inr hp
  | cons e r ih =>
    obtain ⟨k', v'⟩ := e
    by_cases hk : (k' == k) = true
    · have hkk : k' = k := by simpa using hk
      simp only [dictInsert, hk, if_true, List.mem_cons] at hp
      rcases hp with hp | hp
      · exact Or.inr (by rw [hp, hkk])
      · exact Or.inl (by simp [hp])
    · simp only [Bool.not_eq_true] at hk
      simp only [dictInsert, hk, Bool.false_eq_true, if_false, List.mem_cons] at hp
      rcases hp with hp | hp
      · exact Or.inl (by simp [hp])
      · rcases ih hp with h | h
        · exact Or.inl (by simp [h])
        · exact Or.inr h

theorem WF_setitem (u : URL) (h : WF u) (k : Str) (v : PVal)
    (hk : Clean k) (hv : Clean v.render) (h1 : k ≠ "scheme".toList) (h2 : k ≠ "self".toList) : WF (setitem u k v) := by
  obtain ⟨hne, hsc, hcl, hnd, hok⟩ := h
  refine ⟨hne, hsc, ?_, ?_, ?_⟩
  · intro p hp
    rcases mem_dictInsert k v u.params p hp with hp | hp
    · exact hcl p hp
    · subst hp; exact ⟨hk, hv⟩
  · show ((dictInsert k v u.params).map (·.1)).Nodup
    rw [keys_dictInsert]
    split
    · exact hnd
    · rename_i hnm
      rw [List.nodup_append]
      refine ⟨hnd, by simp, ?_⟩
      intro a ha b hb
      simp only [List.mem_singleton] at hb
      subst hb
      intro e; subst e; exact hnm ha
  · intro p hp
    rcases mem_dictInsert k v u.params p hp with hp | hp
    · exact hok p hp
    · subst hp; exact ⟨h1, h2⟩

theorem WF_delitem (u : URL) (h : WF u) (k : Str) : WF (delitem u k) := by
  obtain ⟨hne, hsc, hcl, hnd, hok⟩ := h
  refine ⟨hne, hsc, ?_, ?_, ?_⟩
  · intro p hp
    exact hcl p (List.mem_filter.mp hp).1
  · show ((u.params.filter _).map (·.1)).Nodup
    exact (List.Sublist.map _ (List.filter_sublist (l := u.params))).nodup hnd
  · intro p hp
    exact hok p (List.mem_filter.mp hp).1

theorem WF_strVals (u : URL) (h : WF u) : WF (strVals u) := by
  obtain ⟨hne, hsc, hcl, hnd, hok⟩ := h
  refine ⟨hne, hsc, ?_, ?_, ?_⟩
  · intro p hp
    simp only [strVals, List.mem_map] at hp
    obtain ⟨q, hq, rfl⟩ := hp
    exact ⟨(hcl q hq).1, (hcl q hq).2⟩
  · have hk : (strVals u).params.map (·.1) = u.params.map (·.1) := by
      simp [strVals, List.map_map, Function.comp_def]
    rw [hk]; exact hnd
  · intro p hp
    simp only [strVals, List.mem_map] at hp
    obtain ⟨q, hq, rfl⟩ := hp
    exact hok q hq

theorem WF_content1 (u : URL) (h : WF u) (op : UOp) (hop : OpClean op) : WF (content1 u op) := by
  cases op with
  | set k v => exact WF_setitem u h k v hop.1 hop.2.1 hop.2.2.1 hop.2.2.2
  | del k => exact WF_delitem u h k
  | scheme s => exact ⟨hop.1, hop.2, h.params_clean, h.keys_nodup, h.keys_ok⟩
  | copy => exact h
  | reparse => simp only [content1, parse_repr u h]; exact WF_strVals u h
  | str => exact h
  | get f => exact h
  | write => exact h

theorem WF_content (u : URL) (h : WF u) (ops : List UOp) (hops : ∀ op ∈ ops, OpClean op) : WF (content u ops) := by
  induction ops generalizing u with
  | nil => exact h
  | cons op r ih =>
    simp only [content, List.foldl_cons]
    exact ih _ (WF_content1 u h op (hops op (by simp))) (fun o ho => hops o (by simp [ho]))

/-- inside the domain `copy` succeeds and `reparse` keeps every parameter (as text) -/
theorem copy_ok (u : URL) (h : WF u) : copy u = .ok u := by
  unfold copy
  have : u.params.any (fun p => decide (p.1 = "scheme".toList ∨ p.1 = "self".toList)) = false := by
    rw [List.any_eq_false]
    intro p hp
    simp only [decide_eq_true_eq, not_or]
    exact h.keys_ok p hp
  simp only [this, Bool.false_eq_true, if_false]

end Nx.Nex.ObjWalk
