import NxModel.Nex.C14Mux
/-! driver for C14: the schema interpreter line protocol of C13 (+ `rmccfg`) and, on lines starting with `mux `,
    the RMC client call-matching machine (see NxModel/Nex/C14Mux.lean) -/
def main : IO Unit := Nx.runState Nx.C14Mux.init Nx.C14Mux.step
