import NxProofs.PrudpV0
import NxProofs.PrudpLite
import NxModel.Prudp.Payload
/-! C08 reference: key chain, RC4/Kerberos envelope, zlib framing, connection request/response — self-consistency lemmas -/
set_option linter.unusedSimpArgs false
namespace Nx.Prudp
open Nx Nx.Crypto

theorem md5_length (m : Bytes) : (md5 m).length = 16 := by simp [md5, le32]
theorem hmacMd5_length (k m : Bytes) : (hmacMd5 k m).length = 16 := by unfold hmacMd5; exact md5_length _

theorem modifyKeyAux_length (add half : Nat) : ∀ (i : Nat) (k : Bytes), (modifyKeyAux add half i k).length = k.length := by
  intro i k
  induction k generalizing i with
  | nil => simp [modifyKeyAux]
  | cons x r ih => simp [modifyKeyAux, ih]

theorem modifyKey_length (k : Bytes) : (modifyKey k).length = k.length := modifyKeyAux_length _ _ _ _

theorem modifyKeyAux_get (add half : Nat) : ∀ (i j : Nat) (k : Bytes),
    (modifyKeyAux add half i k)[j]? = k[j]?.map (fun x => if i + j < half then b8 (x.toNat + add - (i + j)) else x) := by
  intro i j k
  induction k generalizing i j with
  | nil => simp [modifyKeyAux]
  | cons x r ih =>
    cases j with
    | zero => simp [modifyKeyAux]
    | succ j =>
      simp only [modifyKeyAux, List.getElem?_cons_succ]
      rw [ih]
      have : i + 1 + j = i + (j + 1) := by omega
      rw [this]

/-- byte `i` of the modified key: `key[i] + (len/2 + 1) - i` (mod 256) in the first half, unchanged in the second -/
theorem modifyKey_get (k : Bytes) (j : Nat) :
    (modifyKey k)[j]? = k[j]?.map (fun x => if j < k.length / 2 then b8 (x.toNat + (k.length / 2 + 1) - j) else x) := by
  unfold modifyKey
  rw [modifyKeyAux_get]
  simp

theorem substreamKeysFrom_get (n : Nat) : ∀ (k : Bytes) (i : Nat), i < n →
    (substreamKeysFrom n k)[i]? = some (modifyKeyN (i + 1) k) := by
  induction n with
  | zero => intro k i h; omega
  | succ n ih =>
    intro k i h
    cases i with
    | zero => simp [substreamKeysFrom, modifyKeyN]
    | succ i =>
      simp only [substreamKeysFrom, List.getElem?_cons_succ]
      rw [ih (modifyKey k) i (by omega)]
      simp [modifyKeyN]

/-- the key of substream `i` is `modify_key` applied `i` times to the session key -/
theorem substreamKeys_get (key : Bytes) (n i : Nat) (h : i ≤ n) :
    (substreamKeys key n)[i]? = some (modifyKeyN i key) := by
  cases i with
  | zero => simp [substreamKeys, modifyKeyN]
  | succ i =>
    simp only [substreamKeys, List.getElem?_cons_succ]
    exact substreamKeysFrom_get n key i (by omega)

theorem substreamKeys_length (key : Bytes) (n : Nat) : (substreamKeys key n).length = n + 1 := by
  have : ∀ n k, (substreamKeysFrom n k).length = n := by
    intro n; induction n with
    | zero => intro k; rfl
    | succ n ih => intro k; simp [substreamKeysFrom, ih]
  simp [substreamKeys, this]

/-! RC4 is xor with a key stream that does not depend on the data -/
theorem rc4Apply_involutive : ∀ (x : Bytes) (st : Rc4),
    (rc4Apply st (rc4Apply st x).1).1 = x ∧ (rc4Apply st (rc4Apply st x).1).2 = (rc4Apply st x).2 := by
  intro x
  induction x with
  | nil => intro st; simp [rc4Apply]
  | cons a r ih =>
    intro st
    simp only [rc4Apply]
    obtain ⟨h1, h2⟩ := ih (rc4Next st).2
    refine ⟨?_, ?_⟩
    · simp only [List.cons.injEq]
      refine ⟨?_, h1⟩
      rw [UInt8.xor_assoc, UInt8.xor_self, UInt8.xor_zero]
    · exact h2


theorem rc4New_ok {key : Bytes} (h : 0 < key.length ∧ key.length ≤ 256) : rc4New key = .ok (rc4Ksa key) := by
  unfold rc4New; rw [if_neg (by omega)]

/-- the Kerberos envelope opens to what was sealed (same key) -/
theorem kerbDecrypt_encrypt (key data : Bytes) (h : 0 < key.length ∧ key.length ≤ 256) :
    (kerbEncrypt key data).bind (kerbDecrypt key) = .ok data := by
  unfold kerbEncrypt
  rw [rc4New_ok h]
  simp only [Except.bind]
  unfold kerbDecrypt
  have hl : ((rc4Apply (rc4Ksa key) data).1 ++ hmacMd5 key (rc4Apply (rc4Ksa key) data).1).length - 16 =
      (rc4Apply (rc4Ksa key) data).1.length := by simp [hmacMd5_length]
  simp only [hl, List.take_left', List.drop_left', ne_eq, not_true_eq_false, if_false, rc4New_ok h]
  rw [(rc4Apply_involutive data (rc4Ksa key)).1]

/-- a tampered envelope (any change of ciphertext or MAC that breaks the MAC equation) is rejected -/
theorem kerbDecrypt_reject (key buffer : Bytes)
    (h : buffer.drop (buffer.length - 16) ≠ hmacMd5 key (buffer.take (buffer.length - 16))) :
    kerbDecrypt key buffer = .error .value := by
  unfold kerbDecrypt; simp [h]

/-! ### ratio byte -/

theorem compressFrame_def (data z : Bytes) (hz : z ≠ []) (hr : data.length / z.length + 1 < 256) :
    compressFrame data z = .ok (u8 (data.length / z.length + 1) ++ z) := by
  have : z.length ≠ 0 := by simpa using hz
  unfold compressFrame
  simp only [this, if_false]
  rw [if_neg (by omega)]

/-- the framing is self-consistent: what `compress` emits, `decompress` accepts (given that zlib inverts itself) -/
theorem decompressFrame_compressFrame (data z : Bytes) (hz : z ≠ []) (hr : data.length / z.length + 1 < 256) :
    (compressFrame data z).bind (fun f => decompressFrame f (some data)) = .ok data := by
  have hl : z.length ≠ 0 := by simpa using hz
  rw [compressFrame_def data z hz hr]
  simp only [Except.bind, u8, List.cons_append, List.nil_append, decompressFrame, b8_toNat]
  have : (data.length / z.length + 1) % 256 = data.length / z.length + 1 := Nat.mod_eq_of_lt hr
  rw [this]
  simp [hl]

/-- a zero ratio byte means "stored": the body is returned as is -/
theorem decompressFrame_stored (body : Bytes) (inf : Option Bytes) : decompressFrame (0 :: body) inf = .ok body := by
  simp [decompressFrame]

/-! ### unreliable key -/

theorem addAt_length (k : Bytes) (i v : Nat) : (addAt k i v).length = k.length := by
  unfold addAt; split <;> simp

theorem addAt_get (k : Bytes) (i v j : Nat) :
    (addAt k i v)[j]? = if j = i then k[j]?.map (fun x => b8 (x.toNat + v)) else k[j]? := by
  unfold addAt
  cases h : k[i]? with
  | none =>
    by_cases hj : j = i
    · subst hj; simp [h]
    · simp [hj]
  | some x =>
    simp only []
    by_cases hj : j = i
    · subst hj
      have hlt : j < k.length := by
        rcases List.getElem?_eq_some_iff.mp h with ⟨hlt, _⟩; exact hlt
      simp [h, List.getElem?_set_self hlt]
    · have : i ≠ j := fun e => hj e.symm
      simp [hj, List.getElem?_set_ne this]

theorem makeUnreliableKey_length (k : Bytes) (pid se : Nat) : (makeUnreliableKey k pid se).length = k.length := by
  simp [makeUnreliableKey, addAt_length]

/-- byte 0 += id (low byte matters), byte 1 += id >> 8, byte 31 += session id, everything else untouched -/
theorem makeUnreliableKey_get (k : Bytes) (pid se j : Nat) :
    (makeUnreliableKey k pid se)[j]? =
      if j = 0 then k[j]?.map (fun x => b8 (x.toNat + pid))
      else if j = 1 then k[j]?.map (fun x => b8 (x.toNat + pid / 256))
      else if j = 31 then k[j]?.map (fun x => b8 (x.toNat + se))
      else k[j]? := by
  unfold makeUnreliableKey
  rw [addAt_get, addAt_get, addAt_get]
  by_cases h0 : j = 0
  · subst h0; simp
  · by_cases h1 : j = 1
    · subst h1; simp
    · by_cases h31 : j = 31
      · subst h31; simp
      · simp [h0, h1, h31]

theorem initUnreliableKey_length (k : Bytes) : (initUnreliableKey k).length = 32 := by
  simp [initUnreliableKey, md5_length]

/-! ### connection request / response -/

theorem connectionRequestBody_length (pidSize pid cid check : Nat) :
    (connectionRequestBody pidSize pid cid check).length = (if pidSize = 8 then 8 else 4) + 8 := by
  unfold connectionRequestBody nexPid; split <;> simp

/-- layout of the CONNECT payload: buffer(ticket) ‖ buffer(RC4(session key, pid ‖ cid ‖ check) ‖ HMAC-MD5 of that) -/
theorem buildConnectionRequest_layout (pidSize pid cid check : Nat) (sk ticket : Bytes)
    (hk : 0 < sk.length ∧ sk.length ≤ 256) (ht : ticket.length < 4294967296)
    (hp : if pidSize = 8 then pid < 18446744073709551616 else pid < 4294967296)
    (hc : cid < 4294967296) (hch : check < 4294967296) :
    buildConnectionRequest pidSize pid cid check sk ticket =
      .ok (u32le ticket.length ++ ticket ++
           (u32le ((if pidSize = 8 then 8 else 4) + 8 + 16) ++
            (rc4 sk (connectionRequestBody pidSize pid cid check) ++
             hmacMd5 sk (rc4 sk (connectionRequestBody pidSize pid cid check))))) := by
  unfold buildConnectionRequest
  rw [if_neg (by omega)]
  have : ¬ (if pidSize = 8 then pid ≥ 18446744073709551616 else pid ≥ 4294967296) := by
    split at hp <;> simp_all <;> omega
  rw [if_neg this, if_neg (by omega)]
  unfold kerbEncrypt
  rw [rc4New_ok hk]
  simp only [nexBuffer, rc4, List.length_append, hmacMd5_length, List.append_assoc]
  have hl : ∀ (st : Rc4) (x : Bytes), (rc4Apply st x).1.length = x.length := by
    intro st x; induction x generalizing st with
    | nil => simp [rc4Apply]
    | cons a r ih => simp [rc4Apply, ih]
  rw [hl, connectionRequestBody_length]

/-- the client accepts exactly the one 8-byte answer `u32 4 ‖ u32 (check+1 mod 2^32)` -/
theorem checkConnectionResponse_iff (cc : Nat) (data : Bytes) :
    checkConnectionResponse (some cc) data = .ok () ↔ data = connectionResponse cc := by
  unfold checkConnectionResponse connectionResponse
  constructor
  · intro h
    by_cases h8 : data.length ≠ 8
    · simp [h8] at h
    · simp only [h8, if_false] at h
      split at h; · cases h
      split at h; · cases h
      rename_i h4 hc
      have h8' : data.length = 8 := by omega
      match data, h8' with
      | [a, b, c, d, e, f, g, i], _ =>
        simp only [List.take, List.drop, n32le] at h4 hc
        simp only [Decidable.not_not] at h4 hc
        have ha := UInt8.toNat_lt a; have hb := UInt8.toNat_lt b; have hc' := UInt8.toNat_lt c; have hd := UInt8.toNat_lt d
        have he := UInt8.toNat_lt e; have hf := UInt8.toNat_lt f; have hg := UInt8.toNat_lt g; have hi := UInt8.toNat_lt i
        simp only [u32le, List.cons_append, List.nil_append, List.cons.injEq, and_true]
        refine ⟨?_, ?_, ?_, ?_, ?_, ?_, ?_, ?_⟩ <;> (apply UInt8.toNat_inj.mp; simp; omega)
  · intro h
    subst h
    have hlt : (cc + 1) % 4294967296 < 4294967296 := Nat.mod_lt _ (by omega)
    simp [u32le, n32le]
    omega

theorem checkConnectionResponse_anonymous (data : Bytes) :
    checkConnectionResponse none data = .ok () ↔ data = [] := by
  unfold checkConnectionResponse; cases data <;> simp

/-! ### signed datagrams produced by the reference are decoded to the same fields -/

theorem v1PacketSignature_length (k : Bytes) (p : Packet) (sk cs : Bytes) : (v1PacketSignature k p sk cs).length = 16 := by
  simp [v1PacketSignature, hmacMd5_length]

theorem v0PacketSignature_length (c : V0Cfg) (p : Packet) (sk cs : Bytes) (hcs : cs = [] ∨ cs.length = 4) :
    (v0PacketSignature c p sk cs).length = 4 := by
  have hd : (v0DataSignature c p sk).length = 4 := by
    unfold v0DataSignature; simp only []; split <;> split <;> simp [hmacMd5_length]
  unfold v0PacketSignature
  split; · exact hd
  split; · exact hd
  split
  · rcases hcs with h | h
    · subst h; simp at *
    · exact h
  · rfl


theorem V1WF_setSig (p : Packet) (s : Bytes) (h : V1WF p) (hs : s.length = 16) : V1WF { p with signature := some s } := by
  unfold V1WF at h ⊢
  obtain ⟨h1, h2, h3, h4, h5, h6, h7, h8, h9, h10, -, h12, h13, h14, h15⟩ := h
  exact ⟨h1, h2, h3, h4, h5, h6, h7, h8, h9, h10, by simp [optLen, hs], h12, h13, h14, h15⟩

theorem V0WF_setSig (c : V0Cfg) (p : Packet) (s : Bytes) (h : V0WF c p) (hs : s.length = 4) :
    V0WF c { p with signature := some s } := by
  unfold V0WF at h ⊢
  obtain ⟨h1, h2, h3, h4, h5, h6, h7, h8, -, h10, h11, h12, h13, h14, h15, h16, h17⟩ := h
  exact ⟨h1, h2, h3, h4, h5, h6, h7, h8, by simp [optLen, hs], h10, h11, h12, h13, h14, h15, h16, h17⟩

/-- a datagram signed and encoded by the reference decodes (reference decoder = model of the real one, C03) to the
    same fields with that signature -/
theorem v1Decode_emit (key : Bytes) (p : Packet) (sk cs : Bytes) (h : V1WF p) :
    v1Decode (v1Emit key p sk cs) = .ok [{ p with signature := some (v1PacketSignature key p sk cs) }] :=
  v1Decode_encode _ (V1WF_setSig p _ h (v1PacketSignature_length key p sk cs))

theorem v0Decode_emit (c : V0Cfg) (p : Packet) (sk cs : Bytes) (h : V0WF c p) (hcs : cs = [] ∨ cs.length = 4) :
    v0Decode c (v0Emit c p sk cs) = .ok [{ p with signature := some (v0PacketSignature c p sk cs) }] :=
  v0Decode_encode c _ (V0WF_setSig c p _ h (v0PacketSignature_length c p sk cs hcs))

end Nx.Prudp
