import NxModel.Bytes
/-! lemmas about the LE integer writers / readers -/
namespace Nx

@[simp] theorem b8_toNat (n : Nat) : (b8 n).toNat = n % 256 := by
  simp [b8, UInt8.toNat_ofNat']

@[simp] theorem u8_length (n : Nat) : (u8 n).length = 1 := rfl
@[simp] theorem u16le_length (n : Nat) : (u16le n).length = 2 := rfl
@[simp] theorem u32le_length (n : Nat) : (u32le n).length = 4 := rfl
@[simp] theorem u64le_length (n : Nat) : (u64le n).length = 8 := rfl

theorem rdU8_u8 (n : Nat) (r : Bytes) (h : n < 256) : rdU8 (u8 n ++ r) = .ok (n, r) := by
  simp [rdU8, u8]; omega

theorem rdU16_u16le (n : Nat) (r : Bytes) (h : n < 65536) : rdU16 (u16le n ++ r) = .ok (n, r) := by
  simp [rdU16, u16le]; omega

theorem rdU32_u32le (n : Nat) (r : Bytes) (h : n < 4294967296) : rdU32 (u32le n ++ r) = .ok (n, r) := by
  simp [rdU32, u32le]; omega

theorem rdU32_u32le_mod (n : Nat) (r : Bytes) : rdU32 (u32le n ++ r) = .ok (n % 4294967296, r) := by
  simp [rdU32, u32le]; omega

theorem rdU64_u64le (n : Nat) (r : Bytes) (h : n < 18446744073709551616) :
    rdU64 (u64le n ++ r) = .ok (n, r) := by
  unfold rdU64 u64le
  rw [List.append_assoc, rdU32_u32le_mod]
  simp only []
  rw [rdU32_u32le _ _ (by omega)]
  simp only [Except.ok.injEq, Prod.mk.injEq, and_true]
  omega

end Nx
