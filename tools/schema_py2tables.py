"""Second translator for C12: recover the schema *from a checked-in generated module* with `ast`
(class table, DataHolder registrations, __init__ defaults, load / save bodies with their gates, protocol ids,
method ids, NORESPONSE, client request/response layouts) and render it — next to the same tables derived from
the .proto AST — as Lean data, so that `S_py = S_proto` is decided by the kernel.

In `save` bodies a structure-typed value is written with `stream.add(x)`, which does not name the class: the
save-side tables therefore carry `.struct 0` for every structure reference (and the .proto side is rendered the
same way for that comparison only).
"""
import ast, os
from schema_proto2lean import BASIC, code

HEADER = "# This file was generated automatically by generate_protocols.py"
CALLS = {v: k for k, v in BASIC.items()}      # "u4" -> "uint32" etc. (stream method names differ, see below)
STREAM_METHODS = {"u8": "uint8", "u16": "uint16", "u32": "uint32", "u64": "uint64",
                  "s8": "sint8", "s16": "sint16", "s32": "sint32", "s64": "sint64"}
for b in ["float", "double", "bool", "pid", "result", "datetime", "string", "stationurl", "buffer", "qbuffer", "anydata", "variant"]:
    STREAM_METHODS[b] = b


class PyErr(Exception):
    pass


def T(name, template=None):
    return {"name": name, "template": template}


def cls_ref(node):
    """a class reference in extract()/list(): Name | common.ResultRange | notification.NotificationEvent"""
    if isinstance(node, ast.Name): return node.id
    if isinstance(node, ast.Attribute) and isinstance(node.value, ast.Name) and node.value.id in ("common", "notification"):
        return node.attr
    raise PyErr("class reference: " + ast.dump(node))


def extract_func(node, stream):
    """callable passed to stream.list/map on the reading side"""
    if isinstance(node, ast.Attribute) and isinstance(node.value, ast.Name) and node.value.id == stream and node.attr in STREAM_METHODS:
        return T(STREAM_METHODS[node.attr])
    if isinstance(node, ast.Lambda) and not node.args.args:
        return extract_expr(node.body, stream)
    return T(cls_ref(node))


def extract_expr(node, stream):
    """stream.<x>() expression of a load body / client response / server request"""
    if not (isinstance(node, ast.Call) and isinstance(node.func, ast.Attribute) and isinstance(node.func.value, ast.Name)
            and node.func.value.id == stream):
        raise PyErr("not a stream call: " + ast.dump(node))
    m = node.func.attr
    if m in STREAM_METHODS and not node.args: return T(STREAM_METHODS[m])
    if m == "extract" and len(node.args) == 1: return T(cls_ref(node.args[0]))
    if m == "list" and len(node.args) == 1: return T("list", [extract_func(node.args[0], stream)])
    if m == "map" and len(node.args) == 2: return T("map", [extract_func(node.args[0], stream), extract_func(node.args[1], stream)])
    raise PyErr("unknown extract: " + ast.dump(node))


def encode_func(node, stream):
    if isinstance(node, ast.Attribute) and isinstance(node.value, ast.Name) and node.value.id == stream:
        if node.attr in STREAM_METHODS: return T(STREAM_METHODS[node.attr])
        if node.attr == "add": return T("?struct")
    if isinstance(node, ast.Lambda) and len(node.args.args) == 1:
        t, arg = encode_stmt(node.body, stream)
        if not (isinstance(arg, ast.Name) and arg.id == node.args.args[0].arg): raise PyErr("lambda argument")
        return t
    raise PyErr("encode func: " + ast.dump(node))


def encode_stmt(node, stream):
    """stream.<x>(value[, funcs]) -> (type, value expression)"""
    if not (isinstance(node, ast.Call) and isinstance(node.func, ast.Attribute) and isinstance(node.func.value, ast.Name)
            and node.func.value.id == stream):
        raise PyErr("not a stream call: " + ast.dump(node))
    m = node.func.attr
    if m in STREAM_METHODS and len(node.args) == 1: return T(STREAM_METHODS[m]), node.args[0]
    if m == "add" and len(node.args) == 1: return T("?struct"), node.args[0]
    if m == "list" and len(node.args) == 2: return T("list", [encode_func(node.args[1], stream)]), node.args[0]
    if m == "map" and len(node.args) == 3:
        return T("map", [encode_func(node.args[1], stream), encode_func(node.args[2], stream)]), node.args[0]
    raise PyErr("unknown encode: " + ast.dump(node))


def gate(test, prefix):
    """`if [stream.]settings["nex.version"] >= N:` / `if version >= N:` -> ("nex"|"revision", N)"""
    if not (isinstance(test, ast.Compare) and len(test.ops) == 1 and isinstance(test.ops[0], ast.GtE)
            and isinstance(test.comparators[0], ast.Constant) and isinstance(test.comparators[0].value, int)):
        raise PyErr("gate: " + ast.unparse(test))
    n = test.comparators[0].value
    l = test.left
    if isinstance(l, ast.Name) and l.id == "version": return ("revision", n)
    if isinstance(l, ast.Subscript) and isinstance(l.slice, ast.Constant) and l.slice.value == "nex.version":
        v = l.value
        ok = (isinstance(v, ast.Name) and v.id == "settings" and prefix == "") or \
             (isinstance(v, ast.Attribute) and v.attr == "settings" and isinstance(v.value, ast.Name) and v.value.id == "stream" and prefix == "stream.")
        if ok: return ("nex", n)
    raise PyErr("gate: " + ast.unparse(test))


def self_attr(node):
    if isinstance(node, ast.Attribute) and isinstance(node.value, ast.Name) and node.value.id == "self": return node.attr
    raise PyErr("self attribute: " + ast.dump(node))


def body_items(stmts, mode, defaults):
    """load/save body -> items in the .proto AST shape"""
    items = []
    for st in stmts:
        if isinstance(st, ast.Pass): continue
        if isinstance(st, ast.If):
            if st.orelse: raise PyErr("else branch")
            kind, n = gate(st.test, "stream.")
            items.append({"cond": kind, "value": n, "items": body_items(st.body, mode, defaults)})
        elif mode == "load" and isinstance(st, ast.Assign) and len(st.targets) == 1:
            name = self_attr(st.targets[0])
            items.append({"var": {"type": extract_expr(st.value, "stream"), "name": name, "default": defaults.get(name)}})
        elif mode == "save" and isinstance(st, ast.Expr):
            if ast.unparse(st.value) == "self.check_required(stream.settings, version)": continue
            t, arg = encode_stmt(st.value, "stream")
            name = self_attr(arg)
            items.append({"var": {"type": t, "name": name, "default": defaults.get(name)}})
        else:
            raise PyErr("statement in %s: %s" % (mode, ast.unparse(st)))
    return items


def module_tables(path):
    src = open(path).read()
    tree = ast.parse(src)
    generated = HEADER in src.split("\n")[:4]
    structs, protos, registered, clients = [], {}, [], {}
    order = []
    for node in tree.body:
        if isinstance(node, ast.Expr) and isinstance(node.value, ast.Call) and ast.unparse(node.value.func) == "common.DataHolder.register":
            a = node.value.args
            if not (isinstance(a[0], ast.Name) and isinstance(a[1], ast.Constant) and a[0].id == a[1].value): raise PyErr("register")
            registered.append(a[0].id)
        if not isinstance(node, ast.ClassDef): continue
        fns = {f.name: f for f in node.body if isinstance(f, (ast.FunctionDef, ast.AsyncFunctionDef))}
        if "load" in fns and "save" in fns:
            base = ast.unparse(node.bases[0])
            parent = None if base == "common.Structure" else ("Data" if base == "common.Data" else base)
            defaults = {}
            for st in fns["__init__"].body:
                if isinstance(st, ast.Assign):
                    name = self_attr(st.targets[0])
                    # "has a default" in the sense of check_required: anything but None (struct instances count as default)
                    defaults[name] = None if (isinstance(st.value, ast.Constant) and st.value.value is None) else True
            structs.append({"name": node.name, "parent": parent,
                            "load": body_items(fns["load"].body, "load", defaults),
                            "save": body_items(fns["save"].body, "save", defaults),
                            "has_max_version": "max_version" in fns})
        elif node.name.endswith("Protocol") or ("Protocol" in node.name and not node.bases):
            p = {"class": node.name, "id": None, "noresponse": False, "methods": []}
            for st in node.body:
                if isinstance(st, ast.Assign) and isinstance(st.targets[0], ast.Name) and isinstance(st.value, ast.Constant):
                    n = st.targets[0].id
                    if n == "PROTOCOL_ID": p["id"] = st.value.value
                    elif n == "NORESPONSE": p["noresponse"] = bool(st.value.value)
                    elif n.startswith("METHOD_"): p["methods"].append((n[7:], st.value.value))
            protos[node.name] = p
            order.append(node.name)
        elif node.bases and isinstance(node.bases[0], ast.Name) and node.bases[0].id in protos and "Client" in node.name:
            ms = {}
            for fn in node.body:
                if isinstance(fn, ast.AsyncFunctionDef):
                    ms[fn.name] = client_method(fn)
            clients[node.bases[0].id] = ms
    return {"generated": generated, "structs": structs, "protocols": [protos[n] for n in order], "registered": registered, "clients": clients}


def client_method(fn):
    """request parameter types (structure references anonymous) and response variables with types"""
    params = [a.arg for a in fn.args.args[1:]]
    req, resp, phase = [], [], "req"
    for st in fn.body:
        s = ast.unparse(st)
        if phase == "req":
            if isinstance(st, ast.Expr) and isinstance(st.value, ast.Call) and ast.unparse(st.value.func).startswith("stream."):
                t, arg = encode_stmt(st.value, "stream")
                if not isinstance(arg, ast.Name): raise PyErr("request argument")
                req.append((arg.id, t))
            elif "self.client.request" in s:
                phase = "resp"
                call = st.value.value if isinstance(st, ast.Assign) else st.value.value
                resp_meta = [ast.unparse(a) for a in call.args]
        else:
            if isinstance(st, ast.Assign) and isinstance(st.value, ast.Call) and ast.unparse(st.value.func).startswith("stream.") \
                    and ast.unparse(st.value.func) not in ("streams.StreamIn",):
                tgt = st.targets[0]
                name = tgt.attr if isinstance(tgt, ast.Attribute) else tgt.id
                resp.append((name, extract_expr(st.value, "stream")))
    if [p for p, _ in req] != params: raise PyErr("parameters of %s are not encoded in order: %r vs %r" % (fn.name, params, req))
    return {"request": req, "response": resp, "call": resp_meta}


# ---------------------------------------------------------------------------------------------
# rendering both sides as the same Lean data

def anonymise(t):
    if t["name"] in ("list", "map"): return T(t["name"], [anonymise(x) for x in t["template"]])
    if t["name"] in BASIC: return t
    return T("?struct")


def anon_items(items):
    out = []
    for it in items:
        if "var" in it:
            v = it["var"]
            out.append({"var": {"type": anonymise(v["type"]), "name": v["name"], "default": v["default"]}})
        else:
            out.append({"cond": it["cond"], "value": it["value"], "items": anon_items(it["items"])})
    return out


def ty_lean(t):
    n = t["name"]
    if n == "list": return "(.list %s)" % ty_lean(t["template"][0])
    if n == "map": return "(.map %s %s)" % (ty_lean(t["template"][0]), ty_lean(t["template"][1]))
    if n == "?struct": return "(.struct 0)"
    if n in BASIC:
        b = BASIC[n]
        if b[0] in "us" and b[1:].isdigit(): return "(.%s .b%s)" % ("uint" if b[0] == "u" else "sint", b[1:])
        return {"f32": ".float", "f64": ".double"}.get(b, "." + b)
    return "(.struct %d)" % code(n)


def items_lean(items):
    if not items: return ".nil"
    it, rest = items[0], items_lean(items[1:])
    if "var" in it:
        v = it["var"]
        return "(.field %d %s %s %s)" % (code(v["name"]), ty_lean(v["type"]), "false" if v["default"] is None else "true", rest)
    return "(.%s %d %s %s)" % ("nex" if it["cond"] == "nex" else "rev", it["value"], items_lean(it["items"]), rest)


def make_class_name(name, type):
    if "_" in name:
        name, ext = name.rsplit("_", 1)
        return "%s%s%s" % (name, type, ext)
    return "%s%s" % (name, type)


def has_rev(items):
    return any("cond" in it and (it["cond"] == "revision" or has_rev(it["items"])) for it in items)


def lean_tables(name, proto_ast, py):
    """Lean source with obligations S_py = S_proto; returns (src, theorem names)"""
    L = ["import NxModel.Nex.Schema", "import NxModel.Nex.SchemaInventory", "open Nx Nx.Schema Nx.Schema.Inv",
         "set_option maxRecDepth 100000", "-- %s: tables recovered from nintendo/nex/%s.py (ast) vs %s.proto" % (name, name, name)]
    def norm_default(items):
        out = []
        for it in items:
            if "var" in it:
                v = it["var"]
                t = v["type"]["name"]
                is_struct = t not in BASIC and t not in ("list", "map")
                # __init__ gives structure-typed attributes an instance: "has a default"
                out.append({"var": {"type": v["type"], "name": v["name"], "default": True if (is_struct or v["default"] is not None) else None}})
            else:
                out.append({"cond": it["cond"], "value": it["value"], "items": norm_default(it["items"])})
        return out
    ps = proto_ast["structs"]
    def struct_rows(rows):
        return "[" + ",\n  ".join("(%d, %d, %s)" % (code(n), 0 if p is None else code(p), "true" if r else "false") for n, p, r in rows) + "]"
    def proto_rows(rows):
        return "[" + ",\n  ".join("(%d, %d, %s, [%s])" % (code(c), i, "true" if nr else "false", ", ".join("(%d, %d)" % (code(m), k) for m, k in ms))
                                  for c, i, nr, ms in rows) + "]"
    prs = [p for p in proto_ast["protocols"] if not p["overridden"]]
    proto_tab = "{ structs := %s,\n  protos := %s }" % (
        struct_rows([(s["name"], s["parent"], s["parent"] is not None) for s in ps]),
        proto_rows([(make_class_name(p["name"], "Protocol"), p["id"], p["noresponse"], [(m["name"].upper(), m["id"]) for m in p["methods"]]) for p in prs]))
    py_tab = "{ structs := %s,\n  protos := %s }" % (
        struct_rows([(s["name"], s["parent"], s["name"] in py["registered"]) for s in py["structs"]]),
        proto_rows([(p["class"], p["id"], p["noresponse"], p["methods"]) for p in py["protocols"]]))
    L.append("def protoTables : PyTables :=\n" + proto_tab)
    L.append("def pyTables : PyTables :=\n" + py_tab)
    names = ["tables_eq"]
    L.append("/-- classes (name, parent, registered with DataHolder), protocol classes (id, NORESPONSE, METHOD_* ids) -/")
    L.append("theorem tables_eq : pyTables = protoTables := by decide +kernel")
    pys = {s["name"]: s for s in py["structs"]}
    L.append("def protoLoad : List (Nat × Items × Bool) := [\n  " + ",\n  ".join(
        "(%d, %s, %s)" % (code(s["name"]), items_lean(norm_default(s["items"])), "true" if has_rev(s["items"]) else "false") for s in ps) + "]")
    L.append("def pyLoad : List (Nat × Items × Bool) := [\n  " + ",\n  ".join(
        "(%d, %s, %s)" % (code(s["name"]), items_lean(s["load"]), "true" if s["has_max_version"] else "false") for s in py["structs"]) + "]")
    L.append("def protoSave : List (Nat × Items) := [\n  " + ",\n  ".join(
        "(%d, %s)" % (code(s["name"]), items_lean(anon_items(norm_default(s["items"])))) for s in ps) + "]")
    L.append("def pySave : List (Nat × Items) := [\n  " + ",\n  ".join(
        "(%d, %s)" % (code(s["name"]), items_lean(s["save"])) for s in py["structs"]) + "]")
    L.append("/-- every `load`: attribute order, stream call = declared type (structure classes by name), gates and their values, default-or-None in __init__, max_version present iff a revision exists -/")
    L.append("theorem load_eq : pyLoad = protoLoad := by decide +kernel")
    L.append("/-- every `save`: the same with structure references anonymous (`stream.add`) -/")
    L.append("theorem save_eq : pySave = protoSave := by decide +kernel")
    names += ["load_eq", "save_eq"]
    # client methods
    def args_lean(rows): return "[" + ", ".join("(%d, %s)" % (code(n), ty_lean(t)) for n, t in rows) + "]"
    pm, ym = [], []
    for p in prs:
        cn = make_class_name(p["name"], "Protocol")
        for m in p["methods"]:
            if not m["supported"]: continue
            pm.append("(%d, %d, %s, %s)" % (code(cn), code(m["name"]), args_lean([(v["name"], anonymise(v["type"])) for v in m["request"]]),
                                            args_lean([(v["name"], v["type"]) for v in m["response"]])))
        for mn, cm in py["clients"].get(cn, {}).items():
            if mn == "__init__": continue
            ym.append("(%d, %d, %s, %s)" % (code(cn), code(mn), args_lean(cm["request"]), args_lean(cm["response"])))
    L.append("def protoMethods : List (Nat × Nat × List (Nat × Ty) × List (Nat × Ty)) := [\n  " + ",\n  ".join(pm) + "]")
    L.append("def pyMethods : List (Nat × Nat × List (Nat × Ty) × List (Nat × Ty)) := [\n  " + ",\n  ".join(ym) + "]")
    L.append("/-- every generated client method: parameters encoded in declaration order with the declared types, results decoded likewise -/")
    L.append("theorem methods_eq : pyMethods = protoMethods := by decide +kernel")
    names.append("methods_eq")
    return "\n".join(L) + "\n", names
