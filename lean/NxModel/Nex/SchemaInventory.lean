import NxModel.Bytes
/-!
# Inventory of protocol definitions, generated modules and generated pages (C12)

Names are `Nat` codes (big-endian base-256 of the file stem). A module is *generated* iff it carries the
generator's header comment, a page iff it carries the "generated automatically from" sentence; the
translator (`harness/corr_C12.py`) collects the three lists from the working tree on every run.
-/
namespace Nx.Schema.Inv

/-- elements of `a` that `b` lacks -/
def missing (a b : List Nat) : List Nat := a.filter (fun x => !b.contains x)

def nodup : List Nat → Bool
  | [] => true
  | a :: r => !r.contains a && nodup r

/-- every definition has its module and its page, every generated module and page has its definition -/
def inventoryOK (protos modules pages : List Nat) : Bool :=
  (missing protos modules).isEmpty && (missing modules protos).isEmpty &&
  (missing protos pages).isEmpty && (missing pages protos).isEmpty &&
  nodup protos && nodup modules && nodup pages

/-- semantic tables recovered from a generated module by `ast`: structure classes (name, parent, registered)
    and protocols (name, id, noresponse, [(method name, method id)]) -/
structure PyTables where
  structs : List (Nat × Nat × Bool)
  protos : List (Nat × Nat × Bool × List (Nat × Nat))
  deriving DecidableEq, Repr

end Nx.Schema.Inv
