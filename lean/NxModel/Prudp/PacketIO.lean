import NxModel.Prudp.Select
/-!
# text form of packets / options for the line-protocol drivers (C03, C08)

packet = 18 space-separated tokens
`type flags version st sp dt dp session packetid fragment substream connsig initunrel maxsub supported minor signature payload`
(`version`: number or `none`; `connsig`/`signature`: hex, `-` (empty) or `none`; `payload`: hex or `-`)
-/
namespace Nx.Prudp
open Nx

def showOptNat : Option Nat → String
  | some n => toString n
  | none => "none"

def showOptBytes : Option Bytes → String
  | some b => hexOut b
  | none => "none"

def parseOptNat (s : String) : Option (Option Nat) :=
  if s = "none" then some none else s.toNat?.map some

def parseOptBytes (s : String) : Option (Option Bytes) :=
  if s = "none" then some none else (fromHex s).map some

def showPacket (p : Packet) : String :=
  s!"{p.type} {p.flags} {showOptNat p.version} {p.sourceType} {p.sourcePort} {p.destType} {p.destPort} {p.sessionId} {p.packetId} {p.fragmentId} {p.substreamId} {showOptBytes p.connectionSignature} {p.initialUnreliableId} {p.maxSubstreamId} {p.supportedFunctions} {p.minorVersion} {showOptBytes p.signature} {hexOut p.payload}"

def showPackets (ps : List Packet) : String :=
  if ps.isEmpty then "ok" else "ok " ++ " | ".intercalate (ps.map showPacket)

def parsePacket (t : List String) : Option Packet :=
  match t with
  | [ty, fl, ver, st, sp, dt, dp, se, pid, fr, sub, cs, iu, ms, sf, mv, sig, pl] =>
    match ty.toNat?, fl.toNat?, parseOptNat ver, st.toNat?, sp.toNat?, dt.toNat?, dp.toNat?, se.toNat?, pid.toNat? with
    | some ty, some fl, some ver, some st, some sp, some dt, some dp, some se, some pid =>
      match fr.toNat?, sub.toNat?, parseOptBytes cs, iu.toNat?, ms.toNat?, sf.toNat?, mv.toNat?, parseOptBytes sig, fromHex pl with
      | some fr, some sub, some cs, some iu, some ms, some sf, some mv, some sig, some pl =>
        some { type := ty, flags := fl, version := ver, sourceType := st, sourcePort := sp, destType := dt,
               destPort := dp, sessionId := se, packetId := pid, fragmentId := fr, substreamId := sub,
               connectionSignature := cs, initialUnreliableId := iu, maxSubstreamId := ms,
               supportedFunctions := sf, minorVersion := mv, signature := sig, payload := pl }
      | _, _, _, _, _, _, _, _, _ => none
    | _, _, _, _, _, _, _, _, _ => none
  | _ => none

def showRes (r : Except Err Bytes) : String :=
  match r with
  | .ok b => "ok " ++ hexOut b
  | .error e => "err " ++ e.name

def showDec (r : Except Err (List Packet)) : String :=
  match r with
  | .ok ps => showPackets ps
  | .error e => "err " ++ e.name

def parseV0Cfg (sv cv fv key : String) : Option V0Cfg :=
  match sv.toNat?, cv.toNat?, fv.toNat?, fromHex key with
  | some sv, some cv, some fv, some key =>
    some { signatureVersion := sv, checksumVersion := cv, flagsVersion := fv, accessKey := key }
  | _, _, _, _ => none

/-- option value: `i<nat>` | `b<hex>` | `n` -/
def showOptVal : OptVal → String
  | .int n => "i" ++ toString n
  | .bytes b => "b" ++ hexOut b
  | .none => "n"

def parseOptVal (s : String) : Option OptVal :=
  match s.toList with
  | 'i' :: r => (String.ofList r).toNat?.map .int
  | 'b' :: r => (fromHex (String.ofList r)).map .bytes
  | ['n'] => some .none
  | _ => none

def showOpts (o : Opts) : String :=
  if o.isEmpty then "ok" else "ok " ++ ",".intercalate (o.map fun (k, v) => toString k ++ "=" ++ showOptVal v)

/-- `k=v,k=v` (`-` = empty dict) -/
def parseOpts (s : String) : Option Opts :=
  if s = "-" then some [] else
  (s.splitOn ",").foldr (fun item acc =>
    match acc, item.splitOn "=" with
    | some l, [k, v] =>
      match k.toNat?, parseOptVal v with
      | some k, some v => some ((k, v) :: l)
      | _, _ => none
    | _, _ => none) (some [])

end Nx.Prudp
