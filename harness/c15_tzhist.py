"""C15 - DateTime <-> Unix timestamps in time zones whose RULES CHANGED over the years.

The property quantifies over "every non-ambiguous timestamp" in the zone the process runs in.  The fixed-offset zones of
corr_C15.datetime_cases cannot tell a conversion that uses the zone's history from one that uses today's rules, two
process-wide constants, or the offset of a neighbouring date.  This family visits, for every zone of a fixed list of zones
with an eventful history plus a seed-dependent sample of ALL zones of the system's tz database (all of them in the
thorough tier):

  * every change of (UTC offset, DST flag) between 1970 and 2100 (found by a daily scan + bisection on zoneinfo) with the
    seconds at / next to the change, at the edges of the repeated / skipped local hour, one hour / one day / one week on both
    sides, and random instants inside every interval between two changes;
  * a stride walk 1970..2100 through all hours / minutes / seconds, the 2^31 boundary, far-future years up to 9998;
  * local calendar fields built independently of any instant: wall-clock times around each change (skipped, repeated and
    ordinary ones) and random ones.

Every zone runs in a FRESH interpreter (the worker at the end of this file) which only executes the code under test:
`DateTime.fromtimestamp(t)`, `DateTime.make(*fields).timestamp()`.  The zone is put in place either in the environment
before the interpreter starts or with os.environ['TZ'] + time.tzset() before / after `nintendo.nex.common` is imported.

Oracle (in the parent, zoneinfo - an implementation of the tz database independent of the C library's localtime/mktime
the code under test uses):
  instants t, local year 1970..9998:
     fields(fromtimestamp(t)) == local civil time of t                                         (always)
     make(fields).timestamp() == t                                                              (local time occurs once)
     fromtimestamp(make(fields).timestamp()) has the same fields                                 (local time occurs twice)
  fields f, year 1970..9998, f a local time that exists:
     make(f).timestamp() == the instant(s) zoneinfo gives for f ; fromtimestamp(that) == f
A failure is reported with the zone, the instant, the local time and what came back.

Model: at one instant a zone IS a fixed offset, so each judged instant is also replayed through the driver
(`dt.from <offset at t> t`, `dt.ts <offset> value`) - the Lean statement `datetime_unix_partial` read piecewise - and the
zone as the table of its rule changes within ten days (`dt.zfrom t <table>`, `dt.zts value <table>`: model Zone.zTab /
Zone.timestampZ = CPython's local_to_seconds, theorem `datetime_unix_zone_history`), the latter also for local times that
are skipped or occur twice, where the model says which instant the routine picks.
"""
import datetime, json, os, random, subprocess, sys
import zoneinfo

UTC = datetime.timezone.utc
LO = 2 * 86400                      # local year is 1970 in every zone
HI = 4102444800                     # 2100-01-01
Y9998 = 253370764800                # 9999-01-01T00:00:00Z; instants stay below (the last hours of 9999 are the known finding of the fixed zones)

# zones with an eventful history (why each is here)
HISTORY_ZONES = [
    "America/Mexico_City",     # DST abolished 2022
    "America/Sao_Paulo",       # DST abolished 2019, southern hemisphere
    "Europe/Moscow",           # standard offset moved 2011 / 2014, DST abolished
    "Europe/Istanbul",         # permanent +03 since 2016
    "Europe/Dublin",           # negative DST (standard time in summer)
    "Asia/Pyongyang",          # +09 -> +08:30 (2015) -> +09 (2018)
    "Pacific/Apia",            # date-line jump 2011 (a whole day skipped), DST until 2021
    "Pacific/Kiritimati",      # date-line jump 1994/95
    "Africa/Monrovia",         # -0:44:30 until 1972: an offset that is not a whole minute
    "America/Caracas",         # -04 -> -04:30 (2007) -> -04 (2016)
    "Asia/Kathmandu",          # +05:30 -> +05:45 (1986)
    "Africa/Casablanca",       # negative DST around Ramadan since 2018
    "Australia/Lord_Howe",     # half-hour DST
    "Asia/Tehran",             # +03:30, DST abolished 2022
    "Africa/Cairo",            # DST abolished 2014, back 2023
    "Europe/London",           # British Standard Time all year until 1971
    "America/Argentina/Buenos_Aires",
    "Antarctica/Troll",        # two-hour DST step
    "Pacific/Chatham",         # +12:45 / +13:45
    "America/St_Johns",        # -03:30, DST at 00:01 until 2011
    "Asia/Kolkata",            # nothing ever changed after 1970 (control)
    "Europe/Amsterdam", "America/New_York", "Australia/Sydney",   # stable DST rules (controls)
]
MODES = ["env", "tzset-before-import", "tzset-after-import"]


# ------------------------------------------------------------------ oracle side (parent): zoneinfo
def off_dst(tz, t):
    d = datetime.datetime.fromtimestamp(t, tz)
    o, s = d.utcoffset(), d.dst()
    return (o.days * 86400 + o.seconds, None if s is None else s.days * 86400 + s.seconds)


def transitions(tz, lo, hi, step=86400):
    """instants in (lo, hi] at which (offset, dst) changes: [(t, offset before, offset after)]"""
    out = []
    pt, prev = lo, off_dst(tz, lo)
    t = lo + step
    while t <= hi:
        cur = off_dst(tz, t)
        if cur != prev:
            a, b = pt, t
            while b - a > 1:
                m = (a + b) // 2
                if off_dst(tz, m) == prev: a = m
                else: b = m
            # a day may hold more than one change: continue from b with what holds there
            cur = off_dst(tz, b)
            out.append((b, prev[0], cur[0]))
            prev, pt, t = cur, b, b + step
            continue
        pt, t = t, t + step
    return out


def local_of(tz, t):
    d = datetime.datetime.fromtimestamp(t, tz)
    return (d.year, d.month, d.day, d.hour, d.minute, d.second), off_dst(tz, t)[0]


def fmt_off(off):
    a = abs(off)
    return "%s%02d:%02d" % ("-" if off < 0 else "+", a // 3600, a % 3600 // 60) + (":%02d" % (a % 60) if a % 60 else "")


def classify(tz, f):
    """'none' (skipped local time), 'once', 'twice' + the instants at which the local time f occurs"""
    try:
        naive = datetime.datetime(*f)
    except ValueError:
        return "invalid", []
    cands = []
    for fold in (0, 1):
        a = naive.replace(tzinfo=tz, fold=fold)
        o = a.utcoffset()
        t = (naive - datetime.datetime(1970, 1, 1)) // datetime.timedelta(seconds=1) - (o.days * 86400 + o.seconds)
        if local_of(tz, t)[0] == tuple(f) and t not in cands: cands.append(t)
    return ["none", "once", "twice"][len(cands)], cands


def gen_probes(rng, tz, quick):
    trs = transitions(tz, LO, HI)
    ts = set()
    near = set()
    for T, a, b in trs:
        d = abs(b - a)
        for k in (0, 1, -1, -2, d, d - 1, d + 1, -d, -d - 1, -d + 1, 1800, -1800, 3600, -3600, 3599, -3601, 7200, -7200,
                  86400, -86400, 86399, -86401, 7 * 86400, -7 * 86400, 2 * d, -2 * d):
            near.add(T + k)
        for _ in range(2):
            near.add(T + rng.randint(-3 * 3600, 3 * 3600))
    ts |= near
    # inside every interval between two changes
    edges = [LO] + [T for T, _, _ in trs] + [HI]
    per = 6 if quick else 20
    if len(edges) <= 12: per *= 8
    for lo, hi in zip(edges, edges[1:]):
        if hi - lo > 2:
            for _ in range(per): ts.add(rng.randint(lo, hi - 1))
    # stride walk through all hours / minutes / seconds
    step = (11 if quick else 4) * 86400 + 7 * 3600 + 1861
    t = LO + rng.randrange(step)
    while t < HI:
        ts.add(t); t += step
    ts |= {LO, 86400 * 365, (1 << 31) - 1, 1 << 31, (1 << 31) + 1, (1 << 32) - 1, 1 << 32, HI - 1, HI}
    # far future (the rules in force at the end of the table are extrapolated by both implementations)
    for y in (2101, 2399, 2400, 5000, 9998):
        base = int(datetime.datetime(y, 1, 1, tzinfo=UTC).timestamp())
        for _ in range(6 if quick else 60): ts.add(base + rng.randrange(365 * 86400))
    ts = sorted(x for x in ts if LO <= x < Y9998)
    # local fields chosen on the wall clock, independently of any instant
    fs = set()
    def wall(t, off):
        d = datetime.datetime.fromtimestamp(t + off, UTC)
        return (d.year, d.month, d.day, d.hour, d.minute, d.second)
    for T, a, b in trs:
        for off in (a, b):
            for k in (0, -1, 1, 1799, -1800, 3599, 3600, -3600, -3601, 5400, -5400, 7200, -7200, 86400, -86400):
                fs.add(wall(T + k, off))
        fs.add(wall(T + rng.randint(-7200, 7200), rng.choice([a, b])))
    for _ in range(300 if quick else 5000):
        y = rng.choice([1970, 1971, 1999, 2000, 2011, 2014, 2016, 2019, 2022, 2024, 2037, 2038, 2099, rng.randint(1970, 2100), rng.randint(1970, 2100), rng.randint(2100, 9998)])
        m = rng.randint(1, 12)
        fs.add((y, m, rng.randint(1, 28 if m == 2 else 30), rng.randint(0, 23), rng.randint(0, 59), rng.randint(0, 59)))
    fs = sorted(f for f in fs if 1970 <= f[0] <= 9998 and not (f[0] == 1970 and f[1] == 1 and f[2] <= 2))
    return trs, ts, near, fs


def zone_table(tz, trs, tc, span=10 * 86400):
    """the zone around instant tc as the driver's table: offset at tc - span, then (T, offset) for every change up to tc + span"""
    if not (LO + span <= tc <= HI - span): return None
    o0 = off_dst(tz, tc - span)[0]
    return "%d" % o0 + "".join(" %d %d" % (T, b) for T, a, b in trs if tc - span < T <= tc + span)


def run_worker(zone, mode, ts, fs, syspath, timeout=600):
    env = dict(os.environ)
    env.pop("TZ", None)
    if mode == "env": env["TZ"] = zone
    else: env["TZ"] = "UTC"
    spec = json.dumps({"zone": zone, "mode": mode, "path": syspath, "ts": ts, "fs": fs})
    p = subprocess.run([sys.executable, "-B", os.path.abspath(__file__), "--worker"], input=spec, stdout=subprocess.PIPE,
                       stderr=subprocess.PIPE, text=True, env=env, timeout=timeout)
    if p.returncode != 0:
        raise RuntimeError("tz worker for %s failed: %s" % (zone, p.stderr[-2000:]))
    return json.loads(p.stdout)


def how(zone, mode):
    if mode == "env": return "TZ=%s /venv/bin/python (fresh interpreter); from nintendo.nex import common" % zone
    if mode == "tzset-before-import": return "fresh interpreter; os.environ['TZ']=%r; time.tzset(); from nintendo.nex import common" % zone
    return "fresh interpreter (TZ=UTC); from nintendo.nex import common; os.environ['TZ']=%r; time.tzset()" % zone


def zone_task(args):
    """one zone: probes -> fresh interpreter -> judged against zoneinfo. Returns a picklable summary."""
    zone, mode, seed, quick, syspath, replay_cap = args
    rng = random.Random(seed)
    tz = zoneinfo.ZoneInfo(zone)
    trs, ts, near, fs = gen_probes(rng, tz, quick)
    res = run_worker(zone, mode, ts, [list(f) for f in fs], syspath)
    tags, fails, lines = {}, [], []
    def tag(k): tags[k] = tags.get(k, 0) + 1
    def fail(key, what, rep):
        rep.update({"TZ": zone, "zone_set": mode, "how": how(zone, mode)})
        fails.append((key, what, rep))
    near_in = sorted(x for x in near if LO <= x < Y9998)
    replay_ts = set(rng.sample(near_in, min(len(near_in), replay_cap))) | set(rng.sample(ts, min(len(ts), replay_cap)))
    for t, r in zip(ts, res["ts"]):
        want, off = local_of(tz, t)
        kind, cands = classify(tz, want)
        tag("instant:" + kind)
        iso = "%04d-%02d-%02dT%02d:%02d:%02d" % want + fmt_off(off)
        if r["from"] != list(want):
            fail("datetime-unix-zone:%s:from:%d" % (zone, t),
                 "DateTime.fromtimestamp(%d) in zone %s has fields %s, the local time is %s (%s)" % (t, zone, r["from"], want, iso),
                 {"t": t, "local_time": iso, "fields_expected": want, "fields_got": r["from"], "utc_offset": off})
            continue
        v, back = r["value"], r["back"]
        if t in replay_ts:
            lines.append(("dt.from %d %d" % (off, t), "ok %d" % v, zone))
            zt = zone_table(tz, trs, t)
            if zt is not None:
                # the zone as a table of its rule changes, timestamp() as CPython's local_to_seconds (model Zone.timestampZ): also where the local time occurs twice
                lines.append(("dt.zfrom %d %s" % (t, zt), "ok %d" % v, zone))
                lines.append(("dt.zts %d %s" % (v, zt), "ok %d" % back if isinstance(back, int) else "err " + str(back), zone))
        if kind == "once":
            if t in replay_ts: lines.append(("dt.ts %d %d" % (off, v), "ok %d" % back if isinstance(back, int) else "err " + str(back), zone))
            if back != t:
                fail("datetime-unix-zone:%s:%d" % (zone, t),
                     "timestamp(fromtimestamp(t)) != t in zone %s: t=%d is the local time %s, which occurs once; DateTime.make%s.timestamp() -> %s (off by %s s)" % (
                         zone, t, iso, want, back, back - t if isinstance(back, int) else "n/a"),
                     {"t": t, "local_time": iso, "fields": want, "utc_offset": off, "timestamp": back})
        else:
            # the local time occurs twice: either instant is a faithful answer, the fields must survive
            if back not in cands or r["again"] != list(want):
                fail("datetime-unix-zone:%s:twice:%d" % (zone, t),
                     "local time %s occurs at %s in zone %s; DateTime.make%s.timestamp() -> %s -> fields %s" % (iso, cands, zone, want, back, r["again"]),
                     {"t": t, "local_time": iso, "fields": want, "instants": cands, "timestamp": back, "fields_again": r["again"]})
    nf = nz = 0
    for f, r in zip(fs, res["fs"]):
        kind, cands = classify(tz, f)
        tag("fields:" + kind)
        if kind != "invalid" and nz < 2 * replay_cap and isinstance(r["value"], int):
            # skipped and repeated local times too: the model says which instant CPython's routine picks
            tc = (datetime.datetime(*f) - datetime.datetime(1970, 1, 1)) // datetime.timedelta(seconds=1)
            zt = zone_table(tz, trs, tc)
            if zt is not None:
                nz += 1
                lines.append(("dt.zts %d %s" % (r["value"], zt), "ok %d" % r["ts"] if isinstance(r["ts"], int) else "err " + str(r["ts"]), zone))
        if kind in ("none", "invalid"): continue          # a skipped local time names no instant: outside the property
        got = r["ts"]
        if got not in cands or r["again"] != list(f):
            fail("datetime-unix-zone-fields:%s:%r" % (zone, tuple(f)),
                 "DateTime.make%s.timestamp() in zone %s -> %s, zoneinfo: the local time occurs %s at %s; fromtimestamp of the result has fields %s" % (
                     tuple(f), zone, got, kind, cands, r["again"]),
                 {"fields": f, "occurs": kind, "instants": cands, "timestamp": got, "fields_again": r["again"]})
        elif kind == "once" and nf < replay_cap:
            nf += 1
            off = local_of(tz, cands[0])[1]
            lines.append(("dt.ts %d %d" % (off, r["value"]), "ok %d" % got, zone))
    return {"zone": zone, "mode": mode, "transitions": len(trs), "offsets": sorted({a for _, a, _ in trs} | {b for _, _, b in trs} | {local_of(tz, LO)[1]}),
            "instants": len(ts), "fields": len(fs), "tags": tags, "fails": fails, "lines": lines, "process": res["process"]}


def choose_zones(ctx, quick):
    avail = sorted(z for z in zoneinfo.available_timezones() if not z.startswith(("posix/", "right/")) and z not in ("localtime", "Factory"))
    hist = [z for z in HISTORY_ZONES if z in avail]
    rest = [z for z in avail if z not in hist]
    extra = ctx.rng.sample(rest, min(len(rest), 16)) if quick else rest
    return hist, extra, len(avail)


def run(ctx, B, quick):
    import multiprocessing
    hist, extra, navail = choose_zones(ctx, quick)
    zones = hist + extra
    syspath = list(sys.path)
    start = ctx.rng.randrange(3)
    tasks = []
    for i, z in enumerate(zones):
        tasks.append((z, MODES[(start + i) % 3], ctx.rng.getrandbits(64), quick, syspath, 700 if quick else (2000 if z in hist else 250)))
    # the fixed list is also run with the zone set the two other ways for a few zones
    for i, z in enumerate(hist[:6]):
        tasks.append((z, MODES[(start + i + 1) % 3], ctx.rng.getrandbits(64), quick, syspath, 100))
    with multiprocessing.get_context("fork").Pool(min(14, len(tasks))) as pool:
        results = pool.map(zone_task, tasks, chunksize=1)
    reported = 0
    summary = {}
    for r in results:
        for k, n in r["tags"].items():
            ctx.case(key=None, nontrivial=False, tag="tzhist:" + k, n=n)
        ctx.case(key="tzhist:%s:%s" % (r["zone"], r["mode"]), nontrivial=True, tag="tzhist:zone:" + r["mode"])
        summary[r["zone"] + "|" + r["mode"]] = {"changes_1970_2100": r["transitions"], "offsets": r["offsets"], "instants": r["instants"],
                                                 "local_fields": r["fields"], "failed": len(r["fails"])}
        for line, real, zone in r["lines"]:
            B.add(line, real, ("dt.tzhist:" + zone, None))
        for key, what, rep in r["fails"][:2]:
            if reported < 6:
                reported += 1
                rep["failures_in_this_zone"] = len(r["fails"])
                ctx.violation(key, what, rep)
    ctx.extra["tzhist_zones"] = len(zones)
    ctx.extra["tzhist_zones_available"] = navail
    ctx.extra["tzhist_interpreters"] = len(tasks)
    ctx.extra["tzhist_instants"] = sum(r["instants"] for r in results)
    ctx.extra["tzhist_local_fields"] = sum(r["fields"] for r in results)
    ctx.extra["tzhist_rule_changes_visited"] = sum(r["transitions"] for r in results)
    ctx.extra["tzhist_failures"] = sum(len(r["fails"]) for r in results)
    ctx.extra["tzhist_per_zone"] = {k: summary[k] for k in sorted(summary)[:80]}


# ------------------------------------------------------------------ worker: a fresh interpreter running only the code under test
def _worker():
    import time
    spec = json.loads(sys.stdin.read())
    sys.path[:] = spec["path"]
    zone, mode = spec["zone"], spec["mode"]
    if mode == "tzset-before-import":
        os.environ["TZ"] = zone; time.tzset()
    from nintendo.nex import common
    if mode == "tzset-after-import":
        os.environ["TZ"] = zone; time.tzset()
    elif mode == "env":
        assert os.environ.get("TZ") == zone
        time.tzset()
    def fields(d): return [d.year(), d.month(), d.day(), d.hour(), d.minute(), d.second()]
    def exc(e): return type(e).__name__
    out_ts = []
    for t in spec["ts"]:
        r = {"from": None, "value": None, "back": None, "again": None}
        try:
            d = common.DateTime.fromtimestamp(t)
            r["from"], r["value"] = fields(d), d.value()
        except Exception as e:
            r["from"] = exc(e)
        else:
            try:
                r["back"] = common.DateTime.make(*r["from"]).timestamp()
            except Exception as e:
                r["back"] = exc(e)
            else:
                try: r["again"] = fields(common.DateTime.fromtimestamp(r["back"]))
                except Exception as e: r["again"] = exc(e)
        out_ts.append(r)
    out_fs = []
    for f in spec["fs"]:
        r = {"ts": None, "again": None, "value": None}
        try:
            d = common.DateTime.make(*f)
            r["value"] = d.value()
            r["ts"] = d.timestamp()
        except Exception as e:
            r["ts"] = exc(e)
        else:
            try: r["again"] = fields(common.DateTime.fromtimestamp(r["ts"]))
            except Exception as e: r["again"] = exc(e)
        out_fs.append(r)
    json.dump({"ts": out_ts, "fs": out_fs, "process": {"tzname": list(time.tzname), "timezone": time.timezone, "altzone": time.altzone}}, sys.stdout)


if __name__ == "__main__" and sys.argv[1:] == ["--worker"]:
    _worker()
