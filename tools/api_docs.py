"""C20 translator (documentation side): parse docs/reference/**/*.md into documented signatures.

Page format (see docs/reference/nex/prudp.md):
  # Module: <code>nintendo.x.y</code>
  <code>**def name**(params) -> ret</code><br>               module-level function
  <code>**async def name**(…)</code> / <code>**async with name**(…)</code>
  <code>**class** [Name](#anchor)(Base)</code> / <code>**class** Name(Base)</code>
  ## ClassName                                                section: methods of that class
  <code style="color: blue">@classmethod</code><br>           decorator of the next entry
  `attr: type` / `CONST: int = 0x…` / <code>attr: [T](…)</code>   documented attributes (optional part)

Output of parse_all(repo): dict with
  sigs       list of {module, cls, kind, name, decorator, params:[{name, has_default, kwonly, var, type, default}],
                      ret, bases, page, line, malformed:[…]}
  attrs      list of {module, cls, section, name, type, default, page, line}
  malformed  list of {page, line, what, text}
  pages      list of {page, module, sigs, attrs}
Nothing here imports the library; it is a pure text translator.
"""
import os, re, sys, json

KINDS = ("def", "async def", "async with", "class")

_MODULE = re.compile(r"^#\s*Module:\s*<code>\s*([A-Za-z_][\w.]*)\s*</code>")
_SECTION = re.compile(r"^##\s+(.*?)\s*$")
_DECOR = re.compile(r"<code[^>]*>\s*@(classmethod|staticmethod)\s*</code>")
_ENTRY = re.compile(r"<code>\*\*\s*(class|async def|async with|def)\s*(?:\*\*|(?=\s))")
_IDENT = re.compile(r"^[A-Za-z_]\w*$")


def _unescape(name):
    # markdown escapes: _\_init__  ->  __init__ ;  \*\*kwargs -> **kwargs
    return name.replace("\\_", "_").replace("\\*", "*")


def _match_paren(s, i):
    """s[i] == '('; index of the matching ')', counting ( [ { and skipping *terminated* string literals.
    Returns -1 when unbalanced."""
    depth = 0
    j = i
    n = len(s)
    while j < n:
        c = s[j]
        if c in "\"'":
            k = s.find(c, j + 1)
            # only treat it as a string literal when it is terminated before the next top-level ',' / ')' of this text
            if k != -1 and not re.search(r"[,()]", s[j + 1:k]):
                j = k + 1
                continue
        if c in "([{":
            depth += 1
        elif c in ")]}":
            depth -= 1
            if depth == 0:
                return j
        j += 1
    return -1


def split_top(s, sep=","):
    """split on top-level separators only (brackets nest; terminated string literals are atomic)"""
    out, depth, cur, j, n = [], 0, [], 0, len(s)
    while j < n:
        c = s[j]
        if c in "\"'":
            k = s.find(c, j + 1)
            if k != -1 and not re.search(r"[,()]", s[j + 1:k]):
                cur.append(s[j:k + 1]); j = k + 1
                continue
        if c in "([{":
            depth += 1
        elif c in ")]}":
            depth -= 1
        if c == sep and depth == 0:
            out.append("".join(cur)); cur = []
        else:
            cur.append(c)
        j += 1
    out.append("".join(cur))
    return out


def _find_top(s, ch):
    depth, j, n = 0, 0, len(s)
    while j < n:
        c = s[j]
        if c in "\"'":
            k = s.find(c, j + 1)
            if k != -1:
                j = k + 1
                continue
        if c in "([{":
            depth += 1
        elif c in ")]}":
            depth -= 1
        elif c == ch and depth == 0:
            return j
        j += 1
    return -1


def parse_params(text):
    """-> (params, malformed[]) ; params: {name, has_default, kwonly, var, type, default}"""
    params, bad = [], []
    text = text.strip()
    if not text:
        return params, bad
    kwonly = False
    for idx, raw in enumerate(split_top(text)):
        p = _unescape(raw.strip())
        if p == "":
            bad.append("empty parameter at position %d" % idx)
            continue
        if p == "*":
            kwonly = True
            continue
        if p == "/":
            continue
        var = ""
        if p.startswith("**"):
            var, p = "kwargs", p[2:].strip()
        elif p.startswith("*"):
            var, p = "args", p[1:].strip()
            kwonly = True
        eq = _find_top(p, "=")
        default = None
        if eq != -1:
            default = p[eq + 1:].strip()
            p = p[:eq].strip()
        col = _find_top(p, ":")
        typ = None
        if col != -1:
            typ = p[col + 1:].strip()
            name = p[:col].strip()
        else:
            name = p.strip()
        if not _IDENT.match(name):
            # e.g. "[TLSContext](https://…) = None": a type without a name
            bad.append("parameter %d has no name: %r" % (idx, raw.strip()[:80]))
            typ, name = (name if typ is None else name + ": " + typ), ""
        elif typ is not None:
            m = re.match(r"^([A-Za-z_]\w*)\s*:\s*(.+)$", typ)
            if m and m.group(1) == name:
                bad.append("parameter %r: name written twice" % name)
                typ = m.group(2)
        if default is not None and default.count('"') % 2 == 1:
            bad.append("parameter %r: unterminated string literal in default %r" % (name, default[:40]))
        params.append({"name": name, "has_default": default is not None, "kwonly": bool(kwonly and not var) or var == "kwargs",
                       "var": var, "type": typ, "default": default})
    return params, bad


def _strip_link(s):
    """'[Name](#anchor)(Base)' -> ('Name', '(Base)') ; 'Name(Base)' -> ('Name', '(Base)')"""
    s = s.strip()
    m = re.match(r"^\[`?([A-Za-z_][\w.]*)`?\]\(([^)]*)\)(.*)$", s)
    if m:
        return m.group(1), m.group(3).strip()
    m = re.match(r"^([A-Za-z_]\w*)(.*)$", s)
    if m:
        return m.group(1), m.group(2).strip()
    return "", s


def _plain_type(s):
    """drop markdown link syntax from a type expression: [Foo](#foo) -> Foo"""
    return re.sub(r"\[`?([^\]\[`]+)`?\]\([^)]*\)", r"\1", s)


_ATTR_TICK = re.compile(r"^`([A-Za-z_][\w.]*)\s*(?::\s*([^=`]+?))?\s*(?:=\s*([^`]+?))?\s*`")
_ATTR_CODE = re.compile(r"^<code>([A-Za-z_][\w.]*)\s*:\s*(.*?)</code>")
_CONST_PAREN = re.compile(r"^<code>([A-Z_][A-Z0-9_]*)\s*\((\w+)\)</code>")


def parse_page(path, rel):
    lines = open(path, encoding="utf-8").read().split("\n")
    module = None
    section = ""
    sigs, attrs, bad = [], [], []
    decorator = ""
    last_entry, resp_for = None, None       # attributes listed under "The RMC response has the following attributes"
    for ln, line in enumerate(lines, 1):
        s = line.strip()
        if "RMC response" in s and "following attributes" in s:
            resp_for = last_entry
        elif s.startswith("</span>") or s == "":
            resp_for = None
        m = _MODULE.match(s)
        if m and module is None:
            module = m.group(1)
            continue
        m = _SECTION.match(s)
        if m:
            section = m.group(1)
            decorator = ""
            last_entry = resp_for = None
            continue
        m = _DECOR.search(s)
        if m and "**" not in s:
            decorator = m.group(1)
            continue
        m = _ENTRY.search(s)
        if m:
            kind = m.group(1)
            entry_bad = []
            if not s.startswith("<code>**" + kind):
                entry_bad.append("irregular markup before the keyword")
            end = s.find("</code>", m.end())
            body = s[m.end(): end if end != -1 else len(s)]
            if end == -1:
                entry_bad.append("entry not closed by </code>")
            if kind == "class":
                name, rest = _strip_link(body)
                bases = []
                if rest.startswith("("):
                    j = _match_paren(rest, 0)
                    inner = rest[1:j] if j != -1 else rest[1:]
                    bases = [_plain_type(b.strip()) for b in split_top(inner) if b.strip()]
                    if j == -1 or rest[j + 1:].strip():
                        entry_bad.append("trailing text after class bases: %r" % rest[:60])
                elif rest:
                    entry_bad.append("trailing text after class name: %r" % rest[:60])
                if not name:
                    entry_bad.append("class entry without a name")
                sigs.append({"module": module, "cls": "", "kind": "class", "name": name, "decorator": "",
                             "params": [], "ret": None, "bases": bases, "page": rel, "line": ln,
                             "section": section, "malformed": entry_bad})
            else:
                # body: " name**(params) -> ret"
                mm = re.match(r"^\s*([A-Za-z_\\][\w\\]*)\s*\*\*\s*", body)
                if not mm:
                    bad.append({"page": rel, "line": ln, "what": "entry without a name", "text": s[:160]})
                    decorator = ""
                    continue
                name = _unescape(mm.group(1))
                rest = body[mm.end():]
                params, ret = [], None
                if rest.startswith("("):
                    j = _match_paren(rest, 0)
                    if j == -1:
                        # unbalanced (e.g. an unterminated string literal swallowing the ')'): take the last ')'
                        j = rest.rfind(")")
                        entry_bad.append("unbalanced brackets in the parameter list")
                    params, pbad = parse_params(rest[1:j])
                    entry_bad += pbad
                    tail = rest[j + 1:].strip()
                    if tail.startswith("->"):
                        ret = _plain_type(tail[2:].strip())
                    elif tail.startswith(":"):
                        ret = _plain_type(tail[1:].strip())
                        entry_bad.append("return type written with ':' instead of '->'")
                    elif tail:
                        entry_bad.append("trailing text after the parameter list: %r" % tail[:60])
                else:
                    entry_bad.append("no parameter list")
                sigs.append({"module": module, "cls": section, "kind": kind, "name": name, "decorator": decorator,
                             "params": params, "ret": ret, "bases": [], "page": rel, "line": ln,
                             "section": section, "malformed": entry_bad})
            for b in entry_bad:
                bad.append({"page": rel, "line": ln, "what": b, "text": s[:160]})
            decorator = ""
            last_entry = sigs[-1]["name"]
            if not ("RMC response" in s and "following attributes" in s):
                resp_for = None
            continue
        # attributes / constants (optional part)
        m = _ATTR_TICK.match(s) or None
        if m and (s.endswith("<br>") or s.endswith("`")) and (m.group(2) or m.group(3)):
            attrs.append({"module": module, "cls": section, "section": section, "name": m.group(1),
                          "type": (m.group(2) or "").strip() or None, "default": (m.group(3) or "").strip() or None,
                          "page": rel, "line": ln, "response_of": resp_for})
            continue
        m = _ATTR_CODE.match(s)
        if m:
            t = m.group(2)
            d = None
            eq = _find_top(t, "=")
            if eq != -1:
                d, t = t[eq + 1:].strip(), t[:eq].strip()
            attrs.append({"module": module, "cls": section, "section": section, "name": m.group(1),
                          "type": _plain_type(t), "default": d, "page": rel, "line": ln, "response_of": resp_for})
            continue
        m = _CONST_PAREN.match(s)
        if m:
            attrs.append({"module": module, "cls": section, "section": section, "name": m.group(1),
                          "type": None, "default": m.group(2), "page": rel, "line": ln, "response_of": resp_for})
            continue
    # sections that are not classes ("Global Constants", "Fields"): their entries belong to the module
    class_names = {x["name"] for x in sigs if x["kind"] == "class"}
    method_sections = {x["cls"] for x in sigs if x["kind"] != "class" and x["cls"]}
    for x in sigs:
        if x["kind"] != "class" and x["cls"] and not _IDENT.match(x["cls"]):
            bad.append({"page": rel, "line": x["line"], "what": "callable documented under a non-class section %r" % x["cls"], "text": x["name"]})
            x["cls"] = ""
    for a in attrs:
        sec = a["section"]
        if not (_IDENT.match(sec or "") and (sec in class_names or sec in method_sections)):
            a["cls"] = ""
    if module is None:
        bad.append({"page": rel, "line": 1, "what": "page without a '# Module:' header", "text": ""})
    for x in sigs:
        x.pop("section", None)
    return module, sigs, attrs, bad


def reference_pages(repo):
    root = os.path.join(repo, "docs", "reference")
    res = []
    for d, dirs, files in os.walk(root):
        dirs.sort()
        for f in sorted(files):
            if f.endswith(".md"):
                p = os.path.join(d, f)
                res.append((p, os.path.relpath(p, repo)))
    return sorted(res, key=lambda x: x[1])


def parse_all(repo=None):
    repo = repo or os.environ.get("NX_REPO", "/repo")
    sigs, attrs, bad, pages = [], [], [], []
    for path, rel in reference_pages(repo):
        module, s, a, b = parse_page(path, rel)
        sigs += s; attrs += a; bad += b
        pages.append({"page": rel, "module": module, "sigs": len(s), "attrs": len(a),
                      "generated": "generated automatically" in open(path, encoding="utf-8").read()})
    return {"sigs": sigs, "attrs": attrs, "malformed": bad, "pages": pages}


def public(sig):
    """the output format promised to callers (without the auxiliary fields)"""
    return {"module": sig["module"], "cls": sig["cls"], "kind": sig["kind"], "name": sig["name"],
            "decorator": sig["decorator"],
            "params": [{"name": p["name"], "has_default": p["has_default"], "kwonly": p["kwonly"]} for p in sig["params"]],
            "page": sig["page"], "line": sig["line"]}


if __name__ == "__main__":
    r = parse_all(sys.argv[1] if len(sys.argv) > 1 else None)
    by = {}
    for s in r["sigs"]:
        by[s["kind"]] = by.get(s["kind"], 0) + 1
    print("pages %d  signatures %d  %s  attributes %d  malformed %d" % (len(r["pages"]), len(r["sigs"]), by, len(r["attrs"]), len(r["malformed"])))
    for b in r["malformed"]:
        print("  %s:%d: %s" % (b["page"], b["line"], b["what"]))
    if "--json" in sys.argv:
        json.dump([public(s) for s in r["sigs"]], sys.stdout, indent=1)
