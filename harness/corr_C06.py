"""C06 — handshake negotiation. Tie: real client/server handshakes over the whole parameter grid (exhaustive in the
thorough tier), every session replayed through the Lean L1 endpoint model byte for byte, and the property oracle on
the real endpoints (both report min/min/AND; every substream up to the maximum carries data; beyond is refused;
version compatibility; crafted acks that exceed or contradict the offer are refused)."""
import itertools, multiprocessing, os, random, traceback
import prudp_session as ps
import l1_corr
import l1_stream
import c06_sameaddr
import c06_race
import c06_wfault

LEVEL = "proof"
EXTRA_TARGETS = ["nxdrv_C02"]

MINORS = list(range(7))
SUBS = [0, 1, 2, 3]
MASKS = [0, 1, 0x0F, 0xA5A5A5, 0xFFFFFF]


def crafted_setup(kind):
    """rewrites the server's SYN/ACK or CONNECT/ACK on the wire (correctly re-signed with the library's own encoder,
    which needs no secret for handshake packets) so that it exceeds or contradicts the client's offer"""
    from nintendo.nex import prudp
    def setup(sim, out):
        s = out.settings_s
        enc = prudp.PRUDPMessageV1(s)
        net = sim.net
        orig_fate = net.fate
        mitm = {}
        def fate(tx):
            try:
                pk = enc.decode(tx.data)
            except Exception:
                return orig_fate(tx)
            if len(pk) != 1:
                return orig_fate(tx)
            p = pk[0]
            def delta(p, dm, ds, df):
                p.minor_version = max(0, p.minor_version + dm)
                p.max_substream_id = max(0, p.max_substream_id + ds)
                if df < 0: p.supported_functions &= ~2
                elif df > 0: p.supported_functions |= 0x100000
            if kind.startswith("con-req"):
                # a client that ignores the lowered SYN ack: its CONNECT request asks for more than the server supports
                _, dm, ds, df = kind.split(":")
                if tx.src != ps.SERVER and p.type == 1 and not p.flags & 1:
                    delta(p, int(dm), int(ds), int(df))
                    p.signature = enc.calc_packet_signature(p, b"", enc.calc_connection_signature(tx.src))
                    net.inject(tx.src, tx.dst, enc.encode(p), 0.004)
                    return []
                return orig_fate(tx)
            if kind.startswith("data-beyond"):
                # a peer that does not conform: correctly signed reliable DATA on a substream above the negotiated maximum (but within
                # what the receiver was configured with)
                k = int(kind.split(":")[1])
                if tx.src != ps.SERVER and p.type == 2 and not p.flags & 1 and p.flags & 2 and "done" not in mitm:
                    mitm["done"] = True
                    import copy
                    q = copy.copy(p)
                    q.substream_id, q.packet_id, q.fragment_id, q.payload = k, 1, 0, b"beyond"
                    q.signature = enc.calc_packet_signature(q, b"", enc.calc_connection_signature(tx.src))   # the receiver verifies with the signature of ITS peer's address
                    net.inject(tx.src, tx.dst, enc.encode(q), 0.002)
                    out.beyond = k
                return orig_fate(tx)
            if kind.startswith("late-syn"):
                _, target, dm, ds, df = kind.split(":")
                if tx.src == ps.SERVER and p.type == 0 and p.flags & 1:
                    mitm["synack"] = (p, tx.dst)
                # once the handshake is over (first DATA from the client): a second SYN ack with lower values, correctly signed
                if tx.src != ps.SERVER and p.type == 2 and not p.flags & 1 and "synack" in mitm and "done" not in mitm:
                    mitm["done"] = True
                    import copy
                    q = copy.copy(mitm["synack"][0])
                    delta(q, int(dm), int(ds), int(df))
                    if target == "c":
                        q.signature = enc.calc_packet_signature(q, b"", b"")
                        net.inject(ps.SERVER, mitm["synack"][1], enc.encode(q), 0.002)
                    else:
                        q.source_type, q.source_port, q.dest_type, q.dest_port = q.dest_type, q.dest_port, q.source_type, q.source_port
                        q.signature = enc.calc_packet_signature(q, b"", b"")
                        net.inject(mitm["synack"][1], ps.SERVER, enc.encode(q), 0.002)
                return orig_fate(tx)
            raising = kind.startswith("syn:") and any(int(x) > 0 for x in kind.split(":")[1:])
            if tx.src != ps.SERVER:
                if raising and p.type == 1 and not p.flags & 1 and "orig" in mitm:
                    # a scripted "server" in the middle: the CONNECT goes on to the real server with the values it offered, so that
                    # the handshake can complete and what the client ends up with becomes visible
                    p.minor_version, p.max_substream_id, p.supported_functions = mitm["orig"]
                    p.signature = enc.calc_packet_signature(p, b"", enc.calc_connection_signature(tx.src))
                    net.inject(tx.src, tx.dst, enc.encode(p), 0.004)
                    return []
                return orig_fate(tx)
            if raising and p.type == 1 and p.flags & 1 and "crafted" in mitm:
                p.minor_version, p.max_substream_id, p.supported_functions = mitm["crafted"]
                p.signature = enc.calc_packet_signature(p, b"", enc.calc_connection_signature(ps.SERVER))
                net.inject(tx.src, tx.dst, enc.encode(p), 0.004)
                return []
            if kind.startswith(("syn:", "con:")):
                which, dm, ds, df = kind.split(":")
                if not ((p.type == 0 and which == "syn") or (p.type == 1 and which == "con")) or not p.flags & 1:
                    return orig_fate(tx)
                mitm["orig"] = (p.minor_version, p.max_substream_id, p.supported_functions)
                delta(p, int(dm), int(ds), int(df))
                mitm["crafted"] = (p.minor_version, p.max_substream_id, p.supported_functions)
                if which == "syn":
                    p.signature = enc.calc_packet_signature(p, b"", b"")
                else:
                    p.signature = enc.calc_packet_signature(p, b"", enc.calc_connection_signature(ps.SERVER))
            elif p.type == 0 and p.flags & 1 and kind.startswith("syn"):
                if kind == "syn-sub+1": p.max_substream_id += 1
                elif kind == "syn-minor+1": p.minor_version += 1
                elif kind == "syn-extra-bit": p.supported_functions |= 0x100000
                p.signature = enc.calc_packet_signature(p, b"", b"")
            elif p.type == 1 and p.flags & 1 and kind.startswith("con"):
                if kind == "con-sub-1": p.max_substream_id = max(0, p.max_substream_id - 1)
                elif kind == "con-minor-1": p.minor_version = max(0, p.minor_version - 1)
                elif kind == "con-minor+1": p.minor_version += 1
                elif kind == "con-mask": p.supported_functions ^= 1
                csig = enc.calc_connection_signature(ps.SERVER)   # the client signed its CONNECT with the signature of the server's address
                p.signature = enc.calc_packet_signature(p, b"", csig)
            else:
                return orig_fate(tx)
            data = enc.encode(p)
            net.inject(tx.src, tx.dst, data, 0.004)
            return []
        net.fate = fate
        out.addr_c = ("10.0.0.2", 50001)
    return setup


def visitors(seed, server, clients):
    """one long-lived server port, several clients of different capabilities, handshakes interleaved: every connection must
    negotiate the meet of ITS client and the server's configuration, whoever visited before or is connecting at the same time.
    server = (version, minor, sub, funcs); clients = [(version, minor, sub, funcs, start_delay)]"""
    import anyio
    from sim import Sim, quant
    from nintendo.nex import prudp
    rng = random.Random(seed)
    bad, reports, srv_reports, echoes = [], {}, {}, {}
    def mk(t):
        return ps.Cfg(version=t[0], v0=(0, 1, 1), minor_version=t[1], max_substream=t[2], supported_functions=t[3], fragment_size=7,
                      resend_timeout=0.5, resend_limit=2).settings()
    ss = mk(server)
    with Sim(seed) as sim:
        sim.install_factories()
        sim.net.fate = lambda tx: [quant(0.004 + 0.002 * ((tx.n * 7919 + seed) % 23))]     # handshakes interleave
        async def handler(client):
            srv_reports[client.remote_address()] = (client.minor_ver, client.max_substream_id, client.supported_functions)
            sub = client.max_substream_id
            try:
                while True:
                    d = await client.recv(sub)
                    await client.send(b"echo:" + d, sub)
            except anyio.EndOfStream:
                pass
        async def visitor(i, t):
            await anyio.sleep(quant(t[4]))
            try:
                async with prudp.connect(mk(t), ps.SERVER[0], ps.SERVER[1]) as c:
                    reports[i] = (c.local_address(), (c.minor_ver, c.max_substream_id, c.supported_functions))
                    sub = c.max_substream_id
                    await c.send(b"visitor%d" % i, sub)
                    with anyio.move_on_after(3):
                        echoes[i] = await c.recv(sub)
                    try:
                        await c.send(b"beyond", sub + 1)
                        echoes[(i, "beyond")] = "accepted"
                    except ValueError:
                        pass
                    await anyio.sleep(quant(rng.choice([0.01, 0.2, 0.6])))
            except Exception as e:
                reports[i] = (None, "failed: %r" % (e,))
        async def main():
            async with prudp.serve(handler, ss, ps.SERVER[0], ps.SERVER[1]):
                async with anyio.create_task_group() as tg:
                    for i, t in enumerate(clients):
                        tg.start_soon(visitor, i, t)
        sim.run(main())
    for i, t in enumerate(clients):
        want = (0, 0, 0) if t[0] == 0 else (min(t[1], server[1]), min(t[2], server[2]), t[3] & server[3])
        addr, pc = reports.get(i, (None, "did not finish"))
        if addr is None:
            bad.append("visitor %d %r on server %r: handshake %s" % (i, t[:4], server, pc)); continue
        psv = srv_reports.get(addr)
        if pc != want or psv != want:
            bad.append("visitor %d %r on server %r (after/among %d other visitors): client reports %r, server reports %r, expected min/min/AND %r"
                       % (i, t[:4], server, len(clients) - 1, pc, psv, want))
        elif echoes.get(i) != b"echo:visitor%d" % i:
            bad.append("visitor %d %r: substream %d did not carry its data (%r)" % (i, t[:4], want[1], echoes.get(i)))
        if echoes.get((i, "beyond")):
            bad.append("visitor %d %r: send beyond the negotiated substream %d was accepted" % (i, t[:4], want[1]))
    return bad


def work(args):
    idx, kind, c, s, seed = args
    try:
        rng = random.Random(seed)
        if kind == "visitors":
            bad = visitors(seed, s, c)
            return idx, kind, repr(c), repr(s), seed, bad, None, None
        if kind == "sameaddr":
            # one long-lived server, visitors of different protocol versions one after another from ONE (ip, port)
            sess = c06_sameaddr.run(seed & 0xFFFF, s, c)
            bad = c06_sameaddr.oracle(sess)
            sess.c06_kind = "sameaddr"
            return idx, kind, repr(c), repr(s), seed, bad, sess, None
        if kind == "race":
            # a crafted ack arriving while the SYN / CONNECT is outstanding
            cfg, cfgs = c06_race.cfgs(c)
            sess = ps.run_session(cfg, seed & 0xFFFF, c06_race.script_of(c, rng), lambda sim, r: (lambda tx: [0.004]), cfg_s=cfgs,
                                  setup=c06_race.setup_of(c), phases_gap=0.25, max_time=40.0)
            bad = c06_race.oracle(sess, c)
            return idx, kind, repr(c), repr(s), seed, bad, sess, None
        if kind == "wfault":
            # a write fault at exactly the k-th transport write of one side (handshake writes first of all)
            cfg, cfgs = c06_wfault.cfgs(c)
            sess = ps.run_session(cfg, seed & 0xFFFF, c06_wfault.script_of(c, rng), lambda sim, r: (lambda tx: [0.004]), cfg_s=cfgs,
                                  setup=c06_wfault.setup_of(c), phases_gap=0.25, max_time=40.0)
            bad = c06_wfault.oracle(sess, c)
            sess.c06_tags = c06_wfault.tags(sess, c)
            sess.c06_replay = c06_wfault.replayable(c)
            if getattr(sess, "wfault", None):
                sess.wfault["streams"] = []         # live objects: observation only, not part of the record
            return idx, kind, repr(c), repr(s), seed, bad, sess, None
        if kind == "grid":
            (cm, cs_, cf), (sm, ss_, sf) = c, s
            cfg = ps.Cfg(version=1, max_substream=cs_, minor_version=cm, supported_functions=cf, fragment_size=7)
            cfgs = ps.Cfg(version=1, max_substream=ss_, minor_version=sm, supported_functions=sf, fragment_size=7)
            neg = min(cs_, ss_)
            script = [[(side, sub, rng.randbytes(rng.choice([3, 7, 16]))) for sub in range(neg + 1) for side in "cs"] +
                      [("c", neg + 1, b"beyond"), ("s", neg + 1, b"beyond")]]
            setup = None
        elif kind == "versions":
            (cv, lim), sv = (c if isinstance(c, tuple) else (c, 1)), s
            cfg = ps.Cfg(version=cv, v0=(0, 1, 1), minor_version=4, max_substream=(1 if cv else 0), resend_limit=lim, resend_timeout=0.5)
            cfgs = ps.Cfg(version=sv, v0=(0, 1, 1), minor_version=4, max_substream=(1 if sv else 0), resend_limit=lim, resend_timeout=0.5)
            script = [[("c", 0, b"ping"), ("s", 0, b"pong")]]
            setup = None
        elif kind == "lite":
            (cm, cf), (sm, sf) = c[:2], s[:2]
            cfg = ps.Cfg(transport="lite", minor_version=cm, supported_functions=cf, max_substream=(c[2] if len(c) > 2 else 0))
            cfgs = ps.Cfg(transport="lite", minor_version=sm, supported_functions=sf, max_substream=(s[2] if len(s) > 2 else 0))
            script = [[("c", 0, b"ping"), ("s", 0, b"pong"), ("c", 1, b"beyond"), ("s", 1, b"beyond")]]
            setup = None
        else:  # crafted
            cfg = ps.Cfg(version=1, max_substream=2, minor_version=3, supported_functions=0x0F, resend_limit=1, resend_timeout=0.5)
            cfgs = ps.Cfg(version=1, max_substream=2, minor_version=3, supported_functions=0x0F, resend_limit=1, resend_timeout=0.5)
            script = [[("c", 0, b"ping")]]
            if c.startswith(("con-req", "data-beyond")):
                # the client offers more than the server supports: the meet is the server's configuration (3, 1, 0x06)
                cfg = ps.Cfg(version=1, max_substream=3, minor_version=6, supported_functions=0xFF, resend_limit=1, resend_timeout=0.5)
                cfgs = ps.Cfg(version=1, max_substream=1, minor_version=3, supported_functions=0x06, resend_limit=1, resend_timeout=0.5)
            if c.startswith("data-beyond"):
                cfg, cfgs = cfgs, cfg            # the RECEIVER (server) is configured with more substreams than were negotiated
                script = [[("c", 0, b"ping"), ("s", 0, b"pong")], [("c", 1, b"last")]]
            if c.startswith("late-syn"):
                script = [[("c", 0, b"ping")], [(side, sub, b"after:%d" % sub + side.encode()) for sub in range(3) for side in "cs"]]
            setup = crafted_setup(c)
        sess = ps.run_session(cfg, seed & 0xFFFF, script, lambda sim, r: (lambda tx: [0.004]), cfg_s=cfgs, setup=setup, phases_gap=0.25)
        # ---- oracle on the real code
        bad = []
        snap = sess.checkpoints[-1 if (kind == "crafted" and c.startswith("late-syn")) else 0]["ep"] if sess.checkpoints else {}
        pc, psv = snap.get("c", {}).get("params"), snap.get("s", {}).get("params")
        connected = sess.connect_error is None and pc is not None
        if kind == "grid":
            want = (min(cm, sm), min(cs_, ss_), cf & sf)
            if not connected:
                bad.append("handshake failed: %s" % sess.connect_error)
            else:
                if pc != want or psv != want:
                    bad.append("negotiated parameters: client reports %r, server reports %r, expected min/min/AND %r" % (pc, psv, want))
                for sub in range(want[1] + 1):
                    for side in "cs":
                        other = "s" if side == "c" else "c"
                        sent = [m for sd, sb, m in sess.accepted if sd == other and sb == sub]
                        if sess.got.get((side, sub), [])[:len(sent)] != sent or not sent:
                            bad.append("substream %d towards %s did not carry its data" % (sub, side))
                errs = {(e[0], e[1]) for e in sess.send_errors if "ValueError" in e[2]}
                for side in "cs":
                    if (side, want[1] + 1) not in errs:
                        bad.append("send on substream %d (beyond the negotiated %d) was not refused at %s" % (want[1] + 1, want[1], side))
        elif kind == "versions":
            (cv, lim), sv = (c if isinstance(c, tuple) else (c, 1)), s
            compatible = (cv == 0 and sv in (0, 2)) or (cv in (1, 2) and sv in (1, 2))
            if compatible != connected:
                bad.append("client prudp.version=%d, server prudp.version=%d: connected=%s, expected %s" % (cv, sv, connected, compatible))
            if connected:
                want = (0, 0, 0) if cv == 0 else (4, 1, 0)
                if pc != psv or pc != want:
                    bad.append("version pair %d/%d: client reports %r, server %r, expected %r" % (cv, sv, pc, psv, want))
                if sess.got.get(("s", 0)) != [b"ping"] or sess.got.get(("c", 0)) != [b"pong"]:
                    bad.append("version pair %d/%d connected but data did not flow" % (cv, sv))
            else:
                if sess.timed_out or sess.crash or "PRUDP connection failed" not in str(sess.connect_error):
                    bad.append("incompatible versions %d/%d (resend_limit %d) did not fail cleanly with the library's connection error: connect ended with %s (timed_out=%s crash=%s, session ran %.1f s of virtual time)"
                               % (cv, sv, lim, str(sess.connect_error)[:120], sess.timed_out, sess.crash, sess.end_time))
        elif kind == "lite":
            want = (min(cm, sm), 0, cf & sf)
            if not connected:
                bad.append("lite handshake failed: %s" % sess.connect_error)
            elif pc != want or psv != want:
                bad.append("lite (which carries no substream option: the maximum is 0 on both sides): client %r reports %r, server %r reports %r, expected %r" % (c, pc, s, psv, want))
            else:
                if sess.got.get(("s", 0)) != [b"ping"] or sess.got.get(("c", 0)) != [b"pong"]:
                    bad.append("lite: substream 0 did not carry its data")
                errs = {(e[0], e[1]) for e in sess.send_errors if "ValueError" in e[2]}
                for side in "cs":
                    if (side, 1) not in errs:
                        bad.append("lite: send on substream 1 (beyond the agreed 0) was not refused at %s (client %r, server %r)" % (side, c, s))
        else:
            if c.endswith("identity"):
                # control: a re-signed but unchanged ack must be accepted (the crafting itself is sound)
                if not connected:
                    bad.append("re-signed unchanged %s was refused: %s" % (c, sess.connect_error))
            elif c.startswith("con-req"):
                dm, ds, df = (int(x) for x in c.split(":")[1:])
                # whatever the request asks for beyond the server's configuration must be refused by the server; a request that was
                # altered at all cannot complete either (the client checks the echo)
                if any(x > 0 for x in (dm, ds, df)) and sess.handler_started:
                    bad.append("the server (configured (3, 1, 0x06)) created a connection for a CONNECT request exceeding its configuration (%s): it reports %r" % (c, psv))
                if connected:
                    bad.append("a handshake whose CONNECT request was altered (%s) completed: client reports %r, server %r" % (c, pc, psv))
            elif c.startswith("data-beyond"):
                k = int(c.split(":")[1])
                obs = ps.Observer(sess.settings, cfg)
                if not connected:
                    bad.append("handshake failed in the %s scenario: %s" % (c, sess.connect_error))
                elif pc != (3, 1, 0x06) or psv != (3, 1, 0x06):
                    bad.append("%s: client reports %r, server %r, expected (3, 1, 6)" % (c, pc, psv))
                elif k == 1:
                    # control: the same crafted packet on a negotiated substream IS accepted (the crafting is sound)
                    t_inj = min([e[2] for e in sess.netlog if e[0] == "inject"] or [0])
                    acks = [e for e in sess.netlog if e[0] == "tx" and e[3] == ps.SERVER and e[2] < t_inj + 0.2
                            and any(q_.type == 2 and q_.flags & 1 and q_.substream_id == 1 for q_ in obs.decode(e[5]))]
                    if not acks:
                        bad.append("control: a correctly signed DATA packet on the negotiated substream 1 was not acknowledged (the crafted packet of the data-beyond cases is unsound)")
                else:
                    for e in sess.netlog:
                        if e[0] == "tx" and e[3] == ps.SERVER:
                            for pk_ in obs.decode(e[5]):
                                if pk_.type == 2 and pk_.flags & 1 and pk_.substream_id == k:
                                    bad.append("the receiver (configured with 4 substreams, 2 negotiated) acknowledged reliable DATA on substream %d, above the negotiated maximum 1" % k)
                    if sess.got.get(("s", 1)) != [b"last"] or sess.got.get(("s", 0)) != [b"ping"]:
                        bad.append("%s: genuine traffic after the out-of-range packet was disturbed: %r" % (c, {kk: v for kk, v in sess.got.items() if kk[0] == "s"}))
            elif c.startswith("late-syn"):
                # the negotiation is fixed by the handshake: a later, correctly signed SYN ack with other values changes nothing
                want = (3, 2, 0x0F)
                if not connected:
                    bad.append("handshake failed in the %s scenario: %s" % (c, sess.connect_error))
                elif pc != want or psv != want:
                    bad.append("after the handshake a contradicting SYN ack (%s) changed the negotiated parameters: client reports %r, server reports %r, agreed %r" % (c, pc, psv, want))
                else:
                    for sub in range(3):
                        for side in "cs":
                            other = "s" if side == "c" else "c"
                            if (b"after:%d" % sub + other.encode()) not in sess.got.get((side, sub), []):
                                bad.append("after a contradicting SYN ack (%s) substream %d towards %s no longer carries data" % (c, sub, side))
            elif c.startswith("syn:") and not any(int(x) > 0 for x in c.split(":")[1:]):
                # an ack that only lowers the offer is a legitimate answer: both sides must end up with exactly the lowered values
                dm, ds, df = (int(x) for x in c.split(":")[1:])
                want = (max(0, 3 + dm), max(0, 2 + ds), 0x0F & ~2 if df < 0 else 0x0F)
                if not connected:
                    bad.append("a SYN ack that only lowers the offer (%s) was refused: %s" % (c, sess.connect_error))
                elif pc != want or psv != want:
                    bad.append("after a SYN ack lowering the offer (%s): client reports %r, server %r, expected %r" % (c, pc, psv, want))
            elif connected:
                bad.append("client accepted a crafted %s (offer (3, 2, 0xF); its parameters now %r, server %r)" % (c, pc, psv))
            if not connected and (sess.timed_out or sess.crash or "PRUDP connection failed" not in str(sess.connect_error)):
                # a refused ack must leave the handshake to its retransmission timer: it fails cleanly, it does not stay half-open
                bad.append("after a crafted %s the handshake neither completed nor failed with the library's connection error: connect ended with %s (timed_out=%s crash=%s, session ran %.1f s of virtual time)"
                           % (c, str(sess.connect_error)[:120], sess.timed_out, sess.crash, sess.end_time))
        return idx, kind, repr(c), repr(s), seed, bad, sess, None
    except Exception:
        return idx, kind, repr(c), repr(s), seed, [], None, traceback.format_exc()


def cases(rng, quick):
    out = []
    triples = list(itertools.product(MINORS, SUBS, MASKS))
    if quick:
        pairs = set()
        # every client triple once against a random server triple and vice versa, plus the corners
        for t in triples:
            pairs.add((t, rng.choice(triples))); pairs.add((rng.choice(triples), t))
        corners = [(0, 0, 0), (6, 3, 0xFFFFFF), (6, 0, 0xA5A5A5), (0, 3, 0x0F)]
        pairs.update(itertools.product(corners, corners))
        pairs = sorted(pairs)
    else:
        pairs = list(itertools.product(triples, triples))
    for c, s in pairs:
        out.append(("grid", c, s))
    for cv in (0, 1, 2):
        for sv in (0, 1, 2):
            out.append(("versions", cv, sv))
            for lim in (0, 3):      # every retransmission budget, the empty one included: incompatible peers fail, they do not hang
                out.append(("versions", (cv, lim), sv))
    lt = [(m, f) for m in (0, 3, 6) for f in (0, 0x0F, 0xFFFFFF)]
    for c in lt:
        for s in (lt if not quick else rng.sample(lt, 3)):
            out.append(("lite", c, s))
    # one server port visited by several clients (weak ones first), handshakes interleaved
    for _ in range(6 if quick else 80):
        sv = (2, rng.choice([3, 6]), rng.choice([1, 3]), rng.choice([0xFF, 0xFFFFFE, 0xA5A5A4]))
        vis = []
        for j in range(rng.randint(3, 6)):
            weak = j < 2 and rng.random() < 0.7
            v = 0 if (weak and rng.random() < 0.5) else 1
            vis.append((v, 0 if weak else rng.choice(MINORS), 0 if weak else rng.choice(SUBS), (rng.choice([0, 2]) if weak else rng.choice(MASKS)),
                        round(j * rng.choice([0.0, 0.003, 0.05, 0.4]), 6)))
        out.append(("visitors", tuple(vis), sv))
    # every combination of lowering / keeping / raising each of the three parameters in the SYN ack (raising any one must be
    # refused whatever happens to the others) and in the CONNECT ack (any deviation from the echo must be refused)
    for which in ("syn", "con"):
        for dm in (-1, 0, 1):
            for ds in (-1, 0, 1):
                for df in (-1, 0, 1):
                    if (dm, ds, df) != (0, 0, 0):
                        out.append(("crafted", "%s:%d:%d:%d" % (which, dm, ds, df), None))
    for d in ((1, 0, 0), (0, 1, 0), (0, 0, 1), (1, 1, 1), (3, 2, 1), (1, -1, 0), (-1, 1, 0), (0, -1, 1), (-1, 0, 0), (0, -1, 0)):
        out.append(("crafted", "con-req:%d:%d:%d" % d, None))
    for k in (1, 2, 3):
        out.append(("crafted", "data-beyond:%d" % k, None))
    for target in "cs":
        for d in ((-1, 0, 0), (0, -1, 0), (0, 0, -1), (-1, -1, -1), (-3, -2, 0)):
            out.append(("crafted", "late-syn:%s:%d:%d:%d" % ((target,) + d), None))
    lt3 = [(3, 0x0F, 0), (6, 0xFFFFFF, 1), (0, 0, 3), (4, 0xF0, 2)]
    for c in lt3:
        for s_ in lt3:
            out.append(("lite", c, s_))
    # ONE long-lived server visited one after another from the SAME (ip, port) by clients of different protocol versions
    for srv, vis in c06_sameaddr.sequences(rng, quick):
        out.append(("sameaddr", vis, srv))
    # crafted acks arriving while the SYN / CONNECT is outstanding (ahead of / behind / instead of the genuine ack, silent server)
    for spec in c06_race.specs(rng, quick):
        out.append(("race", spec, None))
    # a write fault at exactly the k-th transport write of the client / the server, every k of the handshake and a few beyond
    for spec in c06_wfault.specs(rng, quick):
        out.append(("wfault", spec, None))
    for k in ["syn-identity", "con-identity", "syn-sub+1", "syn-minor+1", "syn-extra-bit", "con-sub-1", "con-minor-1", "con-minor+1", "con-mask"]:
        out.append(("crafted", k, None))
    return out


def run(ctx):
    quick = ctx.tier == "quick"
    cs = cases(ctx.rng, quick)
    ctx.rule = ("handshakes between real endpoints for (minor 0..6) x (max substream 0..3) x (function mask in {0,1,0x0F,0xA5A5A5,0xFFFFFF}) "
                "for client and server (all 19600 pairs in the thorough tier; every triple on both sides + corners in quick), all 9 prudp.version "
                "pairs, lite (also with max_substream_id > 0 on either side), 9 + 52 crafted SYN/CONNECT acks (every combination of lowering / keeping / raising the three parameters; contradicting SYN acks sent to either side after the handshake; CONNECT requests altered to exceed the server's configuration; correctly signed DATA on a substream above the negotiated maximum), and sequences of 3..6 clients of different capabilities (weak ones first, v0 among them) visiting one "
                "dual-stack server port with interleaved handshakes (each must negotiate the meet of its own and the server's configuration); "
                "sequences of 2..6 visitors of different prudp.version (every sequence over {v0, v1} up to length 3 in quick, over {0,1,2} up to 3 and {0,1} of length 4 in thorough, longer ones drawn) "
                "one after another from the SAME (ip, port) on one long-lived server (version 2, also 0 and 1 with incompatible visitors in between; visits whose CONNECTs are all lost; a few visits from other addresses), the server transport replayed through the L1 model; "
                "correctly signed SYN acks exceeding the offer (19 combinations) / CONNECT acks contradicting the agreement (26) arriving WHILE the SYN / CONNECT is outstanding: "
                "1..3 copies ahead of the genuine ack, behind it, in place of its lost first copy, or from a server that then falls silent, over udp and lite, resend_limit 0..3 "
                "(the handshake completes with min/min/AND and working substreams, or fails with the connection error within (resend_limit+1)*resend_timeout - never half-open); write faults at exactly the k-th transport write of the client / the server (k = 1..5 in quick, up to 9 in thorough; SYN, CONNECT, SYN ack, CONNECT ack "
                "and the first packets after the handshake): a udp socket raising Broken/ClosedResourceError (server also OSError) at that write only or from it on, "
                "for v0/v1 clients at v0/v1/dual-stack servers; a lite connection reset at that write or closed by the peer right after it; oracle: connect() returns only if at that instant the server "
                "holds the connection and both ends report min/min/AND, otherwise it fails cleanly within the retransmission budget, a transient fault of the server's answers is healed by retransmission, and a send() begun after "
                "a connection's write failed raises; each UDP session is replayed through the Lean L1 model (every datagram byte- and "
                "tick-exact); distinct non-trivial = distinct (kind, client, server) configurations")
    jobs = [(i, k, c, s, ctx.rng.getrandbits(32)) for i, (k, c, s) in enumerate(cs)]
    drv = ctx.driver("C02")
    ndiff, first = 0, None
    with multiprocessing.Pool(min(16, os.cpu_count() or 4)) as pool:
        for idx, kind, c, s, seed, bad, sess, err in pool.imap_unordered(work, jobs, chunksize=8):
            if err:
                ctx.corr_break("c06-session-harness", "session crashed in the harness", {"traceback": err, "case": [kind, c, s]})
                continue
            for what in bad:
                ctx.violation("c06:%s:%s:%s" % (kind, c, s), what, {"kind": kind, "client": c, "server": s, "seed": seed,
                              "how": "harness/corr_C06.py work((0, kind, client, server, seed))"})
            for t in (getattr(sess, "c06_tags", None) or []):
                ctx.tag(t)
            if sess is not None and kind == "wfault":
                how = getattr(sess, "c06_replay", None)
                if how == "udp":
                    r = l1_corr.compare(drv, sess, "x")
                    ctx.tag("wfault:l1-replay")
                elif how == "lite":
                    r = l1_stream.compare(drv, sess, "x")
                    if not r.get("skipped"):
                        ctx.tag("l1-stream-replay"); ctx.tag("wfault:l1-replay")
                else:
                    r = {"ok": True, "diffs": [], "skipped": True}
            elif sess is not None and kind == "sameaddr":
                r = c06_sameaddr.l1_compare(drv, sess)       # the SERVER transport of the whole visitor sequence through the L1 model
            elif sess is not None and (kind in ("grid", "versions", "crafted") or (kind == "race" and sess.cfg.transport == "udp")):
                r = l1_corr.compare(drv, sess, "x")
            elif sess is not None and kind in ("lite", "race") and getattr(getattr(sess, "cfg", None), "transport", "udp") == "lite":
                r = l1_stream.compare(drv, sess, "x")        # stream transports: replayed from the stream reads / writes (harness/l1_stream.py)
                if not r.get("skipped"):
                    ctx.tag("l1-stream-replay")
            else:
                r = {"ok": True, "diffs": [], "skipped": True}
            if not r["ok"]:
                ndiff += 1
                if first is None:
                    first = {"case": [kind, c, s], "seed": seed, "diff": r["diffs"][0]}
            ctx.traces_validated += 0 if r.get("skipped") else 1
            for o in (r.get("est") or []):
                # `establishedB` on the two model endpoints after this replayed handshake, per substream "<sub>:<c->s><s->c>" (l1_corr.compare)
                ctx.extra["established_probes"] = ctx.extra.get("established_probes", 0) + 1
                ctx.extra["established_probe_substreams"] = ctx.extra.get("established_probe_substreams", 0) + len(o.split(" ")) - 1
                if all(w.endswith(":11") for w in o.split(" ")[1:]):
                    ctx.extra["established_probes_all_hold"] = ctx.extra.get("established_probes_all_hold", 0) + 1
            ctx.case(key=(kind, c, s), nontrivial=True, tag=kind,
                     sample={"kind": kind, "client": c, "server": s, "model_lines": r.get("lines")} if idx % 331 == 0 else None)
    ctx.exhaustive = not quick
    ctx.extra["l1_session_diffs"] = ndiff
    if ndiff and not ctx.violations:
        ctx.corr_break("l1-endpoint-correspondence", "real endpoints and the Lean L1 model disagree in %d handshake sessions" % ndiff,
                       dict(first, theorems_no_longer_tied=["Nx.C06.*"]))
    elif ndiff:
        ctx.extra["first_l1_diff"] = first
