"""C10 — each remote call gets its own response, whatever the interleaving.

Tie: the real `RMCClient` (request/start/cleanup/close/disconnect) runs scripted scenarios over a fake
PRUDP client object inside an anyio task group (harness/rmc_client_sim.py); the op log of every run is
replayed through the compiled Lean model (`nxdrv_C10`), which must predict the call id of every request,
every call's outcome, every "invalid call id" warning and the final white-box state
(`call_id`, `closed`, keys of `requests`/`responses`, which calls still hang).
Oracle on the real code = the property itself, evaluated on the log by `oracle()`: by call id (the first response
carrying the id of a call's request is the call's), and — for scenarios whose peer answers *request messages*
(`["ans", task, ...]`, one-way requests included) — by addressee (`oracle_addressed`: a call completes with the answer
the peer gave to its own request, never with the answer to another request).
Clients started with protocol servers (`RMCClient.start(servers)`): the logout hooks' entries, returns and raises are
log lines / marks that the extended model (NxModel/Nex/RmcClientX.lean) must predict, as well as how cleanup() ended.
"""
import itertools, struct, multiprocessing, os
import rmc_client_sim as R

LEVEL = "proof"
M32 = 0xFFFFFFFF


# ---------------------------------------------------------------- scenario construction
def mk(n, perm, kinds, close_pos, close_kind, ypol, rng, start_id=1, extras=None, noresp=(), send_yields=None,
       late=None, after_close_calls=0, first_yield=1, fam="", addressed=False, servers=None, spawn_close=0,
       second_close=None):
    """n calls; responses delivered in the order `perm` (indices of calls); `extras[j]` = extra steps
    inserted before the j-th response (j = n: after the last); close after `close_pos` responses.
    addressed: the peer answers *request messages* (["ans", task, ...]: the response echoes whatever call id the
    request of that task carried, one-way requests included) instead of sending responses with ids computed here.
    servers: logout hooks of the protocol servers the client is started with; second_close: another closure
    (of any kind) right after the first one's yields."""
    steps = []
    late = late or {}
    order = [k for k in range(n) if k not in late]
    # ids in registration order: callers are started FIFO and each runs up to its send before the next
    ids = {}
    tasknum = {}
    nxt = start_id
    def alloc(k):
        nonlocal nxt
        ids[k] = nxt
        nxt = (nxt + 1) & M32
    def started(k):
        tasknum[k] = len(tasknum)
    def y():
        c = ypol(rng)
        if c: steps.append(["yield", c])
    for k in order:
        steps.append(["start", 1 if k in noresp else 0, (send_yields or {}).get(k, 0)])
        alloc(k); started(k)
    if first_yield: steps.append(["yield", first_yield])
    serial = {}
    def resp(k, kind):
        s = serial.get(k, 0); serial[k] = s + 1
        if addressed:
            return ["ans", tasknum[k], "ok" if kind == "ok-empty" else kind, s]
        return ["resp", ids[k], kind, s]
    closed = False
    def do_close():
        nonlocal closed
        if close_kind and not closed:
            steps.append([close_kind]); closed = True
            y()
            if second_close:
                steps.append([second_close]); y()
    for j in range(n + 1):
        if j == close_pos: do_close()
        for k, pos in late.items():
            if pos == j:
                steps.append(["start", 1 if k in noresp else 0, (send_yields or {}).get(k, 0)])
                if not closed: alloc(k)
                started(k)
                steps.append(["yield", 1])
        for e in (extras or {}).get(j, []):
            if e[0] == "dup":         # another response for call e[1]
                if e[1] in ids: steps.append(resp(e[1], e[2]))
            elif e[0] == "unknown":
                steps.append(["resp", e[1] & M32, e[2], 9])
            elif e[0] == "nextid":    # the id the next call would get
                steps.append(["resp", nxt, "ok", 9])
            elif e[0] == "req":
                steps.append(["req", e[1], 3, e[2]])
            elif e[0] == "raw":
                steps.append(["raw", e[1]])
            y()
        if j < n:
            k = perm[j]
            if k in ids:
                steps.append(resp(k, kinds[k]))
                y()
    for _ in range(after_close_calls):
        steps.append(["start", 0, 0]); steps.append(["yield", 1])
    sc = {"start_id": start_id, "steps": steps, "fam": fam}
    if addressed: sc["addressed"] = 1
    if servers: sc["servers"] = servers
    if spawn_close: sc["spawn_close"] = 1
    return sc


def y1(rng): return 1
def y2(rng): return 2
def ybatch(rng): return 0
def yrand(rng): return rng.choice([0, 0, 1, 1, 2, 3])
YP = {"y1": y1, "batch": ybatch, "rand": yrand, "y2": y2}
CLOSE_KINDS = ["eof", "close", "disconnect", "cleanup"]


def rkinds(rng, n):
    return [rng.choice(["ok", "ok", "err", "err", "ok-empty", "err-nobit"]) for _ in range(n)]


def akinds(rng, n):
    return [rng.choice(["ok", "ok", "err", "err", "err-nobit"]) for _ in range(n)]


# what a protocol server's logout(client) hook may do (see rmc_client_sim.FakeServer)
HOOKS = [["ret"], ["yret", 1], ["yret", 3], ["raise"], ["yraise", 2], ["idle"], ["forever"]]


def gen_scenarios(ctx):
    rng, quick = ctx.rng, ctx.tier == "quick"
    out = []
    # F1: exhaustive: every permutation of the response order for 1..5 calls x closure after every prefix x every
    #     closure kind (+ no closure), under three scheduling policies
    for n in range(1, 6):
        for perm in itertools.permutations(range(n)):
            for yp in ("y1", "batch", "rand"):
                out.append(mk(n, perm, rkinds(rng, n), None, None, YP[yp], rng, fam="perm%d:none:%s" % (n, yp)))
                for pos in range(n + 1):
                    for ck in CLOSE_KINDS:
                        out.append(mk(n, perm, rkinds(rng, n), pos, ck, YP[yp], rng, fam="perm%d:%s:%s" % (n, ck, yp)))
    # F2: 6 calls: sampled permutations (all 720 in thorough)
    perms6 = list(itertools.permutations(range(6)))
    if quick: perms6 = rng.sample(perms6, 150)
    for perm in perms6:
        out.append(mk(6, perm, rkinds(rng, 6), None, None, yrand, rng, fam="perm6:none"))
        for pos in (range(7) if not quick else [rng.randrange(7)]):
            out.append(mk(6, perm, rkinds(rng, 6), pos, rng.choice(CLOSE_KINDS), yrand, rng, fam="perm6:close"))
    # F3: duplicates / unknown ids / stray requests at every position of every permutation of 1..4 calls
    for n in range(1, 5):
        for perm in itertools.permutations(range(n)):
            for j in range(n + 1):
                exs = [("unknown", 0, "ok"), ("unknown", 999999, "err"), ("unknown", M32, "ok"), ("nextid",), ("req", 10, 77)]
                for k in range(n):
                    exs.append(("dup", k, rng.choice(["ok", "err"])))   # early (wins), or late (dropped) depending on j
                for ex in exs:
                    for yp in ("y1", "batch"):
                        ck = rng.choice([None, None] + CLOSE_KINDS)
                        out.append(mk(n, perm, rkinds(rng, n), n if ck else None, ck, YP[yp], rng, extras={j: [ex]},
                                      fam="extra:%s%s" % (ex[0], "" if ex[0] != "dup" else (":late" if k_delivered(perm, j, ex[1]) else ":early"))))
    # F4: mixed random: late calls, noresponse calls, slow sends, calls after closure, several extras
    for _ in range(1500 if quick else 150000):
        n = rng.randint(1, 6)
        perm = list(range(n)); rng.shuffle(perm)
        noresp = {k for k in range(n) if rng.random() < 0.2}
        late = {k: rng.randint(0, n) for k in range(n) if rng.random() < 0.3}
        sy = {k: rng.randint(1, 3) for k in range(n) if rng.random() < 0.3}
        extras = {}
        for _ in range(rng.choice([0, 0, 1, 2, 3])):
            j = rng.randint(0, n)
            ex = rng.choice([("unknown", rng.choice([0, 7, 100, M32, 0x80000000]), rng.choice(["ok", "err"])), ("nextid",),
                             ("req", rng.choice([10, 0x7F, 0x123]), rng.randrange(1 << 32)), ("dup", rng.randrange(n), rng.choice(["ok", "err", "ok-empty", "err-nobit"]))])
            extras.setdefault(j, []).append(ex)
        ck = rng.choice([None] + CLOSE_KINDS)
        adr = rng.random() < 0.5     # the peer answers request messages (echoing their ids) / sends ids computed here
        out.append(mk(n, perm, rkinds(rng, n), rng.randint(0, n) if ck else None, ck, yrand, rng, extras=extras, noresp=noresp,
                      late=late, send_yields=sy, after_close_calls=rng.choice([0, 0, 1, 2]) if ck else 0,
                      first_yield=rng.choice([1, 1, 1, 2, 0]), addressed=adr, spawn_close=int(rng.random() < 0.25),
                      fam="mixed:addressed" if adr else "mixed"))
    # F5: the call id counter wraps
    for start in (0xFFFFFFFE, 0xFFFFFFFF, 0, 0xFFFFFFFD):
        for n in range(1, 5):
            for perm in itertools.permutations(range(n)):
                ck = rng.choice([None] + CLOSE_KINDS)
                out.append(mk(n, perm, rkinds(rng, n), rng.randint(0, n) if ck else None, ck, rng.choice([y1, ybatch, yrand]), rng,
                              start_id=start, fam="wrap"))
    # F6: a datagram that does not parse ends the receive loop (outside C10's quantifier; the owner's
    #     `async with client` then cleans up) — the model must agree on who is released and how
    for n in range(1, 4):
        for raw in ("-", "00", "0500000001", "0a0000000a0107000000018000"):
            for ck in ("cleanup", "close"):
                out.append(mk(n, list(range(n)), rkinds(rng, n), 1, ck, y1, rng, extras={1: [("raw", raw)]}, fam="malformed"))
    out += gen_oneway(ctx)
    out += gen_servers(ctx)
    return out


def gen_oneway(ctx):
    """F7: one-way requests (noresponse=True) mixed with ordinary calls at every position of the request sequence; the
    peer answers EVERY request message it received, one-way ones included (as the library's own server does for an
    unregistered protocol), with success or error, in every order; plus one request issued late / a closure."""
    rng, quick = ctx.rng, ctx.tier == "quick"
    out = []
    def family(n, mask, perm):
        noresp = {k for k in range(n) if mask[k]}
        for yp in ("y1", "batch"):
            out.append(mk(n, perm, akinds(rng, n), None, None, YP[yp], rng, noresp=noresp, addressed=True, fam="oneway%d:%s" % (n, yp)))
        # one request issued only after j answers have been sent; sometimes a closure; sometimes slow sends
        k, j = rng.randrange(n), rng.randint(0, n)
        ck = rng.choice([None, None] + CLOSE_KINDS)
        sy = {q: rng.randint(1, 2) for q in range(n) if rng.random() < 0.2}
        out.append(mk(n, perm, akinds(rng, n), rng.randint(0, n) if ck else None, ck, yrand, rng, noresp=noresp, late={k: j},
                      send_yields=sy, addressed=True, fam="oneway%d:late" % n))
    for n in range(1, 5 if quick else 6):
        for mask in itertools.product((0, 1), repeat=n):
            if any(mask):
                for perm in itertools.permutations(range(n)):
                    family(n, mask, perm)
    for n, cnt in ((5, 250), (6, 150)) if quick else ((6, 20000),):
        for _ in range(cnt):
            mask = [int(rng.random() < 0.4) for _ in range(n)]
            if not any(mask): mask[rng.randrange(n)] = 1
            perm = list(range(n)); rng.shuffle(perm)
            family(n, mask, perm)
    # the counter wraps while one-way requests are mixed in
    for start in (0xFFFFFFFE, 0xFFFFFFFF):
        for mask in itertools.product((0, 1), repeat=3):
            for perm in itertools.permutations(range(3)):
                out.append(mk(3, perm, akinds(rng, 3), None, None, y1, rng, start_id=start, noresp={k for k in range(3) if mask[k]},
                              addressed=True, fam="oneway:wrap"))
    return out


def gen_servers(ctx):
    """F8: the client is started with protocol servers (RMCClient.start(servers)) whose logout hooks return at once, return
    after a while, return only when no call is outstanding any more, never return, or raise; the connection is closed
    in every way (peer EOF, close(), disconnect(), leaving `async with`) after every prefix of every response order,
    each closure running in a task of its own, calls outstanding."""
    rng, quick = ctx.rng, ctx.tier == "quick"
    out = []
    for n in range(1, 4 if quick else 5):
        for perm in itertools.permutations(range(n)):
            for pos in range(n + 1):
                for ck in CLOSE_KINDS:
                    confs = [[h] for h in HOOKS]
                    if quick:
                        confs += [[rng.choice(HOOKS) for _ in range(rng.choice([2, 2, 3]))] for _ in range(2)]
                    else:
                        confs += [[a, b] for a in HOOKS for b in HOOKS]
                    for servers in confs:
                        second = rng.choice([None, None, None] + CLOSE_KINDS)
                        adr = rng.random() < 0.5
                        out.append(mk(n, perm, akinds(rng, n) if adr else rkinds(rng, n), pos, ck, rng.choice([y1, y1, ybatch, yrand]), rng,
                                      noresp={k for k in range(n) if rng.random() < 0.1},
                                      send_yields={k: rng.randint(1, 3) for k in range(n) if rng.random() < 0.15},
                                      after_close_calls=rng.choice([0, 0, 1]), addressed=adr, servers=servers, spawn_close=1,
                                      second_close=second, fam="servers:%s:%s" % (ck, "+".join(h[0] for h in servers) if len(servers) == 1 else "multi")))
    return out


def k_delivered(perm, j, k):
    return k in perm[:j]


# ---------------------------------------------------------------- property oracle on the real run
def parse_resp(data):
    """independent reader of a response datagram (protocol id < 0x7F only): -> (call_id, outcome string) or None"""
    if len(data) < 6: return None
    (ln,) = struct.unpack_from("<I", data)
    p = data[4:]
    if ln != len(p) or p[0] & 0x80 or (p[0] & 0x7F) == 0x7F: return None
    if p[1]:
        if len(p) < 10: return None
        return struct.unpack_from("<I", p, 2)[0], "body " + R.hx(p[10:])
    if len(p) != 10: return None
    code, cid = struct.unpack_from("<II", p, 2)
    return cid, "rmc %d" % (code | 0x80000000)


def oracle(sim):
    """the property, judged on the real run only. returns [(key, why)]"""
    log = sim.oplog
    bad = []
    closed_at = next((i for i, l in enumerate(log) if l in ("eof", "cleanup")), None)
    crash_at = next((i for i, l in enumerate(log) if l == "loopcrash"), None)
    end = len(log)
    waiting = [c for c in sim.callers if c["sent_id"] is not None and not c["noresp"]]
    # H-ids: calls outstanding at the same time carry distinct ids (else the property's premise fails)
    for a in waiting:
        for b in waiting:
            if a is not b and a["sent_id"] == b["sent_id"]:
                a_end = a["done_at"] if a["outcome"] is not None else end
                if b["call_at"] <= a_end and a["call_at"] <= (b["done_at"] if b["outcome"] is not None else end):
                    return []
    for c in sim.callers:
        t = c["task"]
        if c["sent_id"] is None:
            if c["outcome"] is None:
                bad.append(("hang-at-entry", "task %d never completed although request() had not even sent" % t))
            elif not (c["outcome"] == "closed" and closed_at is not None and closed_at < c["call_at"]):
                bad.append(("entry", "task %d: request() ended with %r before sending (closed_at=%r)" % (t, c["outcome"], closed_at)))
            continue
        if closed_at is not None and closed_at < c["call_at"]:
            bad.append(("sent-after-close", "task %d sent a request although the client was closed" % t))
        if c["noresp"]:
            if c["outcome"] != "none":
                bad.append(("noresponse", "task %d (noresponse) ended with %r" % (t, c["outcome"])))
            continue
        stop = c["done_at"] if c["outcome"] is not None else end
        first = None
        for i in range(c["call_at"] + 1, stop):
            if log[i].startswith("recv ") and (crash_at is None or i < crash_at):
                h = log[i][5:]
                r = parse_resp(bytes.fromhex(h) if h != "-" else b"")
                if r and r[0] == c["sent_id"]:
                    first = r[1]; break
        if c["outcome"] is None:
            if closed_at is not None:
                how = "peer EOF" if log[closed_at] == "eof" else "/".join(sorted({r[0] for r in sim.final.get("closures", [])})) + "()"
                srv = sim.sc.get("servers")
                bad.append(("hang-after-close", "task %d (call id %d) still hangs although the connection closed at op %d (%s)%s" % (
                    t, c["sent_id"], closed_at, how,
                    "; client started with %d server(s) whose logout hooks are %r, cleanup() is %s" % (len(srv), srv, sim.final.get("cleanup_status")) if srv else "")))
            elif first is not None:
                bad.append(("hang-answered", "task %d (call id %d) still hangs although its response arrived" % (t, c["sent_id"])))
        elif c["outcome"] == "closed":
            if closed_at is None or closed_at > c["done_at"]:
                bad.append(("spurious-closed", "task %d raised 'closed' but nothing closed the connection" % t))
        else:
            if first is None:
                bad.append(("cross-talk", "task %d (call id %d) got %r but no response with its id had arrived" % (t, c["sent_id"], c["outcome"])))
            elif first != c["outcome"]:
                bad.append(("wrong-response", "task %d (call id %d) got %r, the first response carrying its id was %r" % (t, c["sent_id"], c["outcome"], first)))
            if closed_at is not None and closed_at < c["done_at"]:
                bad.append(("returned-after-close", "task %d returned %r after the connection had closed" % (t, c["outcome"])))
    if sim.sc.get("addressed"):
        bad += oracle_addressed(sim, crash_at)
    return bad


def oracle_addressed(sim, crash_at):
    """scenarios whose peer answers request messages (["ans", task, ...]): every datagram that answers a request is tagged
    with the task that sent that request. A call must complete with the first answer the peer gave to ITS OWN request —
    never with the answer to another request (another call's, or a one-way request's: that one is unsolicited for every caller)."""
    log, bad = sim.oplog, []
    addr = {int(k): v for k, v in sim.recv_addr.items()}
    def outcome_at(i):
        h = log[i][5:]
        r = parse_resp(bytes.fromhex(h) if h != "-" else b"")
        return r[1] if r else None
    def describe(t):
        c = sim.callers[t]
        return "task %d's %srequest (call id %r)" % (t, "ONE-WAY " if c["noresp"] else "", c["sent_id"])
    for c in sim.callers:
        if c["sent_id"] is None or c["noresp"] or c["outcome"] in (None, "closed"): continue
        t = c["task"]
        own = next((i for i in range(c["call_at"] + 1, c["done_at"]) if addr.get(i) == t and (crash_at is None or i < crash_at)), None)
        want = outcome_at(own) if own is not None else None
        if c["outcome"] == want: continue
        src = next((i for i in range(0, c["done_at"]) if i in addr and addr[i] != t and outcome_at(i) == c["outcome"]), None)
        seq = ", ".join("%s(task %d, id %r)" % ("oneway" if q["noresp"] else "call", q["task"], q["sent_id"]) for q in sim.callers)
        if src is not None:
            bad.append(("not-own-response", "task %d (call id %d) completed with %r, which is the answer the peer gave to %s; the answer to its own "
                        "request %s. Requests in order: %s" % (t, c["sent_id"], c["outcome"], describe(addr[src]),
                                                              "was %r" % want if want else "had not arrived", seq)))
        else:
            bad.append(("not-own-response", "task %d (call id %d) completed with %r; the first answer the peer gave to its request %s. Requests in order: %s"
                        % (t, c["sent_id"], c["outcome"], "was %r" % want if want else "had not arrived", seq)))
    return bad


# ---------------------------------------------------------------- model replay
def model_lines(sim):
    lines = ["new %d %d" % (sim.sc.get("start_id", 1), len(sim.sc.get("servers", [])))]
    for l in sim.oplog:
        if l == "loopcrash": continue
        lines.append(l)
    lines.append("dump")
    lines.append("xdump")
    return lines


def compare(sim, outs):
    """returns list of (what, detail) differences between the real run and the model's prediction"""
    diffs = []
    log = [l for l in sim.oplog if l != "loopcrash"]
    idx_map = [i for i, l in enumerate(sim.oplog) if l != "loopcrash"]
    callers = sim.callers
    flags = set()
    hooks_real = {}
    for idx, srv in sim.hook_entries:
        hooks_real.setdefault(idx, []).append(srv)
    for pos, (l, o) in enumerate(zip(log, outs[1:-2])):
        parts = o.split(" ")
        while parts and parts[-1] in ("SPECDIFF", "H-IDS-BROKEN"):
            flags.add(parts.pop())
        o = " ".join(parts)
        items = [] if o == "-" else o.split(";")
        # logout hooks entered during this atomic section
        model_hooks = [int(x.split(" ")[1]) for x in items if x.startswith("logout ")]
        if model_hooks != hooks_real.get(idx_map[pos], []):
            diffs.append(("logout-hooks", "%s: model enters hooks %r, real %r" % (l[:40], model_hooks, hooks_real.get(idx_map[pos], []))))
        if l in ("hookret", "hookraise") and "nohook" in items:
            diffs.append(("hook", "%s although no logout hook is executing in the model" % l))
        if l.startswith("call "):
            sent = [x for x in items if x.startswith("sent ")]
            done = [x for x in items if x.startswith("done ")]
            t = int((sent or done or ["x -1"])[0].split(" ")[1])
            if t < 0 or t >= len(callers): diffs.append(("call", "%s -> %s" % (l, o))); continue
            c = callers[t]
            msent = int(sent[0].split(" ")[2]) if sent else None
            if msent != c["sent_id"]:
                diffs.append(("call-id", "task %d: model says id %r, real request carried %r" % (t, msent, c["sent_id"])))
            if done:
                want = done[0].split(" ", 2)[2]
                if c["outcome"] != want:
                    diffs.append(("outcome", "task %d: model %r real %r" % (t, want, c["outcome"])))
        elif l.startswith("recv "):
            real_warn = sim.warn_after.get(idx_map[pos], 0)
            model_warn = sum(1 for x in items if x.startswith("warn "))
            crashed = o.startswith("crash")
            real_crash = idx_map[pos] + 1 < len(sim.oplog) and sim.oplog[idx_map[pos] + 1] == "loopcrash"
            if crashed != real_crash:
                diffs.append(("loop-crash", "%s: model %r real crash=%r" % (l[:60], o, real_crash)))
            if real_warn != model_warn:
                diffs.append(("warn", "%s: model %r, real warnings %d" % (l[:60], o, real_warn)))
        elif l.startswith("wake "):
            t = int(l.split(" ")[1])
            want = o.split(" ", 2)[2] if o.startswith("done ") else o
            if callers[t]["outcome"] != want:
                diffs.append(("outcome", "task %d: model %r real %r" % (t, want, callers[t]["outcome"])))
    # final state
    f = sim.final
    d = outs[-2]
    xreal = "cleanup=" + f["cleanup_status"]
    if not outs[-1].endswith(" " + xreal):
        diffs.append(("cleanup-status", "model %r real %r (closures %r, loop %r)" % (outs[-1], xreal, f["closures"], f["loop"])))
    frames = d[d.index("frames=[") + 8:-1].split(" ") if not d.endswith("frames=[]") else []
    hung_model = sorted(int(x.split(":")[0]) for x in frames)
    ready_model = sorted(int(x.split(":")[0]) for x in frames if x.endswith(":1"))
    real = "state next=%d tasks=%d closed=%d requests=[%s] responses=[%s]" % (
        f["next"], len(callers), f["closed"], ",".join(map(str, f["requests"])), ",".join(map(str, f["responses"])))
    if not d.startswith(real + " frames="):
        diffs.append(("state", "model %r real %r" % (d, real)))
    if hung_model != sorted(f["hung"]):
        diffs.append(("hung", "model frames %r real unfinished %r" % (frames, f["hung"])))
    if ready_model:
        diffs.append(("not-woken", "tasks %r have their event set (model) but never resumed" % ready_model))
    return diffs, flags


def _work(chunk):
    sims = R.run_many(chunk)
    res = []
    for sim in sims:
        res.append({"oplog": sim.oplog, "callers": sim.callers, "final": sim.final, "warn_after": sim.warn_after, "sc": sim.sc,
                    "recv_addr": sim.recv_addr, "hook_entries": sim.hook_entries})
    return res


class _S:  # light view of a finished run
    def __init__(self, d): self.__dict__.update(d)


def run_real(scs, par):
    if par <= 1 or len(scs) < 2000:
        return [_S(d) for d in _work(scs)]
    chunks = [scs[i:i + 1000] for i in range(0, len(scs), 1000)]
    with multiprocessing.get_context("fork").Pool(par) as pool:
        parts = pool.map(_work, chunks)
    return [_S(d) for p in parts for d in p]


def judge(ctx, sims, drv):
    lines, spans = [], []
    for sim in sims:
        ml = model_lines(sim)
        spans.append((len(lines), len(lines) + len(ml)))
        lines += ml
    outs = drv.batch(lines)
    n_diff = 0
    first_diff = None
    worst = {}      # violation key -> (size of the scenario, what, replay): the smallest failing scenario is reported
    for sim, (a, b) in zip(sims, spans):
        o = outs[a:b]
        diffs, flags = compare(sim, o)
        bad = oracle(sim)
        fam = sim.sc.get("fam", "")
        kinds = sorted({(c["outcome"] or "hung").split(" ")[0] for c in sim.callers})
        ctx.case(key=repr(sim.sc["steps"]) + str(sim.sc.get("start_id")), nontrivial=len(sim.callers) > 0,
                 tag="fam=" + fam.split(":")[0], sample={"scenario": sim.sc, "oplog": sim.oplog, "model": o} if ctx.evaluations % 3989 == 0 else None)
        for k in kinds: ctx.tag("outcome=" + k)
        for x in o[1:-2]:
            for it in x.replace(" SPECDIFF", "").replace(" H-IDS-BROKEN", "").split(";"):
                ctx.tag("model:" + it.split(" ")[0] + (":" + it.split(" ")[2] if it.startswith("done ") else ""))
        if "H-IDS-BROKEN" in flags: ctx.tag("h-ids-broken")
        if "SPECDIFF" in flags and "H-IDS-BROKEN" not in flags:
            ctx.corr_break("C10_refines_spec-at-runtime", "the compiled model and the compiled specification disagree although live ids are distinct",
                           {"scenario": sim.sc, "oplog": sim.oplog, "model": o})
        for key, why in bad:
            size = (len(sim.callers), len(sim.sc["steps"]))
            if key not in worst or size < worst[key][0]:
                worst[key] = (size, "RMCClient: " + why,
                              {"scenario": sim.sc, "oplog": sim.oplog, "callers": [{k: (v.hex() if isinstance(v, bytes) else v) for k, v in c.items()} for c in sim.callers],
                               "final": sim.final, "model": o, "model_diffs": diffs,
                               "how": "harness/corr_C10.py replay(): rmc_client_sim.run_many([scenario]) then oracle()"})
        if diffs:
            n_diff += 1
            if first_diff is None: first_diff = (sim, o, diffs)
    for key in sorted(worst):
        ctx.violation("c10:" + key, worst[key][1], worst[key][2])
    return n_diff, first_diff, len(lines)


def run(ctx):
    ctx.rule = ("scenarios = scripted peers/closers around the real RMCClient: 1..6 concurrent request() tasks, every permutation of the "
                "response order for 1..5 calls (6: sampled in quick, all 720 in thorough) x closure after every prefix x eof/close/disconnect/__aexit__, "
                "duplicate / unknown-id / stray-request datagrams at every position of every permutation of 1..4 calls, random mixes with late calls, "
                "noresponse calls, slow sends, calls after closure, call-id wrap-around; three scheduling policies; one-way requests at every position of "
                "1..4 requests (5: thorough; 5-6 sampled) with a peer answering every request message, one-way included, in every order (success/error), "
                "plus a late request / closure / wrap; clients started with 1..3 protocol servers whose logout hooks return, return late, wait until no "
                "call is outstanding, never return or raise x closure of every kind (each in its own task) after every prefix of every response order "
                "of 1..3 calls (4: thorough). Each run's op log is replayed through the Lean model; a case counts as distinct non-trivial per distinct "
                "scenario with at least one call")
    ctx.assumptions.append("anyio/asyncio wake a task whose Event was set and run the code between two awaits atomically (trusted runtime); "
                           "RMCClient.client.send does not raise while RMCClient.closed is false (send failures are not modelled)")
    scs = gen_scenarios(ctx)
    par = min(16, os.cpu_count() or 1)
    sims = run_real(scs, par if ctx.tier != "quick" else min(par, 8))
    drv = ctx.driver()
    n_diff, first, nlines = judge(ctx, sims, drv)
    ctx.traces_validated = len(sims)
    ctx.extra["scenarios"] = len(sims)
    ctx.extra["model_lines"] = nlines
    ctx.extra["scenarios_differing_from_model"] = n_diff
    ctx.extra["permutations_exhaustive_up_to"] = 5 if ctx.tier == "quick" else 6
    if n_diff and not ctx.violations and not ctx.known_hits:
        sim, o, diffs = first
        ctx.corr_break("rmcclient-model-correspondence", "real RMCClient and the Lean model disagree on %d of %d scenarios; first: %s" % (n_diff, len(sims), diffs[:3]),
                       {"scenario": sim.sc, "oplog": sim.oplog, "model": o, "diffs": diffs,
                        "theorems_no_longer_tied": ["Nx.C10.C10_refines_spec", "Nx.C10.close_wakes_all", "Nx.C10.no_cross_talk"]})


def replay(ctx, path):
    import json
    r = json.load(open(path))
    sims = run_real([r["scenario"]], 1)
    for sim in sims:
        print("\n".join(sim.oplog))
        for c in sim.callers: print(c)
        print(sim.final)
        bad = oracle(sim)
        for key, why in bad: print("VIOLATION", key, why)
        return 1 if bad else 0
