import NxModel.Nex.Streams
import NxModel.Crypto.Md5
/-!
# `nintendo/nex/kerberos.py` — key derivation, RC4 + HMAC-MD5 envelope, client / server tickets

The per-ticket randomness of version-1 server tickets (`secrets.token_bytes(16)`) is a parameter.
-/
namespace Nx.Nex.Kerberos
open Nx Nx.Nex Nx.Crypto

/-- `n`-fold MD5 (`for i in range(n): key = md5(key)`) -/
def md5Iter : Nat → Bytes → Bytes
  | 0, k => k
  | n + 1, k => md5Iter n (md5 k)

/-- `KeyDerivationOld(base_count, pid_count).derive_key(password, pid)`; `pid % 0` is `ZeroDivisionError` -/
def deriveOld (baseCount pidCount : Nat) (password : Bytes) (pid : Nat) : Except Err Bytes :=
  if pidCount = 0 then .error .other else .ok (md5Iter (baseCount + pid % pidCount) password)

/-- `KeyDerivationNew(base_count, pid_count).derive_key(password, pid)` -/
def deriveNew (baseCount pidCount : Nat) (password : Bytes) (pid : Nat) : Except Err Bytes := do
  let key := md5Iter baseCount password
  let p ← wU64 pid
  pure (md5Iter pidCount (key ++ p))

/-! ## envelope -/

/-- pycryptodome's `ARC4.new` accepts keys of 1..256 bytes -/
def rc4KeyOk (key : Bytes) : Bool := decide (1 ≤ key.length) && decide (key.length ≤ 256)

/-- `KerberosEncryption.check`: `buffer[:-16]`, `buffer[-16:]` -/
def body (buffer : Bytes) : Bytes := buffer.take (buffer.length - 16)
def tag (buffer : Bytes) : Bytes := buffer.drop (buffer.length - 16)
def check (key buffer : Bytes) : Bool := tag buffer == hmacMd5 key (body buffer)

/-- `KerberosEncryption.encrypt` -/
def encrypt (key data : Bytes) : Except Err Bytes :=
  if rc4KeyOk key then
    let e := rc4 key data
    .ok (e ++ hmacMd5 key e)
  else .error .value

/-- `KerberosEncryption.decrypt`: checksum first, only then the cipher -/
def decrypt (key buffer : Bytes) : Except Err Bytes :=
  if !check key buffer then .error .value
  else if rc4KeyOk key then .ok (rc4 key (body buffer))
  else .error .value

/-! ## tickets -/

structure Cfg where
  keySize : Nat
  pidSize : Nat
  ticketVersion : Nat
  deriving DecidableEq, Repr

structure ClientTicket where
  sessionKey : Bytes
  target : Nat
  internal : Bytes
  deriving DecidableEq, Repr

structure ServerTicket where
  timestamp : Nat      -- DateTime value
  source : Nat
  sessionKey : Bytes
  deriving DecidableEq, Repr

def clientPlain (c : Cfg) (t : ClientTicket) : Except Err Bytes := do
  if c.keySize ≠ t.sessionKey.length then throw .value
  let p ← wPid c.pidSize t.target
  let b ← wBuffer t.internal
  pure (t.sessionKey ++ p ++ b)

/-- `ClientTicket.encrypt(key, settings)` -/
def ClientTicket.encrypt (c : Cfg) (key : Bytes) (t : ClientTicket) : Except Err Bytes := do
  let d ← clientPlain c t
  Kerberos.encrypt key d

/-- `ClientTicket.decrypt(data, key, settings)`; bytes after the internal buffer are ignored -/
def ClientTicket.decrypt (c : Cfg) (key data : Bytes) : Except Err ClientTicket := do
  let d ← Kerberos.decrypt key data
  let (sk, r) ← rd c.keySize d
  let (target, r) ← rPid c.pidSize r
  let (internal, _) ← rBuffer r
  pure ⟨sk, target, internal⟩

def serverPlain (c : Cfg) (t : ServerTicket) : Except Err Bytes := do
  let ts ← wDateTime t.timestamp
  let p ← wPid c.pidSize t.source
  if t.sessionKey.length ≠ c.keySize then throw .value
  pure (ts ++ p ++ t.sessionKey)

/-- `ServerTicket.encrypt(key, settings)`; `ticketKey` = the 16 random bytes of a version-1 ticket -/
def ServerTicket.encrypt (c : Cfg) (key ticketKey : Bytes) (t : ServerTicket) : Except Err Bytes := do
  let d ← serverPlain c t
  if c.ticketVersion = 1 then
    let finalKey := md5 (key ++ ticketKey)
    let e ← Kerberos.encrypt finalKey d
    let a ← wBuffer ticketKey
    let b ← wBuffer e
    pure (a ++ b)
  else Kerberos.encrypt key d

/-- `ServerTicket.decrypt(data, key, settings)` -/
def ServerTicket.decrypt (c : Cfg) (key data : Bytes) : Except Err ServerTicket := do
  let (key, data) ←
    if c.ticketVersion = 1 then do
      let (ticketKey, r) ← rBuffer data
      let (d, _) ← rBuffer r
      pure (md5 (key ++ ticketKey), d)
    else pure (key, data)
  let d ← Kerberos.decrypt key data
  let (ts, r) ← rDateTime d
  let (source, r) ← rPid c.pidSize r
  let (sk, _) ← rd c.keySize r
  pure ⟨ts, source, sk⟩

end Nx.Nex.Kerberos
