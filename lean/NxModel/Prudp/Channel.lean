import NxModel.Bytes
/-!
# L2 — the reliable channel of one direction and one substream (no bytes-on-the-wire, no ports, no keys)

Mirrors the data path of `nintendo/nex/prudp.py`:
* `SequenceCounter.next`             → `seqNext`
* `SlidingWindow.update/skip`        → `Window.update`, `Window.drain`, `isDup` (modular compare, repo commit cd51b2b)
* `PRUDPClient.send` fragment loop   → `split`
* `process_reliable` reassembly      → `Reasm.absorb`
* RC4 per substream with a running position (`PayloadEncoder`) → `Cipher` (any position-indexed invertible map)

The L1 endpoint model (`Conn.lean`) calls these same functions, so what is proved here is proved about
the code path the correspondence ties to the implementation.
-/
namespace Nx.Chan
open Nx

/-- `SequenceCounter.next`: ids are 16 bit and wrap. -/
def seqNext (n : Nat) : Nat := (n + 1) % 65536

/-! ## SlidingWindow -/

/-- the dict `self.packets` (insertion ordered) -/
def lookup {α : Type} (k : Nat) : List (Nat × α) → Option α
  | [] => none
  | (k', v) :: t => if k' = k then some v else lookup k t

def erase {α : Type} (k : Nat) : List (Nat × α) → List (Nat × α)
  | [] => []
  | (k', v) :: t => if k' = k then erase k t else (k', v) :: erase k t

structure Window (α : Type) where
  next : Nat
  packets : List (Nat × α)
  deriving DecidableEq, Repr

/-- `(packet_id - self.next) & 0xFFFF >= 0x8000` for `packet_id, next ∈ [0, 65535]` -/
def isDup (next id : Nat) : Bool := decide ((id + 65536 - next) % 65536 ≥ 32768)

/-- `while self.next in self.packets: pop, append, skip` -/
def Window.drain {α : Type} : Nat → Window α → List α → Window α × List α
  | 0, w, acc => (w, acc)
  | fuel + 1, w, acc =>
    match lookup w.next w.packets with
    | none => (w, acc)
    | some p => Window.drain fuel { next := seqNext w.next, packets := erase w.next w.packets } (acc ++ [p])

/-- `SlidingWindow.update(packet)`: returns the new window and the packets released, in order. -/
def Window.update {α : Type} (w : Window α) (id : Nat) (p : α) : Window α × List α :=
  if isDup w.next id || (lookup id w.packets).isSome then (w, [])
  else
    let w' : Window α := { w with packets := w.packets ++ [(id, p)] }
    Window.drain w'.packets.length w' []

/-! ## fragmentation -/

structure Frag where
  fragId : Nat
  data : Bytes
  deriving DecidableEq, Repr

/-- the loop of `PRUDPClient.send`: `fragment_id = 1; while data: if len(data) <= size: fragment_id = 0; …` -/
def splitAux (size : Nat) : Nat → Bytes → Nat → List Frag
  | 0, _, _ => []
  | fuel + 1, data, fid =>
    if data.isEmpty then []
    else if data.length ≤ size then [⟨0, data.take size⟩]
    else ⟨fid, data.take size⟩ :: splitAux size fuel (data.drop size) (fid + 1)

def split (size : Nat) (data : Bytes) : List Frag := splitAux size (data.length + 1) data 1

structure Reasm where
  buf : Bytes
  out : List Bytes
  deriving DecidableEq, Repr

/-- `fragment_buffers[s] += payload; if fragment_id == 0: put(buffer); buffer = b""` -/
def Reasm.absorb (r : Reasm) (fragId : Nat) (data : Bytes) : Reasm :=
  let b := r.buf ++ data
  if fragId = 0 then { buf := [], out := r.out ++ [b] } else { buf := b, out := r.out }

/-! ## position-indexed cipher (RC4 = xor with `keystream[pos ..]`, optionally after compression) -/

structure Cipher where
  enc : Nat → Bytes → Bytes
  dec : Nat → Bytes → Bytes

/-! ## the channel -/

inductive Kind where
  | data (fragId : Nat)
  | ping
  | disconnect
  deriving DecidableEq, Repr

/-- a reliable packet as it travels -/
structure Wire where
  id : Nat
  kind : Kind
  cipher : Bytes
  deriving DecidableEq, Repr

structure Sender where
  nextId : Nat
  encPos : Nat
  log : List Wire          -- everything ever emitted (monotone history)
  sent : List Bytes        -- non-empty application messages passed to `send`, in order (incl. the one being sent)
  closing : Bool           -- `disconnect()` was called: later sends raise
  pending : List Frag := []   -- fragments of the message being sent that are still to be emitted (the loop of `send`)
  clean : Bool := true        -- ghost: `disconnect()` was called while no `send` was in progress
  deriving Repr

/-- what the receiving application side has (everything except the window) -/
structure Core where
  decPos : Nat
  reasm : Reasm
  closed : Bool            -- a DISCONNECT was released (`cleanup`)
  deriving DecidableEq, Repr

structure Receiver where
  win : Window Wire
  nrel : Nat               -- ghost: number of packets the window has released so far
  core : Core

structure Chan where
  s : Sender
  r : Receiver

inductive Op where
  | send (msg : Bytes)     -- `await client.send(msg, substream)` as one step (nothing else happens between its fragments)
  | begin (msg : Bytes)    -- the same call, fragment by fragment: it takes the substream's send lock and splits the message …
  | frag                   -- … and each turn of its loop emits one fragment; pings, disconnect and arrivals may fall in between
  | ping                   -- keep-alive (shares substream 0's counter; sent by the timer task without the send lock)
  | disconnect             -- graceful `disconnect()`: reliable DISCONNECT, later sends refused
  | arrive (j : Nat)       -- the network hands the receiver a copy of `log[j]` (any order, any number of times)
  deriving Repr

/-- the wires for a list of fragments, starting at id `id` and cipher position `pos` -/
def wiresOf (c : Cipher) : Nat → Nat → List Frag → List Wire
  | _, _, [] => []
  | id, pos, f :: fs =>
    let ct := if f.data.isEmpty then f.data else c.enc pos f.data
    ⟨id, .data f.fragId, ct⟩ :: wiresOf c (seqNext id) (pos + ct.length) fs

def wiresLen : List Wire → Nat
  | [] => 0
  | w :: ws => w.cipher.length + wiresLen ws

def iterSeq : Nat → Nat → Nat
  | 0, id => id
  | n + 1, id => iterSeq n (seqNext id)

def Sender.send (c : Cipher) (size : Nat) (s : Sender) (msg : Bytes) : Sender :=
  if s.closing || !s.pending.isEmpty then s else   -- closed: raises; another send holds the substream's lock: waits
  let ws := wiresOf c s.nextId s.encPos (split size msg)
  { s with nextId := iterSeq ws.length s.nextId, encPos := s.encPos + wiresLen ws, log := s.log ++ ws,
           sent := if msg.isEmpty then s.sent else s.sent ++ [msg] }

/-- `send` up to its fragment loop: state check, lock, `sent` grows (the application has passed the message) -/
def Sender.begin (size : Nat) (s : Sender) (msg : Bytes) : Sender :=
  if s.closing || !s.pending.isEmpty then s else
  { s with pending := split size msg, sent := if msg.isEmpty then s.sent else s.sent ++ [msg] }

/-- one turn of the fragment loop of `send` (it does not look at the connection state again: a `disconnect()` issued by
    another task in the meantime does not stop it) -/
def Sender.frag (c : Cipher) (s : Sender) : Sender :=
  match s.pending with
  | [] => s
  | f :: fs =>
    let ct := if f.data.isEmpty then f.data else c.enc s.encPos f.data
    { s with nextId := seqNext s.nextId, encPos := s.encPos + ct.length,
             log := s.log ++ [⟨s.nextId, .data f.fragId, ct⟩], pending := fs }

/-- the keep-alive timer keeps firing while DISCONNECTING: pings are emitted even after `disconnect()` -/
def Sender.ping (s : Sender) : Sender :=
  { s with nextId := seqNext s.nextId, log := s.log ++ [⟨s.nextId, .ping, []⟩] }

def Sender.disconnect (s : Sender) : Sender :=
  if s.closing then s else
  { s with nextId := seqNext s.nextId, log := s.log ++ [⟨s.nextId, .disconnect, []⟩], closing := true,
           clean := s.pending.isEmpty }

/-- process the released packets (`process_reliable`) -/
def Core.consume (c : Cipher) (r : Core) : List Wire → Core
  | [] => r
  | w :: ws =>
    if r.closed then r else
    match w.kind with
    | .data fid =>
      let pt := if w.cipher.isEmpty then w.cipher else c.dec r.decPos w.cipher
      Core.consume c { r with decPos := r.decPos + w.cipher.length, reasm := r.reasm.absorb fid pt } ws
    | .ping => Core.consume c r ws
    | .disconnect => { r with closed := true }

def Receiver.arrive (c : Cipher) (r : Receiver) (w : Wire) : Receiver :=
  if r.core.closed then r else
  let res := r.win.update w.id w
  { win := res.1, nrel := r.nrel + res.2.length, core := r.core.consume c res.2 }

def step (c : Cipher) (size : Nat) (ch : Chan) : Op → Chan
  | .send m => { ch with s := ch.s.send c size m }
  | .begin m => { ch with s := ch.s.begin size m }
  | .frag => { ch with s := ch.s.frag c }
  | .ping => { ch with s := ch.s.ping }
  | .disconnect => { ch with s := ch.s.disconnect }
  | .arrive j =>
    match ch.s.log[j]? with
    | none => ch
    | some w => { ch with r := ch.r.arrive c w }

def core0 : Core := { decPos := 0, reasm := ⟨[], []⟩, closed := false }

def init (start : Nat) : Chan :=
  { s := { nextId := start, encPos := 0, log := [], sent := [], closing := false },
    r := { win := { next := start, packets := [] }, nrel := 0, core := core0 } }

def run (c : Cipher) (size : Nat) (ch : Chan) (ops : List Op) : Chan := ops.foldl (step c size) ch

/-- the fault hypothesis under which 16-bit ids are unambiguous: every arriving copy is within half a window
    (2^15 packets) of the receiver's release point -/
def opOk (ch : Chan) : Op → Bool
  | .arrive j => decide (j < ch.r.nrel + 32768 ∧ ch.r.nrel < j + 32768) || decide (ch.s.log.length ≤ j)
  | _ => true

def runOk (c : Cipher) (size : Nat) : Chan → List Op → Bool
  | _, [] => true
  | ch, op :: ops => opOk ch op && runOk c size (step c size ch op) ops

end Nx.Chan
