"""C15 — state carried on ONE value object across a sequence of operations.

The round-trip laws of the property are quantified over *values*; a value that has been read, serialised,
logged, edited through its public mutators, copied or decoded-into is still such a value.  This module walks
single objects of every NEX value type that has mutators or could carry hidden state through random operation
sequences and demands, at every observation, exactly what a FRESHLY BUILT object with the same logical content
shows (the logical content is tracked by the harness in plain dicts/ints, never read back from the object):

  * StationURL: construct / parse / decode-from-stream, str/repr/format, typed reads, `url[k] = v`,
    `url.params[k] = v`, `url.params.pop`, `url.urlscheme = s`, copy(), re-parse, stream writes (single and in a
    list), and at the end of the walk the full text/stream/typed-access round trip; objects left behind by
    copy() must still show what they held.  Model: `ObjWalk.run` (driver op `url.walk`).
  * one StreamOut receiving several typed values (with get()/size()/tell() in between), one StreamIn yielding
    them; one Settings object shared by consecutive streams while its pid size changes.  Model: `ObjWalk.wSeq`,
    `rSeq` (driver ops `seq.w`, `seq.r`).
  * DateTime, Result, RMCError: every accessor / conversion / text form / stream write in random order on one
    object.  (No mutators: attributes are not assigned.)
  * Structure objects (ResultRange, a two-level hierarchy with versions, every default-constructible class
    registered with DataHolder) and DataHolder itself: encode, edit fields, encode again, decode into the SAME
    object, encode again, twice into one stream.  Model: `struct.w`, `any.w`, `holder.null`.

A failing walk is shrunk (operations removed while it still fails) before it is reported.
"""
import struct
from nintendo.nex import common, streams
import nexval_gen as G

MODEL_STR = ["address", "Uri", "Rsa", "Ra", "Ntrpa"]
MODEL_INT = ["port", "stream", "sid", "PID", "CID", "type", "RVCID", "natm", "natf", "upnp", "pmp", "probeinit", "PRID",
             "fastproberesponse", "NodeID", "R", "Rsp", "Rp", "Tpt", "Pl", "Ntrpp"]
SAFE = "abcdefghijklmnopqrstuvwxyzABCDEFGHIJKLMNOPQRSTUVWXYZ0123456789._-+ é€"
SEPS = ";=:/"
MAX_REPORTS = 3


def show_pval(v): return "i%d" % v if isinstance(v, int) and not isinstance(v, bool) else G.show_str(str(v))


def show_url_of(scheme, params):
    return " ".join([G.show_str(scheme), "%d" % len(params)] + [G.show_str(k) + " " + show_pval(v) for k, v in params.items()])


def outcome(f):
    """('ok', value) or ('err', exception name) of a thunk on the real code"""
    try: return ("ok", f())
    except Exception as e: return ("err", G.exc_name(e))


# ================================================================== StationURL
def fresh_url(scheme, params):
    """a freshly built object with the given logical content"""
    return common.StationURL(scheme, **params)


def enc_url(u, S, as_list=False):
    out = streams.StreamOut(S)
    if not as_list:
        out.stationurl(u)
        return out.get()
    out.list([u, u], out.stationurl)
    data = out.get()
    body = data[4:]
    if data[:4] != b"\x02\x00\x00\x00" or len(body) % 2 or body[:len(body) // 2] != body[len(body) // 2:]:
        raise AssertionError("list of two equal station urls is not count + twice the same bytes: %s" % data.hex())
    return body[:len(body) // 2]


def is_safe_text(s): return not any(c in s for c in SEPS)


def content_is_safe(scheme, params):
    return bool(scheme) and ":" not in scheme and all(is_safe_text(k) and is_safe_text(str(v)) for k, v in params.items())


def gen_key(rng, safe):
    r = rng.random()
    if r < 0.45: return rng.choice(MODEL_INT)
    if r < 0.75: return rng.choice(MODEL_STR)
    alpha = SAFE if safe else SAFE + SEPS
    k = "".join(rng.choice(alpha) for _ in range(rng.randint(1, 6)))
    return "k" + k if k in ("self", "scheme") else k


def gen_pval(rng, key, safe):
    if not safe and rng.random() < 0.25:
        return rng.choice(["::1", "a=b", "x;y", "http://h/p", " 12 ", "1_0", "+7", "-0", "1__0", "_1", "0x10", "", "12a"])
    if key in MODEL_INT:
        if rng.random() < 0.75: return rng.choice([0, 1, 2, 3, 65535, 1 << 32, (1 << 64) - 1, -1, rng.randint(0, 100000)])
        return str(rng.randint(0, 99999))
    if key in MODEL_STR:
        if rng.random() < 0.85:
            return rng.choice(["1.2.3.4", "192.168.0.%d" % rng.randint(0, 255), "example.com", "10.0.0.1",
                               "".join(rng.choice(SAFE) for _ in range(rng.randint(0, 12)))])
        return rng.randint(0, 999)
    return "".join(rng.choice(SAFE) for _ in range(rng.randint(0, 8))) if rng.random() < 0.8 else rng.randint(-5, 5)


def build_start(start):
    how, scheme, params = start
    if how == "default": return common.StationURL()
    if how == "parse-empty": return common.StationURL.parse("")
    if how == "stream-empty":
        S = G.make_settings()
        out = streams.StreamOut(S); out.string(None)
        return streams.StreamIn(out.get(), S).stationurl()
    if how == "ctor": return common.StationURL(scheme, **params)
    text = "%s:/%s" % (scheme, ";".join("%s=%s" % kv for kv in params.items()))
    if how == "parse": return common.StationURL.parse(text)
    S = G.make_settings()
    out = streams.StreamOut(S); out.string(text)
    return streams.StreamIn(out.get(), S).stationurl()


def op_line(op):
    k = op[0]
    if k == "set": return "set %s %s" % (G.show_str(op[2]), show_pval(op[3]))
    if k == "del": return "del " + G.show_str(op[1])
    if k == "scheme": return "scheme " + G.show_str(op[1])
    if k == "get": return "get " + G.show_str(op[1])
    return k


def op_text(op):
    """the operation as Python source on the variable `url` (for the replay file)"""
    k = op[0]
    if k == "set": return ("url[%r] = %r" if op[1] == "item" else "url.params[%r] = %r") % (op[2], op[3])
    if k == "del": return "url.params.pop(%r, None)" % op[1]
    if k == "scheme": return "url.urlscheme = %r" % op[1]
    if k == "get": return "url[%r]" % op[1]
    if k == "str": return {"str": "str(url)", "repr": "repr(url)", "format": "'%s' % url"}[op[1]]
    if k == "write": return "StreamOut(pid_size=%d).%s" % (op[2], "list([url, url], stream.stationurl)" if op[1] else "stationurl(url)")
    if k == "copy": return "url = url.copy()"
    return "url = StationURL.parse(str(url))"


def exec_url_walk(start, ops):
    """runs the walk on ONE real object.  Returns (observations for the model line, final object, problems);
    problems = list of (op index, description) where the object differs from a freshly built one."""
    how, scheme, params = start
    u = build_start(start)
    twin = build_start(start)                   # a second object built from the same input: must not notice the walk
    sh_scheme, sh = scheme, dict(params)        # the logical content, tracked outside the object
    obs, problems, left_behind = [], [], []

    def expect(i, what, got, want):
        if got != want: problems.append((i, "%s: the walked object gives %r, a fresh StationURL with the same content gives %r" % (what, got, want)))

    for i, op in enumerate(ops):
        k = op[0]
        if k == "set":
            if op[1] == "item": u[op[2]] = op[3]
            else: u.params[op[2]] = op[3]
            sh[op[2]] = op[3]; obs.append("done")
        elif k == "del":
            u.params.pop(op[1], None); sh.pop(op[1], None); obs.append("done")
        elif k == "scheme":
            u.urlscheme = op[1]; sh_scheme = op[1]; obs.append("done")
        elif k == "str":
            f = {"str": str, "repr": repr, "format": lambda x: "%s" % x}[op[1]]
            got = f(u)
            expect(i, op_text(op), got, f(fresh_url(sh_scheme, sh)))
            obs.append("t" + G.show_str(got))
        elif k == "get":
            got = outcome(lambda: u[op[1]])
            expect(i, op_text(op), got, outcome(lambda: fresh_url(sh_scheme, sh)[op[1]]))
            obs.append("p" + show_pval(got[1]) if got[0] == "ok" else "err " + got[1])
        elif k == "write":
            S = G.make_settings(pid_size=op[2])
            got = outcome(lambda: enc_url(u, S, op[1]))
            expect(i, op_text(op), got, outcome(lambda: enc_url(fresh_url(sh_scheme, sh), S, False)))
            obs.append("b" + G.hx(got[1]) if got[0] == "ok" else "err " + got[1])
        elif k == "copy":
            got = outcome(lambda: u.copy())
            if got[0] == "ok":
                left_behind.append((i, u, sh_scheme, dict(sh)))
                u = got[1]; obs.append("done")
            else: obs.append("err " + got[1])
        elif k == "reparse":
            got = outcome(lambda: common.StationURL.parse(str(u)))
            if got[0] == "ok":
                text = str(fresh_url(sh_scheme, sh))
                u = got[1]
                # the logical content of a parsed url is whatever its text says: scheme and string values
                if content_is_safe(sh_scheme, sh): sh = {kk: str(v) for kk, v in sh.items()}
                else:
                    f = outcome(lambda: common.StationURL.parse(text))
                    if f[0] == "ok": sh_scheme, sh = f[1].urlscheme, dict(f[1].params)
                obs.append("done")
            else: obs.append("err " + got[1])
    n = len(ops)
    # end of the walk: the complete round trip of the property on the used object
    fresh = fresh_url(sh_scheme, sh)
    expect(n, "str(url) after the walk", str(u), str(fresh))
    for pid_size in (4, 8):
        S = G.make_settings(pid_size=pid_size)
        expect(n, "StreamOut.stationurl(url) after the walk", outcome(lambda: enc_url(u, S)), outcome(lambda: enc_url(fresh, S)))
    for f in list(sh) + MODEL_STR[:2] + MODEL_INT[:3]:
        expect(n, "url[%r] after the walk" % f, outcome(lambda: u[f]), outcome(lambda: fresh[f]))
    if content_is_safe(sh_scheme, sh):
        S = G.make_settings()
        data = outcome(lambda: enc_url(u, S))
        back = outcome(lambda: common.StationURL.parse(str(u)))
        if back[0] != "ok": problems.append((n, "StationURL.parse(str(url)) raises %s after the walk" % back[1]))
        else:
            p = back[1]
            if p.urlscheme != sh_scheme or p.params != {kk: str(v) for kk, v in sh.items()}:
                problems.append((n, "parse(str(url)) = %r %r, the object holds %r %r" % (p.urlscheme, p.params, sh_scheme, sh)))
            for f in [kk for kk in sh if kk in MODEL_STR or kk in MODEL_INT]:
                a, b = outcome(lambda: u[f]), outcome(lambda: p[f])
                if a != b: problems.append((n, "typed access differs through the text form: url[%r] = %r, parse(str(url))[%r] = %r" % (f, a, f, b)))
        if data[0] == "ok":
            def rd():
                inp = streams.StreamIn(data[1] + b"\xde\xad", S)
                q = inp.stationurl()
                return q, (data[1] + b"\xde\xad")[inp.tell():]
            r = outcome(rd)
            if r[0] != "ok" or r[1][1] != b"\xde\xad": problems.append((n, "StreamIn.stationurl does not consume exactly the bytes written after the walk: %r" % (r,)))
            else:
                q = r[1][0]
                for f in [kk for kk in sh if kk in MODEL_STR or kk in MODEL_INT]:
                    a, b = outcome(lambda: u[f]), outcome(lambda: q[f])
                    if a != b: problems.append((n, "typed access differs through the stream: url[%r] = %r, decoded url[%r] = %r" % (f, a, f, b)))
    # objects that were copied from, and a second object built from the same input, must be unaffected by the walk
    left_behind.append((n, twin, scheme, dict(params)))
    for i, old, osch, osh in left_behind:
        if old is u: problems.append((i, "two constructions / a copy returned the very same object"))
        expect(i, "another url object (the one url.copy() was called on / one built from the same input before the walk), after the walk: str()", str(old), str(fresh_url(osch, osh)))
    return obs, u, problems


def shrink_ops(start, ops):
    """greedy removal of operations while the walk still shows a problem"""
    cur = list(ops)
    changed = True
    while changed and len(cur) > 1:
        changed = False
        for i in range(len(cur)):
            cand = cur[:i] + cur[i + 1:]
            try:
                if exec_url_walk(start, cand)[2]:
                    cur, changed = cand, True
                    break
            except Exception:
                pass
    return cur


def url_walks(ctx, B, quick):
    rng = ctx.rng
    reported = 0
    n_walks = 2500 if quick else 40000
    fixed = [
        # the everyday life of a station url: built, logged, NAT-updated, sent
        (("ctor", "prudps", {"address": "10.0.0.1", "port": 1234, "PID": 100, "sid": 1, "type": 2}),
         [("str", "str"), ("set", "item", "address", "192.168.1.77"), ("set", "item", "port", 60000), ("set", "item", "type", 3),
          ("write", False, 8), ("get", "port"), ("str", "repr")]),
        (("parse", "prudp", {"address": "1.2.3.4", "port": "12345", "RVCID": "55"}),
         [("str", "repr"), ("set", "item", "RVCID", 56), ("set", "item", "Rsa", "5.6.7.8"), ("write", True, 4), ("copy",), ("set", "item", "Rsp", 9), ("str", "str")]),
        (("default", "prudp", {}), [("write", False, 8)] + [op for k in MODEL_STR + MODEL_INT for op in (("set", "item", k, 7), ("str", "str"))]),
        (("stream", "udp", {"natm": "0", "sid": "1"}), [("set", "params", "natm", 1), ("del", "sid"), ("scheme", "prudp"), ("str", "format"), ("set", "item", "natm", 2), ("str", "str"), ("write", False, 8)]),
        (("parse-empty", "prudp", {}), [("str", "str"), ("set", "item", "port", 1), ("get", "port"), ("write", False, 4)]),
        (("stream-empty", "prudp", {}), [("write", False, 8), ("set", "item", "address", "1.2.3.4"), ("str", "repr")]),
    ]
    for w in range(n_walks):
        if w < len(fixed): start, ops = fixed[w]
        else:
            start, ops = gen_url_walk(rng, quick)
        try:
            obs, u, problems = exec_url_walk(start, ops)
        except Exception as e:
            problems, obs, u = [(-1, "the walk raised %r" % (e,))], None, None
        if obs is not None:
            real = "ok " + " ; ".join(obs) + " | " + show_url_of(u.urlscheme, u.params)
            B.add("url.walk " + show_url_of(start[1], start[2]) + "".join(" | " + op_line(op) for op in ops), real, ("url.walk", start[0]))
        for op in ops: ctx.tag("walk-op:url:" + op[0])
        if problems and reported < MAX_REPORTS:
            reported += 1
            small = shrink_ops(start, ops) if obs is not None else ops
            try: sp = exec_url_walk(start, small)[2] or problems
            except Exception: sp = problems
            ctx.violation("stationurl-walk:%s" % "+".join(sorted({op[0] for op in small})),
                          "StationURL after a sequence of operations on ONE object differs from a freshly built url with the same content: " + sp[0][1],
                          {"start": {"how": start[0], "scheme": start[1], "params": start[2]},
                           "operations": [op_text(op) for op in small], "operations_raw": [list(op) for op in small],
                           "operations_before_shrinking": [op_text(op) for op in ops],
                           "problems": [{"after_operation": i, "what": t} for i, t in sp[:8]],
                           "how": "harness/nexval_walk.exec_url_walk(start, ops): build the url (ctor kwargs / StationURL.parse / StreamIn.stationurl), apply the operations in order to the one object"})


def gen_url_walk(rng, quick):
    """(start, ops): start = (how, scheme, params); ops = list of tuples.
    Mutators after the first observation are the documented ones only (`url[k] = v`, copy(), parse); edits of the
    undocumented attributes (`.params`, `.urlscheme`) are generated only while nothing has looked at the object yet
    (they are then part of building it, as `u.params = {...}` in corr_C15.gen_url is)."""
    safe = rng.random() < 0.8
    scheme = rng.choice(["prudp", "prudps", "udp"]) if rng.random() < 0.85 else "".join(rng.choice(SAFE) for _ in range(rng.randint(1, 5)))
    params = {}
    for _ in range(rng.choice([0, 1, 2, 3, 4, 7])):
        k = gen_key(rng, safe)
        params[k] = gen_pval(rng, k, safe)
    how = rng.choice(["ctor", "ctor", "ctor", "parse", "parse", "stream", "default", "parse-empty", "stream-empty"])
    if how in ("default", "parse-empty", "stream-empty"): scheme, params = "prudp", {}
    if how in ("parse", "stream"):
        if not content_is_safe(scheme, params): how = "ctor"
        else: params = {k: str(v) for k, v in params.items()}
    held = list(params)
    ops = []
    untouched = True
    for _ in range(rng.randint(2, 8 if quick else 14)):
        r = rng.random()
        if untouched and r < 0.12:
            ops.append(("del", rng.choice(held) if held else "port"))
        elif untouched and r < 0.2:
            ops.append(("scheme", rng.choice(["prudp", "prudps", "x"]) if safe or rng.random() < 0.7 else rng.choice(["", "a:b"])))
        elif r < 0.42:
            # bias towards parameters the object already holds (an edit) and the documented ones (an addition)
            k = rng.choice(held) if held and rng.random() < 0.5 else gen_key(rng, safe)
            ops.append(("set", "params" if untouched and rng.random() < 0.3 else "item", k, gen_pval(rng, k, safe)))
            if k not in held: held.append(k)
        elif r < 0.60: ops.append(("str", rng.choice(["str", "repr", "format"]))); untouched = False
        elif r < 0.72: ops.append(("write", rng.random() < 0.3, rng.choice([4, 8]))); untouched = False
        elif r < 0.87: ops.append(("get", rng.choice(held) if held and rng.random() < 0.6 else rng.choice(MODEL_STR + MODEL_INT + ["nope"]))); untouched = False
        elif r < 0.94: ops.append(("copy",)); untouched = False
        else: ops.append(("reparse",)); untouched = False
    return (how, scheme, params), ops


# ================================================================== several values through one stream
def gen_seq(rng, pid_size, quick):
    items = []
    for _ in range(rng.randint(2, 6 if quick else 10)):
        t = G.gen_type(rng, depth=1 if rng.random() < 0.8 else 2)
        items.append((t, G.gen_val(rng, t, pid_size)))
    return items


def stream_seq_cases(ctx, B, quick):
    rng = ctx.rng
    reported = 0
    shared = G.make_settings()          # ONE Settings object used by consecutive streams while its pid size changes
    for n in range(600 if quick else 12000):
        pid_size = rng.choice([4, 8])
        if rng.random() < 0.5:
            shared["nex.pid_size"] = pid_size
            S, S_kind = shared, "shared"
        else:
            S, S_kind = G.make_settings(pid_size=pid_size), "own"
        items = gen_seq(rng, pid_size, quick)
        # what a fresh stream (and fresh settings) writes for each value on its own
        alone = [G.real_w(G.make_settings(pid_size=pid_size), t, v) for t, v in items]
        if not all(a.startswith("ok ") for a in alone): continue      # (every generated value is writable; reported by stream_cases otherwise)
        want = b"".join(G.unhx(a[3:]) for a in alone)
        want_tells, pos = [], 0
        for a in alone:
            pos += len(G.unhx(a[3:])); want_tells.append(pos)
        problems = []
        try:
            out = streams.StreamOut(S)
            tells = []
            for t, v in items:
                r = rng.random()
                if r < 0.2: out.get()            # observers between the writes
                elif r < 0.3: out.size(); out.tell(); out.eof()
                G.enc_val(out, t, v)
                tells.append(out.tell())
            data = out.get()
            real = "ok %s %s" % (G.hx(data), ",".join("%d" % x for x in tells))
            if data != want: problems.append("one StreamOut holds %s, the values written one by one to fresh streams give %s" % (data.hex()[:400], want.hex()[:400]))
            if tells != want_tells: problems.append("tell() after the writes is %r, the sizes of the values give %r" % (tells, want_tells))
        except Exception as e:
            real, data = "err " + G.exc_name(e), None
            problems.append("writing the values one after the other to one StreamOut raised %r" % (e,))
        line_items = "".join(" | %s | %s" % (G.show_ty(t), G.show_val(t, v)) for t, v in items)
        B.add("seq.w %d%s" % (pid_size, line_items), real, ("seq.w", S_kind))
        if data is not None:
            rest = rng.randbytes(rng.choice([0, 1, 5]))
            try:
                inp = streams.StreamIn(data + rest, S)
                vals, ends = [], []
                for t, v in items:
                    if rng.random() < 0.2: inp.tell(); inp.eof(); inp.size()
                    vals.append(G.dec_val(inp, t)); ends.append(inp.tell())
                left = (data + rest)[inp.tell():]
                real_r = "ok " + " ; ".join(G.show_val(t, x) for (t, _), x in zip(items, vals)) + " | " + G.hx(left)
                for j, ((t, v), x) in enumerate(zip(items, vals)):
                    if not G.val_eq(t, v, x): problems.append("value %d (%s) read from the one StreamIn is %s, written was %s" % (j, G.show_ty(t), G.show_val(t, x)[:200], G.show_val(t, v)[:200]))
                if ends != want_tells or left != rest: problems.append("the reader's positions are %r (rest %s), the written sizes are %r (rest %s)" % (ends, left.hex(), want_tells, rest.hex()))
            except Exception as e:
                real_r = "err " + G.exc_name(e)
                problems.append("reading the values back from one StreamIn raised %r" % (e,))
            B.add("seq.r %d %s%s" % (pid_size, G.hx(data + rest), "".join(" | " + G.show_ty(t) for t, _ in items)), real_r, ("seq.r", S_kind))
        if problems and reported < MAX_REPORTS:
            reported += 1
            ctx.violation("stream-sequence:%s" % "+".join(G.show_ty(t) for t, _ in items)[:80],
                          "several values through ONE stream are not what each gives through a fresh stream: " + problems[0],
                          {"pid_size": pid_size, "settings_object": S_kind, "values": [{"type": G.show_ty(t), "value": G.show_val(t, v)[:500]} for t, v in items],
                           "problems": problems[:6], "how": "one StreamOut(settings): enc_val for every value in order; one StreamIn on the result: dec_val in order (harness/nexval_gen.enc_val/dec_val)"})


# ================================================================== DateTime / Result / RMCError
def _dt_obs(d, which, S):
    if which == "fields": return (d.year(), d.month(), d.day(), d.hour(), d.minute(), d.second())
    if which == "value": return d.value()
    if which == "repr": return repr(d)
    if which == "std": return d.standard_datetime().isoformat()
    if which == "ts": return d.timestamp()
    if which == "write":
        out = streams.StreamOut(S); out.datetime(d); return out.get().hex()
    if which == "variant":
        out = streams.StreamOut(S); out.variant(d); return out.get().hex()
    raise AssertionError(which)


def _res_obs(r, which, S):
    if which == "flags": return (r.is_error(), r.is_success())
    if which == "code": return r.code()
    if which == "name": return r.name()
    if which == "str": return str(r)
    if which == "write":
        out = streams.StreamOut(S); out.result(r); return out.get().hex()
    if which == "raise":
        try:
            r.raise_if_error()
            return None
        except common.RMCError as e:
            return ("RMCError", e.code(), e.name(), str(e), e.result().code(), e.result().name())
    raise AssertionError(which)


def _err_obs(e, which):
    if which == "code": return e.code()
    if which == "name": return e.name()
    if which == "str": return str(e)
    if which == "result": return (e.result().code(), e.result().name(), e.result().is_error())
    raise AssertionError(which)


def scalar_walks(ctx, B, entries, quick):
    rng = ctx.rng
    reported = 0
    S = G.make_settings()
    codes = [c for c, _, _ in entries] or [0x10001]
    names = [n for _, n, _ in entries] or ["Core::Unknown"]
    for _ in range(600 if quick else 12000):
        r = rng.random()
        c = None
        if r < 0.45:
            v = G.gen_datetime_value(rng)
            obj, make, kinds, obs, what = common.DateTime(v), (lambda v=v: common.DateTime(v)), ["fields", "value", "repr", "std", "ts", "write", "variant"], _dt_obs, "DateTime(%d)" % v
        elif r < 0.8:
            c = rng.choice([rng.choice(codes), rng.choice(codes) | (1 << 31), rng.getrandbits(32), 0x10001])
            obj, make, kinds, obs, what = common.Result(c), (lambda c=c: common.Result(c)), ["flags", "code", "name", "str", "write", "raise"], _res_obs, "Result(0x%08X)" % c
        else:
            a = rng.choice([rng.choice(names), rng.choice(codes), rng.choice(codes) | (1 << 31)])
            obj, make, kinds, what = common.RMCError(a), (lambda a=a: common.RMCError(a)), ["code", "name", "str", "result"], "RMCError(%r)" % (a,)
            obs = lambda o, w, S: _err_obs(o, w)
        seq = [rng.choice(kinds) for _ in range(rng.randint(3, 9))]
        for i, w in enumerate(seq):
            got = outcome(lambda: obs(obj, w, S))
            want = outcome(lambda: obs(make(), w, S))
            ctx.tag("walk-op:%s:%s" % (what.split("(")[0], w))
            if w == "raise" and got[0] == "ok":
                # the error bit distinguishes failure: raise_if_error raises exactly for codes with bit 31, carrying the code
                want_abs = ("RMCError", c, obj.name(), str(obj), c, obj.name()) if c & (1 << 31) else None
                if got[1] != want_abs and reported < MAX_REPORTS:
                    reported += 1
                    ctx.violation("result-raise-if-error:%d" % c, "Result(0x%08X).raise_if_error() gives %r, expected %r" % (c, got[1], want_abs),
                                  {"code": c, "got": repr(got[1]), "want": repr(want_abs), "how": "common.Result(code).raise_if_error(); the RMCError's code()/name()/str()/result()"})
            if got != want and reported < MAX_REPORTS:
                reported += 1
                ctx.violation("scalar-walk:%s:%s" % (what.split("(")[0], w),
                              "%s gives %r for %s after the calls %r on the same object, a fresh object gives %r" % (what, got, w, seq[:i], want),
                              {"object": what, "calls_before": seq[:i], "call": w, "got": repr(got), "fresh": repr(want),
                               "how": "harness/nexval_walk.scalar_walks: the accessor/conversion/stream-write names of _dt_obs/_res_obs/_err_obs called in this order on one object"})
        # the used object goes through the same correspondence lines as a fresh one
        if isinstance(obj, common.DateTime):
            B.add("dt.fields %d" % v, "ok %d %d %d %d %d %d" % _dt_obs(obj, "fields", S), ("dt.fields-walked", None))
            B.add("w 8 datetime | %d" % v, G.real_w(S, ("datetime",), obj), ("w-walked", "datetime"))
        elif isinstance(obj, common.Result):
            B.add("res.name %d" % c, "ok " + G.show_str(obj.name()), ("resname-walked", c))
            B.add("w 8 result | %d" % c, G.real_w(S, ("result",), obj), ("w-walked", "result"))


# ================================================================== Structure objects and DataHolder
class WalkBase(common.Structure):
    def __init__(self): self.a = b""; self.va = 0; self.b = b""; self.vb = 0; self.seen = []
    def max_version(self, settings): return self.va
    def save(self, stream, version): stream.buffer(self.a)
    def load(self, stream, version): self.seen.append(version); self.a = stream.buffer()


class WalkDerived(WalkBase):
    def max_version(self, settings): return self.vb
    def save(self, stream, version): stream.qbuffer(self.b)
    def load(self, stream, version): self.seen.append(version); self.b = stream.qbuffer()


def _enc(obj, S):
    out = streams.StreamOut(S); out.add(obj); return out.get()


def _fresh_derived(sh):
    o = WalkDerived(); o.a, o.va, o.b, o.vb = sh["a"], sh["va"], sh["b"], sh["vb"]; return o


def structure_walks(ctx, B, quick):
    rng = ctx.rng
    reported = [0]

    def report(kind, what, replay):
        if reported[0] < MAX_REPORTS:
            reported[0] += 1
            replay = dict(replay); replay["how"] = "harness/nexval_walk.structure_walks: the listed steps applied in order to one object"
            ctx.violation("structure-walk:" + kind, what, replay)

    for _ in range(300 if quick else 6000):
        # ---- ResultRange (common.py) and a two-level hierarchy with versions: one object, edited and re-encoded
        two = rng.random() < 0.5
        if two:
            sh = {"a": G.gen_bytes(rng, 10), "va": rng.choice([0, 1, 255]), "b": G.gen_bytes(rng, 10), "vb": rng.choice([0, 3, 255])}
            obj, fresh = _fresh_derived(sh), (lambda: _fresh_derived(sh))
        else:
            sh = {"offset": G.gen_int(rng, 0, 1 << 32), "size": G.gen_int(rng, 0, 1 << 32)}
            obj, fresh = common.ResultRange(sh["offset"], sh["size"]), (lambda: common.ResultRange(sh["offset"], sh["size"]))
        steps = []
        for _ in range(rng.randint(3, 8)):
            r = rng.random()
            hdr = rng.random() < 0.6
            S = G.make_settings(struct_header=hdr)
            if r < 0.4:
                steps.append("encode(struct_header=%s)" % hdr)
                got, want = outcome(lambda: _enc(obj, S)), outcome(lambda: _enc(fresh(), S))
                ctx.tag("walk-op:structure:encode")
                if got != want:
                    report("encode", "%s encodes to %r after %r, a fresh object with the same fields to %r" % (type(obj).__name__, got, steps, want),
                           {"class": type(obj).__name__, "fields": {k: repr(v) for k, v in sh.items()}, "steps": steps})
                if got[0] == "ok":
                    if two: B.add("struct.w %s 2 %d %s %d %s" % (G.show_bool(hdr), sh["va"], G.show_bytes(struct.pack("<I", len(sh["a"])) + sh["a"]),
                                                                 sh["vb"], G.show_bytes(struct.pack("<H", len(sh["b"])) + sh["b"])), "ok " + G.hx(got[1]), ("struct.w-walked", hdr))
                    else: B.add("struct.w %s 1 0 %s" % (G.show_bool(hdr), G.show_bytes(struct.pack("<II", sh["offset"], sh["size"]))), "ok " + G.hx(got[1]), ("struct.w-walked", hdr))
            elif r < 0.55:
                steps.append("add the object twice to one stream (struct_header=%s)" % hdr)
                def twice():
                    out = streams.StreamOut(S); out.add(obj); out.add(obj); return out.get()
                got, want = outcome(twice), outcome(lambda: _enc(fresh(), S) * 2)
                ctx.tag("walk-op:structure:encode-twice")
                if got != want:
                    report("encode-twice", "%s added twice to one stream gives %r, twice a fresh encoding is %r" % (type(obj).__name__, got, want),
                           {"class": type(obj).__name__, "fields": {k: repr(v) for k, v in sh.items()}, "steps": steps})
            elif r < 0.8:
                k = rng.choice(list(sh))
                nv = (G.gen_bytes(rng, 10) if k in ("a", "b") else rng.choice([0, 1, 2, 255])) if two else G.gen_int(rng, 0, 1 << 32)
                steps.append("obj.%s = %r" % (k, nv))
                setattr(obj, k, nv); sh[k] = nv
                ctx.tag("walk-op:structure:set-field")
            else:
                # decode another value INTO the object in use
                if two: nsh = {"a": G.gen_bytes(rng, 10), "va": sh["va"], "b": G.gen_bytes(rng, 10), "vb": sh["vb"]}
                else: nsh = {"offset": G.gen_int(rng, 0, 1 << 32), "size": G.gen_int(rng, 0, 1 << 32)}
                src = _fresh_derived(nsh) if two else common.ResultRange(nsh["offset"], nsh["size"])
                data = _enc(src, S)
                steps.append("obj.decode(StreamIn(%s + b'\\x07', struct_header=%s))" % (data.hex(), hdr))
                ctx.tag("walk-op:structure:decode-into")
                def dec():
                    inp = streams.StreamIn(data + b"\x07", S); obj.decode(inp); return inp.tell()
                got = outcome(dec)
                if got != ("ok", len(data)):
                    report("decode-into", "decoding into a %s in use consumed/raised %r instead of %d bytes" % (type(obj).__name__, got, len(data)),
                           {"class": type(obj).__name__, "steps": steps})
                sh.update({k: nsh[k] for k in (("a", "b") if two else ("offset", "size"))})
                bad = [k for k in sh if getattr(obj, k) != sh[k]]
                if bad:
                    report("decode-into", "after decoding into a %s in use, field %s is %r, the decoded bytes say %r" % (type(obj).__name__, bad[0], getattr(obj, bad[0]), sh[bad[0]]),
                           {"class": type(obj).__name__, "steps": steps})
    # ---- one DataHolder object holding different data one after the other, decoded into, re-encoded
    for _ in range(100 if quick else 2000):
        h = common.DataHolder()
        steps = []
        for _ in range(rng.randint(2, 6)):
            hdr = rng.random() < 0.6
            pid_size = rng.choice([4, 8])
            S = G.make_settings(struct_header=hdr, pid_size=pid_size)
            r = rng.random()
            if r < 0.6:
                which = rng.choice(["NullData", "ResultRange", "WalkDerived"])
                if which == "NullData": mk = lambda: common.NullData()
                elif which == "ResultRange":
                    o, s = G.gen_int(rng, 0, 1 << 32), G.gen_int(rng, 0, 1 << 32)
                    mk = lambda o=o, s=s: common.ResultRange(o, s)
                else:
                    d = {"a": G.gen_bytes(rng, 8), "va": rng.choice([0, 2]), "b": G.gen_bytes(rng, 8), "vb": rng.choice([0, 1])}
                    mk = lambda d=d: _fresh_derived(d)
                h.data = mk()
                steps.append("holder.data = %s; encode(struct_header=%s)" % (which, hdr))
                def fresh_enc():
                    out = streams.StreamOut(S); out.anydata(mk()); return out.get()
                got, want = outcome(lambda: _enc(h, S)), outcome(fresh_enc)
                ctx.tag("walk-op:dataholder:set-data+encode")
                if got != want:
                    report("dataholder", "a DataHolder in use encodes %s as %r, StreamOut.anydata of a fresh object gives %r" % (which, got, want), {"steps": steps})
                if got[0] == "ok":
                    B.add("any.w %s %s" % (G.show_str(which), G.show_bytes(_enc(mk(), S))), "ok " + G.hx(got[1]), ("any.w-walked", which))
            else:
                out = streams.StreamOut(S); out.anydata(common.NullData()); data = out.get()
                steps.append("holder.decode(StreamIn(<NullData frame> + b'\\x07\\x08', struct_header=%s))" % hdr)
                def dec():
                    inp = streams.StreamIn(data + b"\x07\x08", S); h.decode(inp); return inp.tell(), type(h.data).__name__
                got = outcome(dec)
                ctx.tag("walk-op:dataholder:decode-into")
                B.add("holder.null %s %s" % (G.show_bool(hdr), G.hx(data + b"\x07\x08")),
                      "ok %s | 0708" % G.show_str(got[1][1]) if got[0] == "ok" and got[1][0] == len(data) else "err " + str(got[1]), ("holder.null-walked", hdr))
                if got != ("ok", (len(data), "NullData")):
                    report("dataholder", "decoding a NullData frame into a DataHolder in use gives %r instead of %r" % (got, (len(data), "NullData")), {"steps": steps})
    # ---- every default-constructible class registered with DataHolder: encode twice, decode into itself, encode again
    n_cls = 0
    for name, cls in sorted(common.DataHolder.object_map.items()):
        for hdr in (True, False):
            for pid_size in (4, 8):
                S = G.make_settings(struct_header=hdr, pid_size=pid_size)
                first = outcome(lambda: _enc(cls(), S))
                if first[0] != "ok": continue       # fields default to None: not encodable as constructed
                n_cls += 1
                obj = cls()
                seq = []
                for step in ("encode", "encode", "anydata", "decode-into-itself", "encode", "encode-twice"):
                    seq.append(step)
                    if step == "encode": got, want = outcome(lambda: _enc(obj, S)), first
                    elif step == "anydata":
                        def any_used():
                            out = streams.StreamOut(S); out.anydata(obj); return out.get()
                        def any_fresh():
                            out = streams.StreamOut(S); out.anydata(cls()); return out.get()
                        got, want = outcome(any_used), outcome(any_fresh)
                    elif step == "decode-into-itself":
                        def dec():
                            inp = streams.StreamIn(first[1] + b"\x07", S); obj.decode(inp); return inp.tell()
                        got, want = outcome(dec), ("ok", len(first[1]))
                    else:
                        def twice():
                            out = streams.StreamOut(S); out.add(obj); out.add(obj); return out.get()
                        got, want = outcome(twice), ("ok", first[1] * 2)
                    ctx.tag("walk-op:registered:" + step)
                    if got != want:
                        report("registered:%s" % name, "%s: step %r on an object in use gives %r, on a fresh object %r" % (name, step, got, want),
                               {"class": name, "struct_header": hdr, "pid_size": pid_size, "steps": list(seq)})
                        break
                again = outcome(lambda: _enc(cls(), S))
                if again != first:
                    report("registered:%s" % name, "%s: a new instance encodes to %r after another instance was used, before to %r" % (name, again, first),
                           {"class": name, "struct_header": hdr, "pid_size": pid_size, "steps": list(seq) + ["encode a new instance"]})
    ctx.extra["walk_registered_class_configs"] = n_cls


def run(ctx, B, entries, quick):
    import time
    n0, t0 = len(B.lines), time.time()
    url_walks(ctx, B, quick)
    stream_seq_cases(ctx, B, quick)
    scalar_walks(ctx, B, entries, quick)
    structure_walks(ctx, B, quick)
    ctx.extra["walk_correspondence_lines"] = len(B.lines) - n0
    ctx.extra["walk_wall_s"] = round(time.time() - t0, 2)
