import NxModel.Prudp.Select
import NxModel.Prudp.Channel
import NxModel.Crypto.Md5
/-!
# L1 — one PRUDP connection endpoint (`PRUDPClient`, prudp.py 715-1175) as a state machine

`Conn` mirrors the attributes of `PRUDPClient`; every method becomes a function returning the new state,
the observable outputs (`Out`) and, if the Python method raises, the exception *together with the state and
outputs at the point of the raise* (Python does not roll back).

Everything that depends on cryptography or on the wire encoding of signatures enters through `Env`
(a record of functions); the theorems about gating, negotiation, admission and timers hold for every `Env`.
The data path reuses the L2 functions (`Chan.Window.update`, `Chan.seqNext`, `Chan.Reasm.absorb`) verbatim.

Time is `Nat` ticks (the harness uses 2^-30 s so that Python's float deadlines are exact).
Timers mirror `anynet.scheduler.Scheduler`: a dict of events in insertion order; due events fire in dict
order; a repeating event is re-inserted at the end.
-/
namespace Nx.L1
open Nx Nx.Prudp

abbrev Addr := String × Nat
abbrev Time := Nat

def STATE_CONNECTING : Nat := 0
def STATE_CONNECTED : Nat := 1
def STATE_DISCONNECTING : Nat := 2
def STATE_DISCONNECTED : Nat := 3

/-- the `prudp.*`/`nex.*`/`kerberos.*` settings an endpoint reads -/
structure Settings where
  fragmentSize : Nat := 1300
  resendTimeout : Time := 1610612736      -- 1.5 s
  resendLimit : Nat := 3
  pingTimeout : Time := 4294967296        -- 4 s
  maxSubstreamId : Nat := 0
  supportedFunctions : Nat := 0
  minorVersion : Nat := 0
  transport : Nat := 0
  version : Nat := 2
  compression : Nat := 0
  pidSize : Nat := 8
  deriving DecidableEq, Repr

structure Creds where
  pid : Nat
  cid : Nat
  sessionKey : Bytes      -- ticket.session_key
  internal : Bytes        -- ticket.internal (the server ticket)
  deriving DecidableEq, Repr

/-- crypto / encoding dependent functions (instantiated by the driver with the C08 reference functions) -/
structure Env where
  s : Settings
  cfg : Prudp.Cfg
  /-- `calc_packet_signature(packet, session_key, connection_signature)` of the selected encoder -/
  packetSig : Codec → Packet → Bytes → Bytes → Option Bytes
  /-- `calc_connection_signature(addr)` -/
  connSig : Codec → Addr → Bytes
  /-- `KerberosEncryption(key).encrypt(data)` -/
  kerbEncrypt : Bytes → Bytes → Bytes
  /-- `PRUDPServerStream.process_login_request` up to `client.login`: returns (pid, cid, session key, response) -/
  loginRequest : Bytes → Bytes → Time → Except Err (Nat × Nat × Bytes × Bytes)
  /-- `ZlibCompression.compress/decompress` (identity when compression is off) -/
  compress : Bytes → Bytes
  decompress : Bytes → Except Err Bytes

/-! ## scheduler -/

inductive Action where
  | resend (p : Packet) (counter : Nat)
  | ping
  deriving DecidableEq, Repr

structure Timer where
  handle : Nat
  deadline : Time
  rep : Option Time
  act : Action
  deriving DecidableEq, Repr

structure Sched where
  nextHandle : Nat := 0
  events : List Timer := []
  deriving DecidableEq, Repr

def Sched.schedule (s : Sched) (now delay : Time) (act : Action) : Sched × Nat :=
  ({ nextHandle := s.nextHandle + 1, events := s.events ++ [⟨s.nextHandle, now + delay, none, act⟩] }, s.nextHandle)

def Sched.repeat (s : Sched) (now delay : Time) (act : Action) : Sched × Nat :=
  ({ nextHandle := s.nextHandle + 1, events := s.events ++ [⟨s.nextHandle, now + delay, some delay, act⟩] }, s.nextHandle)

def Sched.remove (s : Sched) (h : Nat) : Sched := { s with events := s.events.filter (·.handle != h) }
def Sched.removeAll (s : Sched) : Sched := { s with events := [] }

/-! ## RC4 at a position (logical state of an `ARC4` object = key + number of bytes processed) -/

def rc4Skip : Nat → Crypto.Rc4 → Crypto.Rc4
  | 0, st => st
  | n + 1, st => rc4Skip n (Crypto.rc4Next st).2

def rc4At (key : Bytes) (pos : Nat) (data : Bytes) : Bytes :=
  (Crypto.rc4Apply (rc4Skip pos (Crypto.rc4Ksa key)) data).1

structure StreamCipher where
  key : Bytes
  encPos : Nat := 0
  decPos : Nat := 0
  deriving DecidableEq, Repr

/-! ## the connection -/

abbrev AckKey := Nat × Nat × Nat     -- (type, substream, packet id)

structure Conn where
  codec : Codec
  version : Option Nat
  fragmentSize : Nat
  resendTimeout : Time
  resendLimit : Nat
  pingTimeout : Time
  maxSub : Nat
  supFuncs : Nat
  minorVer : Nat
  -- SequenceMgr
  counters : List Nat
  unrelCounter : Nat
  pingCounter : Nat := 1
  initialUnrelId : Nat
  -- receive side
  windows : List (Chan.Window Packet)
  fragBufs : List Bytes
  -- PayloadEncoder
  cipherOn : Bool
  relCiphers : List StreamCipher
  unrelKey : Bytes
  -- application queues (everything ever put, in order) and their EOF flag
  queues : List (List Bytes)
  unrelQueue : List Bytes := []
  eof : Bool := false
  -- timers
  sched : Option Sched := none
  pingEvent : Option Nat := none
  ackEvents : List (AckKey × Nat) := []
  -- identity
  connectionCheck : Nat
  localSessionId : Nat
  remoteSessionId : Option Nat := none
  remoteSignature : Option Bytes := none
  localAddr : Addr
  localPort : Nat
  localType : Nat
  remoteAddr : Addr
  remotePort : Nat
  remoteType : Nat
  userPid : Option Nat := none
  userCid : Option Nat := none
  sessionKey : Bytes := []
  credentials : Option Creds := none
  handshakeEvent : Bool := false
  closeEvent : Bool := false
  linkUp : Bool := true          -- stream transports: the underlying stream is still there
  waitingHandshake : Bool := false   -- a `handshake()` coroutine is parked on the event
  state : Nat := 0
  deriving DecidableEq, Repr

inductive Out where
  | emit (to : Addr) (p : Packet) (data : Bytes)   -- `transport.send(packet, addr)`: the packet and its encoding
  | deliver (sub : Nat) (data : Bytes) -- `packets[sub].put`
  | deliverU (data : Bytes)            -- `unreliable_packets.put`
  | eof                                -- queues EOF'd, events set (`cleanup`)
  | handshake (ok : Bool)              -- the parked `handshake()` resumed: returns / raises RuntimeError
  deriving DecidableEq, Repr

/-- state, outputs so far, and the exception if the method raised -/
structure R where
  c : Conn
  outs : List Out := []
  err : Option Err := none

def R.ok (c : Conn) (outs : List Out := []) : R := { c, outs }
def R.fail (c : Conn) (e : Err) (outs : List Out := []) : R := { c, outs, err := some e }

/-- sequencing: stop at the first exception -/
def R.bind (r : R) (f : Conn → R) : R :=
  match r.err with
  | some _ => r
  | none => let r' := f r.c; { c := r'.c, outs := r.outs ++ r'.outs, err := r'.err }

/-- `PRUDPClient.__init__` -/
def Conn.new (env : Env) (version : Option Nat) (initialUnrelId connectionCheck localSessionId : Nat)
    (localAddr : Addr) (localPort localType : Nat) (remoteAddr : Addr) (remotePort remoteType : Nat) : Conn :=
  let n := env.s.maxSubstreamId + 1
  { codec := select env.cfg.sel version, version,
    fragmentSize := env.s.fragmentSize, resendTimeout := env.s.resendTimeout, resendLimit := env.s.resendLimit,
    pingTimeout := env.s.pingTimeout, maxSub := env.s.maxSubstreamId, supFuncs := env.s.supportedFunctions,
    minorVer := env.s.minorVersion,
    counters := List.replicate n 1, unrelCounter := initialUnrelId, initialUnrelId,
    windows := List.replicate n { next := 1, packets := [] }, fragBufs := List.replicate n [],
    cipherOn := env.s.transport == TRANSPORT_UDP,
    relCiphers := List.replicate n { key := [0x43, 0x44, 0x26, 0x4D, 0x4C] },   -- b"CD&ML"
    unrelKey := List.replicate 32 0,
    queues := List.replicate n [],
    connectionCheck, localSessionId, localAddr, localPort, localType, remoteAddr, remotePort, remoteType }

/-! ### PayloadEncoder -/

/-- `modify_key` -/
def modifyKey (key : Bytes) : Bytes :=
  let add := key.length / 2 + 1
  (List.range key.length).zipWith (fun i b => if i < key.length / 2 then b8 (b.toNat + add - i) else b) key

/-- the key chain of `set_session_key`: key, modify key, modify² key, … -/
def keyChain : Nat → Bytes → List Bytes
  | 0, _ => []
  | n + 1, k => k :: keyChain n (modifyKey k)

/-- `init_unreliable_key` -/
def initUnreliableKey (key : Bytes) : Bytes :=
  Crypto.md5 (key ++ [0x18, 0xd8, 0x23, 0x34, 0x37, 0xe4, 0xe3, 0xfe]) ++
  Crypto.md5 (key ++ [0x23, 0x3e, 0x60, 0x01, 0x23, 0xcd, 0xab, 0x80])

/-- `make_unreliable_key(packet)` -/
def makeUnreliableKey (base : Bytes) (packetId sessionId : Nat) : Bytes :=
  (List.range base.length).zipWith (fun i b =>
    if i = 0 then b8 (b.toNat + packetId)
    else if i = 1 then b8 (b.toNat + packetId / 256)
    else if i = 31 then b8 (b.toNat + sessionId)
    else b) base

/-- `login` → `set_session_key`: all reliable ciphers restart at position 0 with the chained keys -/
def Conn.login (c : Conn) (pid cid : Nat) (key : Bytes) : Conn :=
  { c with userPid := some pid, userCid := some cid, sessionKey := key,
           relCiphers := (keyChain c.relCiphers.length key).map (fun k => { key := k }),
           unrelKey := initUnreliableKey key }

def setAt {α : Type} (l : List α) (i : Nat) (x : α) : List α := l.set i x

/-- `PayloadEncoder.encode(packet)`; returns the payload and the connection with advanced cipher state -/
def Conn.encodePayload (env : Env) (c : Conn) (p : Packet) : Except Err (Bytes × Conn) :=
  if p.type = TYPE_DATA ∧ !p.payload.isEmpty then
    let data := env.compress p.payload
    if hasReliable p.flags then
      match c.relCiphers[p.substreamId]? with
      | none => .error .index
      | some sc =>
        if c.cipherOn then
          .ok (rc4At sc.key sc.encPos data,
               { c with relCiphers := setAt c.relCiphers p.substreamId { sc with encPos := sc.encPos + data.length } })
        else .ok (data, c)
    else
      if c.cipherOn then .ok (rc4At (makeUnreliableKey c.unrelKey p.packetId p.sessionId) 0 data, c)
      else .ok (data, c)
  else .ok (p.payload, c)

/-- `PayloadEncoder.decode(packet)` -/
def Conn.decodePayload (env : Env) (c : Conn) (p : Packet) : Except Err (Bytes × Conn) :=
  if p.type = TYPE_DATA ∧ !p.payload.isEmpty then
    if hasReliable p.flags then
      match c.relCiphers[p.substreamId]? with
      | none => .error .index
      | some sc =>
        let (data, c') :=
          if c.cipherOn then
            (rc4At sc.key sc.decPos p.payload,
             { c with relCiphers := setAt c.relCiphers p.substreamId { sc with decPos := sc.decPos + p.payload.length } })
          else (p.payload, c)
        match env.decompress data with
        | .ok d => .ok (d, c')
        | .error e => .error e
    else
      let data := if c.cipherOn then rc4At (makeUnreliableKey c.unrelKey p.packetId p.sessionId) 0 p.payload else p.payload
      match env.decompress data with
      | .ok d => .ok (d, c)
      | .error e => .error e
  else .ok (p.payload, c)

/-! ### sending -/

def ackLookup (k : AckKey) : List (AckKey × Nat) → Option Nat
  | [] => none
  | (k', h) :: t => if k' = k then some h else ackLookup k t

/-- dict assignment `ack_events[key] = handle` (an existing key keeps its position) -/
def ackSet (k : AckKey) (h : Nat) : List (AckKey × Nat) → List (AckKey × Nat)
  | [] => [(k, h)]
  | (k', h') :: t => if k' = k then (k, h) :: t else (k', h') :: ackSet k h t

def ackErase (k : AckKey) (l : List (AckKey × Nat)) : List (AckKey × Nat) := l.filter (·.1 != k)

/-- `cleanup()` -/
def Conn.cleanup (c : Conn) : R :=
  let hs := c.waitingHandshake
  let c' := { c with state := STATE_DISCONNECTED, sched := c.sched.map Sched.removeAll,
                     handshakeEvent := true, closeEvent := true, eof := true, waitingHandshake := false }
  R.ok c' ((if c.eof then [] else [Out.eof]) ++ (if hs then [Out.handshake false] else []))

/-- `SequenceMgr.assign(packet)` -/
def Conn.assign (c : Conn) (p : Packet) : Except Err (Nat × Conn) :=
  if hasReliable p.flags then
    match c.counters[p.substreamId]? with
    | none => .error .index
    | some n => .ok (n, { c with counters := setAt c.counters p.substreamId (Chan.seqNext n) })
  else if p.type = TYPE_DATA then .ok (c.unrelCounter, { c with unrelCounter := Chan.seqNext c.unrelCounter })
  else if p.type = TYPE_PING then .ok (c.pingCounter, { c with pingCounter := Chan.seqNext c.pingCounter })
  else .ok (0, c)

def ackKeyOf (p : Packet) : AckKey := (p.type, p.substreamId, p.packetId)

/-- `schedule_timeout(packet)` / the re-arming in `resend_packet` -/
def Conn.arm (c : Conn) (now : Time) (p : Packet) (counter : Nat) : Conn :=
  match c.sched with
  | none => c
  | some s =>
    let (s', h) := s.schedule now c.resendTimeout (.resend p counter)
    { c with sched := some s', ackEvents := ackSet (ackKeyOf p) h c.ackEvents }

/-- the id step of `send_packet`: acknowledgements keep the id they were given -/
def Conn.assignIf (c : Conn) (p : Packet) (isAck : Bool) : Except Err (Nat × Conn) :=
  if isAck then .ok (p.packetId, c) else c.assign p

/-- the payload step of `send_packet`: only DATA packets that are not acknowledgements are encoded -/
def Conn.encodeIf (env : Env) (c : Conn) (p : Packet) (isAck : Bool) : Except Err (Bytes × Conn) :=
  if p.type = TYPE_DATA ∧ !isAck then c.encodePayload env p else .ok (p.payload, c)

/-- the signature step of `send_packet` -/
def Conn.signFor (env : Env) (c : Conn) (p : Packet) : Option Bytes :=
  if p.type = TYPE_SYN then env.packetSig c.codec p [] []
  else if p.type = TYPE_CONNECT then env.packetSig c.codec p [] (c.remoteSignature.getD [])
  else env.packetSig c.codec p c.sessionKey (c.remoteSignature.getD [])

/-- the tail of `send_packet`: hand the packet to the transport, arm the retransmission timer -/
def Conn.transmit (env : Env) (now : Time) (c : Conn) (p : Packet) : R :=
  if !c.linkUp then
    -- `transport.send` raised a StreamError: cleanup and return
    c.cleanup
  else
    -- `packet_encoder.encode(packet)` inside `transport.send` may raise (field out of range): nothing is armed then
    match encodeChecked env.cfg p with
    | .error e => R.fail c e
    | .ok data =>
      let c := if (hasReliable p.flags || p.type == TYPE_SYN) && hasNeedAck p.flags then c.arm now p 0 else c
      R.ok c [Out.emit c.remoteAddr p data]

/-- `send_packet(packet)` -/
def Conn.sendPacket (env : Env) (now : Time) (c : Conn) (p : Packet) : R :=
  let p := { p with version := c.version, sourcePort := c.localPort, sourceType := c.localType,
                    destPort := c.remotePort, destType := c.remoteType }
  let isAck := hasAck p.flags || hasMultiAck p.flags
  match c.assignIf p isAck with
  | .error e => R.fail c e
  | .ok (pid, c) =>
  let p := { p with packetId := pid }
  let p := if p.type ≠ TYPE_SYN then { p with sessionId := c.localSessionId } else p
  match c.encodeIf env p isAck with
  | .error e => R.fail c e
  | .ok (payload, c) =>
  let p := { p with payload := payload }
  c.transmit env now { p with signature := c.signFor env p }

/-- `resend_packet(packet, counter)` (a fired resend timer) -/
def Conn.resendPacket (env : Env) (now : Time) (c : Conn) (p : Packet) (counter : Nat) : R :=
  if counter < c.resendLimit then
    if !c.linkUp then c.cleanup
    else R.ok (c.arm now p (counter + 1)) [Out.emit c.remoteAddr p (encode env.cfg p)]
  else c.cleanup

def mkPacket (type flags : Nat) : Packet := { type, flags }

/-- `send_ping()` -/
def Conn.sendPing (env : Env) (now : Time) (c : Conn) : R :=
  c.sendPacket env now (mkPacket TYPE_PING (FLAG_RELIABLE + FLAG_NEED_ACK))

/-- `send_syn()` -/
def Conn.sendSyn (env : Env) (now : Time) (c : Conn) : R :=
  c.sendPacket env now { mkPacket TYPE_SYN FLAG_NEED_ACK with
    connectionSignature := some (List.replicate (signatureSize c.codec) 0),
    maxSubstreamId := c.maxSub, supportedFunctions := c.supFuncs, minorVersion := c.minorVer }

/-- `build_connection_request()` -/
def Conn.buildConnectionRequest (env : Env) (c : Conn) : Bytes :=
  match c.credentials with
  | none => []
  | some cr =>
    let pidBytes := if env.s.pidSize = 8 then u64le cr.pid else u32le cr.pid
    let enc := env.kerbEncrypt cr.sessionKey (pidBytes ++ u32le cr.cid ++ u32le c.connectionCheck)
    u32le cr.internal.length ++ cr.internal ++ u32le enc.length ++ enc

/-- `send_connect()` -/
def Conn.sendConnect (env : Env) (now : Time) (c : Conn) : R :=
  c.sendPacket env now { mkPacket TYPE_CONNECT (FLAG_RELIABLE + FLAG_NEED_ACK + FLAG_HAS_SIZE) with
    connectionSignature := some (env.connSig c.codec c.remoteAddr),
    initialUnreliableId := c.initialUnrelId,
    maxSubstreamId := c.maxSub, minorVersion := c.minorVer, supportedFunctions := c.supFuncs,
    payload := c.buildConnectionRequest env }

/-- `send_ack(packet)` -/
def Conn.sendAck (env : Env) (now : Time) (c : Conn) (p : Packet) : R :=
  let ack := { mkPacket p.type FLAG_ACK with packetId := p.packetId, fragmentId := p.fragmentId, substreamId := p.substreamId }
  let r := c.sendPacket env now ack
  if p.type = TYPE_DISCONNECT then
    (r.bind fun c => c.sendPacket env now ack).bind fun c => c.sendPacket env now ack
  else r

/-- `check_connection_response(data)`: `none` = accepted -/
def Conn.checkConnectionResponse (c : Conn) (data : Bytes) : Option Err :=
  match c.credentials with
  | some _ =>
    if data.length ≠ 8 then some .value
    else if n32le (data.take 4) ≠ 4 then some .value
    else if n32le (data.drop 4) ≠ (c.connectionCheck + 1) % 4294967296 then some .value
    else none
  | none => if data.isEmpty then none else some .value

/-! ### receiving -/

/-- release loop of `process_reliable` over the packets the window released -/
def Conn.consume (env : Env) (sub : Nat) : List Packet → Conn → R
  | [], c => R.ok c
  | p :: ps, c =>
    if p.type = TYPE_DATA then
      match c.decodePayload env p with
      | .error e => R.fail c e
      | .ok (data, c) =>
        let buf := (c.fragBufs[sub]?.getD []) ++ data
        if p.fragmentId = 0 then
          if c.eof then R.fail { c with fragBufs := setAt c.fragBufs sub buf } .closed
          else
            let c := { c with fragBufs := setAt c.fragBufs sub [],
                              queues := setAt c.queues sub ((c.queues[sub]?.getD []) ++ [buf]) }
            (R.ok c [Out.deliver sub buf]).bind (Conn.consume env sub ps)
        else Conn.consume env sub ps { c with fragBufs := setAt c.fragBufs sub buf }
    else if p.type = TYPE_DISCONNECT then
      c.cleanup.bind (Conn.consume env sub ps)
    else Conn.consume env sub ps c

/-- `process_reliable(packet)` -/
def Conn.processReliable (env : Env) (c : Conn) (p : Packet) : R :=
  match c.windows[p.substreamId]? with
  | none => R.fail c .index
  | some w =>
    let (w', rel) := w.update p.packetId p
    Conn.consume env p.substreamId rel { c with windows := setAt c.windows p.substreamId w' }

def u16sOf : Bytes → List Nat
  | a :: b :: r => (a.toNat + 256 * b.toNat) :: u16sOf r
  | _ => []

/-- `is_new_aggregate_ack` -/
def Conn.isNewAggregateAck (env : Env) (c : Conn) (p : Packet) : Bool :=
  if env.s.transport = TRANSPORT_UDP then
    if c.version = some 0 then false else p.substreamId == 1
  else true

/-- `handle_aggregate_ack(packet)` (incl. `verify_aggregate_ack`) -/
def Conn.handleAggregateAck (env : Env) (c : Conn) (p : Packet) : R :=
  if p.type ≠ TYPE_DATA then R.fail c .value
  else if p.payload.length % 2 ≠ 0 then R.fail c .value
  else if p.substreamId ≠ 0 ∧ p.substreamId ≠ 1 then R.fail c .value
  else
    let isNew := c.isNewAggregateAck env p
    let chk : Option Err :=
      if isNew then
        match p.payload[1]? with
        | none => some .index
        | some n => if p.payload.length ≠ 4 + n.toNat * 2 then some .value else none
      else if p.payload.length < 4 then some .value else none
    match chk with
    | some e => R.fail c e
    | none =>
      let (substream, baseId, extra) :=
        if isNew then ((p.payload[0]?.getD 0).toNat, n16le ((p.payload.drop 2).take 2), u16sOf (p.payload.drop 4))
        else (0, p.packetId, u16sOf p.payload)
      let hit (k : AckKey) : Bool :=
        (k.1 == TYPE_DATA && k.2.1 == substream && decide ((baseId + 65536 - k.2.2 % 65536) % 65536 < 32768))
          || (k.1 == TYPE_DATA && k.2.1 == substream && extra.contains k.2.2)
      let gone := (c.ackEvents.filter (fun e => hit e.1)).map (·.2)
      let sched := c.sched.map (fun s => gone.foldl Sched.remove s)
      R.ok { c with ackEvents := c.ackEvents.filter (fun e => !hit e.1), sched }

/-- `process_syn(packet)` (client side: a SYN/ACK) -/
def Conn.processSyn (env : Env) (now : Time) (c : Conn) (p : Packet) : R :=
  if p.signature ≠ env.packetSig c.codec p [] [] then R.fail c .value
  else if !hasAck p.flags then R.fail c .value
  else if p.sessionId ≠ 0 ∨ p.packetId ≠ 0 ∨ p.fragmentId ≠ 0 ∨ p.substreamId ≠ 0 then R.fail c .value
  else if p.maxSubstreamId > c.maxSub ∨ p.minorVersion > c.minorVer ∨
          (p.supportedFunctions ^^^ (p.supportedFunctions &&& c.supFuncs)) ≠ 0 then R.fail c .value
  else if (ackLookup (ackKeyOf p) c.ackEvents).isSome then
    let c := { c with state := STATE_CONNECTED, maxSub := p.maxSubstreamId, minorVer := p.minorVersion,
                      supFuncs := p.supportedFunctions, remoteSignature := p.connectionSignature }
    c.sendConnect env now
  else R.ok c

def anyNonZero (b : Option Bytes) : Bool := (b.getD []).any (· != 0)

/-- `process_connect(packet)` (client side: a CONNECT/ACK) -/
def Conn.processConnect (env : Env) (c : Conn) (p : Packet) : R :=
  if p.signature ≠ env.packetSig c.codec p [] (env.connSig c.codec c.remoteAddr) then R.fail c .value
  else if !hasAck p.flags then R.fail c .value
  else if p.packetId ≠ 1 ∨ p.fragmentId ≠ 0 ∨ p.substreamId ≠ 0 ∨ anyNonZero p.connectionSignature then R.fail c .value
  else if p.maxSubstreamId ≠ c.maxSub ∨ p.minorVersion ≠ c.minorVer ∨ p.supportedFunctions ≠ c.supFuncs then R.fail c .value
  else if (ackLookup (ackKeyOf p) c.ackEvents).isSome then
    match c.checkConnectionResponse p.payload with
    | some e => R.fail c e
    | none => R.ok { c with remoteSessionId := some p.sessionId, handshakeEvent := true }
  else R.ok c

/-- `process_other(packet)` -/
def Conn.processOther (env : Env) (now : Time) (c : Conn) (p : Packet) : R :=
  if p.signature ≠ env.packetSig c.codec p c.sessionKey (env.connSig c.codec c.remoteAddr) then R.fail c .value
  else if hasMultiAck p.flags then c.handleAggregateAck env p
  else if p.substreamId > c.maxSub then R.fail c .value
  else if some p.sessionId ≠ c.remoteSessionId then R.fail c .value
  else if hasAck p.flags then R.ok c
  else
    let r := if hasNeedAck p.flags then c.sendAck env now p else R.ok c
    r.bind fun c =>
      if hasReliable p.flags then c.processReliable env p
      else if p.type = TYPE_DATA then
        match c.decodePayload env p with
        | .error e => R.fail c e
        | .ok (data, c) =>
          if c.eof then R.fail c .closed
          else R.ok { c with unrelQueue := c.unrelQueue ++ [data] } [Out.deliverU data]
      else if p.type = TYPE_DISCONNECT then c.cleanup
      else R.ok c

/-- `handle(packet)` -/
def Conn.handle (env : Env) (now : Time) (c : Conn) (p : Packet) : R :=
  if c.state = STATE_DISCONNECTED then R.ok c
  else if c.state = STATE_CONNECTING ∧ p.type ≠ TYPE_SYN then R.fail c .value
  else
    let r :=
      if p.type = TYPE_SYN then c.processSyn env now p
      else if p.type = TYPE_CONNECT then c.processConnect env p
      else c.processOther env now p
    r.bind fun c =>
      if hasAck p.flags then
        match ackLookup (ackKeyOf p) c.ackEvents with
        | some h =>
          let c := { c with ackEvents := ackErase (ackKeyOf p) c.ackEvents, sched := c.sched.map (·.remove h) }
          if p.type = TYPE_DISCONNECT then c.cleanup else R.ok c
        | none => R.ok c
      else R.ok c

/-- the parked `handshake()` coroutine resumes once its event is set: arms the keep-alive or raises -/
def Conn.resumeHandshake (now : Time) (c : Conn) : R :=
  if c.waitingHandshake ∧ c.handshakeEvent then
    if c.state = STATE_CONNECTED then
      match c.sched with
      | some s =>
        let (s', h) := s.repeat now c.pingTimeout .ping
        R.ok { c with waitingHandshake := false, sched := some s', pingEvent := some h } [Out.handshake true]
      | none => R.ok { c with waitingHandshake := false } [Out.handshake true]
    else R.ok { c with waitingHandshake := false } [Out.handshake false]
  else R.ok c

/-! ### application calls -/

/-- `handshake(credentials, group)` up to the wait on the event -/
def Conn.handshake (env : Env) (now : Time) (c : Conn) (creds : Option Creds) : R :=
  let c := { c with sched := some {}, credentials := creds, waitingHandshake := true }
  let c := match creds with
    | some cr => c.login cr.pid cr.cid cr.sessionKey
    | none => c
  c.sendSyn env now

/-- `serve(group)` -/
def Conn.serve (now : Time) (c : Conn) : Conn :=
  let w0 := c.windows[0]?.getD { next := 1, packets := [] }
  let s : Sched := {}
  let (s', h) := s.repeat now c.pingTimeout .ping
  { c with state := STATE_CONNECTED, windows := setAt c.windows 0 { w0 with next := Chan.seqNext w0.next },
           sched := some s', pingEvent := some h }

/-- the fragment loop of `send(data, substream)` -/
def Conn.sendFrags (env : Env) (now : Time) (sub : Nat) : List Chan.Frag → Conn → R
  | [], c => R.ok c
  | f :: fs, c =>
    (c.sendPacket env now { mkPacket TYPE_DATA (FLAG_RELIABLE + FLAG_NEED_ACK + FLAG_HAS_SIZE) with
        fragmentId := f.fragId, substreamId := sub, payload := f.data }).bind (Conn.sendFrags env now sub fs)

/-- `send(data, substream)` -/
def Conn.send (env : Env) (now : Time) (c : Conn) (data : Bytes) (sub : Nat) : R :=
  if c.state ≠ STATE_CONNECTED then R.fail c .closed
  else if sub > c.maxSub then R.fail c .value
  else Conn.sendFrags env now sub (Chan.split c.fragmentSize data) c

/-- `send_unreliable(data)` -/
def Conn.sendUnreliable (env : Env) (now : Time) (c : Conn) (data : Bytes) : R :=
  if c.state ≠ STATE_CONNECTED then R.fail c .closed
  else c.sendPacket env now { mkPacket TYPE_DATA (FLAG_NEED_ACK + FLAG_HAS_SIZE) with payload := data }

/-- `close()` -/
def Conn.close (env : Env) (now : Time) (c : Conn) : R :=
  if c.state = STATE_DISCONNECTED then R.ok c
  else
    let p := mkPacket TYPE_DISCONNECT 0
    (((c.sendPacket env now p).bind fun c => c.sendPacket env now p).bind fun c => c.sendPacket env now p).bind Conn.cleanup

/-- `disconnect()` up to the wait on `close_event` (the `finally: cleanup()` runs when the wait ends) -/
def Conn.disconnect (env : Env) (now : Time) (c : Conn) : R :=
  if c.state ≠ STATE_CONNECTED then R.ok c
  else
    ({ c with state := STATE_DISCONNECTING } : Conn).sendPacket env now (mkPacket TYPE_DISCONNECT (FLAG_RELIABLE + FLAG_NEED_ACK))

/-! ### timers -/

/-- fire one timer (already removed / re-inserted by the scheduler) -/
def Conn.fire (env : Env) (now : Time) (c : Conn) : Action → R
  | .resend p counter => c.resendPacket env now p counter
  | .ping => c.sendPing env now

/-- the timers due at `now`, in dict order, with the scheduler's bookkeeping (one-shot removed, repeating re-inserted at the end) -/
def Sched.takeDue (s : Sched) (now : Time) : Sched × List Action :=
  let due := s.events.filter (fun t => t.deadline ≤ now)
  let keep := s.events.filter (fun t => !(t.deadline ≤ now))
  let again := due.filterMap (fun t => t.rep.map (fun d => { t with deadline := t.deadline + d }))
  ({ s with events := keep ++ again }, due.map (·.act))

/-- a fired function runs as a task of the connection's task group: an exception in it collapses the group, the
    `async with client` block is left and `cleanup()` runs (the other tasks started at the same instant still run) -/
def Conn.fireOne (env : Env) (now : Time) (c : Conn) (a : Action) : R :=
  let r := c.fire env now a
  match r.err with
  | none => r
  | some _ => let r' := r.c.cleanup; { c := r'.c, outs := r.outs ++ r'.outs, err := none }

def Conn.fireAll (env : Env) (now : Time) : List Action → Conn → R
  | [], c => R.ok c
  | a :: as, c =>
    let r := c.fireOne env now a
    let r' := Conn.fireAll env now as r.c
    { c := r'.c, outs := r.outs ++ r'.outs, err := r'.err }

def Sched.nextDeadline (s : Sched) : Option Time :=
  s.events.foldl (fun m t => match m with | none => some t.deadline | some d => some (min d t.deadline)) none

/-- advance the clock to `t`, firing everything that becomes due on the way, each at its own instant;
    outputs are tagged with the instant at which they happened -/
def Conn.advance (env : Env) : Nat → Time → Conn → Conn × List (Time × Out)
  | 0, _, c => (c, [])
  | fuel + 1, t, c =>
    match c.sched with
    | none => (c, [])
    | some s =>
      match s.nextDeadline with
      | none => (c, [])
      | some d =>
        if d ≤ t then
          let (s', acts) := s.takeDue d
          let r := Conn.fireAll env d acts { c with sched := some s' }
          let (c', rest) := Conn.advance env fuel t r.c
          (c', r.outs.map (fun o => (d, o)) ++ rest)
        else (c, [])

end Nx.L1
