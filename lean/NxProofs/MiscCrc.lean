import NxModel.Crypto.Crc16
/-!
# The Mii checksum is a linear map — hence "append the CRC of the zero-augmented data" validates

Python: `build` emits `data ++ be16 (crc16 (data ++ b"\0\0"))`, `parse` demands `crc16 (all 0x60 bytes) == 0`.
-/
namespace Nx.Crypto
open Nx

theorem and_8000 (h : Nat) : h &&& 0x8000 = if h.testBit 15 then 0x8000 else 0 := by
  show h &&& 2 ^ 15 = if h.testBit 15 then 2 ^ 15 else 0
  apply Nat.eq_of_testBit_eq
  intro i
  rw [Nat.testBit_and, Nat.testBit_two_pow]
  cases h15 : h.testBit 15
  · by_cases hi : 15 = i
    · subst hi; simp only [h15, Bool.false_and, Bool.false_eq_true, if_false, Nat.zero_testBit]
    · simp only [hi, decide_false, Bool.and_false, Bool.false_eq_true, if_false, Nat.zero_testBit]
  · by_cases hi : 15 = i
    · subst hi; simp only [h15, decide_true, Bool.and_true, if_true, Nat.testBit_two_pow]
    · simp only [hi, decide_false, Bool.and_false, if_true, Nat.testBit_two_pow]

theorem miiShift1_eq (h : Nat) :
    miiShift1 h = ((h <<< 1) &&& 0xFFFF) ^^^ (if h.testBit 15 then 0x1021 else 0) := by
  unfold miiShift1
  simp only [and_8000]
  cases h.testBit 15 <;> simp

theorem miiShift1_xor (a b : Nat) : miiShift1 (a ^^^ b) = miiShift1 a ^^^ miiShift1 b := by
  simp only [miiShift1_eq, Nat.shiftLeft_xor_distrib, Nat.and_xor_distrib_right, Nat.testBit_xor]
  cases a.testBit 15 <;> cases b.testBit 15 <;> simp only [Bool.xor_false, Bool.xor_true, Bool.not_false, Bool.not_true,
    Bool.false_eq_true, if_false, if_true, Nat.xor_zero]
  · ac_rfl
  · ac_rfl
  · generalize (a <<< 1 &&& 65535) = x; generalize (b <<< 1 &&& 65535) = y
    calc x ^^^ y = (x ^^^ y) ^^^ (4129 ^^^ 4129) := by rw [Nat.xor_self, Nat.xor_zero]
      _ = _ := by ac_rfl

theorem miiShiftN_xor (n a b : Nat) : miiShiftN n (a ^^^ b) = miiShiftN n a ^^^ miiShiftN n b := by
  induction n generalizing a b with
  | zero => rfl
  | succ n ih => simp only [miiShiftN, miiShift1_xor, ih]

theorem miiShift8_xor (a b : Nat) : miiShift8 (a ^^^ b) = miiShift8 a ^^^ miiShift8 b :=
  miiShiftN_xor 8 a b

theorem miiShift1_lt (h : Nat) : miiShift1 h < 65536 := by
  rw [miiShift1_eq]
  apply Nat.xor_lt_two_pow (n := 16)
  · exact Nat.lt_of_le_of_lt Nat.and_le_right (by decide)
  · split <;> decide

theorem miiShiftN_lt (n h : Nat) (hn : 0 < n) : miiShiftN n h < 65536 := by
  induction n generalizing h with
  | zero => omega
  | succ n ih =>
    cases n with
    | zero => exact miiShift1_lt h
    | succ m => exact ih _ (by omega)

theorem miiShift8_lt (h : Nat) : miiShift8 h < 65536 := miiShiftN_lt 8 h (by decide)

theorem miiCrcFrom_lt (h : Nat) (d : Bytes) (hh : h < 65536) : miiCrcFrom h d < 65536 := by
  induction d generalizing h with
  | nil => exact hh
  | cons c r ih =>
    apply ih
    apply Nat.xor_lt_two_pow (n := 16) (miiShift8_lt h)
    exact Nat.lt_trans c.toNat_lt (by decide)

theorem miiCrc16_lt (d : Bytes) : miiCrc16 d < 65536 := miiCrcFrom_lt 0 d (by decide)

theorem miiCrcFrom_append (h : Nat) (a b : Bytes) : miiCrcFrom h (a ++ b) = miiCrcFrom (miiCrcFrom h a) b := by
  induction a generalizing h with
  | nil => rfl
  | cons c r ih => exact ih _

/-- eight shifts of a byte value never overflow: `shift8 x = x <<< 8` (all 256 cases, kernel-evaluated) -/
theorem miiShift8_byte : ∀ x < 256, miiShift8 x = x <<< 8 := by decide +kernel

/-- a 16-bit value is its high byte shifted, xor its low byte (all 65536 cases, kernel-evaluated) -/
theorem split16_aux (hi lo : Nat) (hlo : lo < 256) : (hi <<< 8) ^^^ lo = hi * 256 + lo := by
  have h1 : hi * 256 + lo = 2 ^ 8 * hi ||| lo := by
    rw [← Nat.two_pow_add_eq_or_of_lt (by simpa using hlo)]; omega
  rw [h1, Nat.shiftLeft_eq, Nat.mul_comm]
  apply Nat.eq_of_testBit_eq; intro i
  rw [Nat.testBit_xor, Nat.testBit_or]
  by_cases hi8 : i < 8
  · have : (2 ^ 8 * hi).testBit i = false := by
      rw [Nat.testBit_two_pow_mul]; simp; omega
    simp [this]
  · have h2 : (2 : Nat) ^ 8 ≤ 2 ^ i := Nat.pow_le_pow_right (by decide) (by omega)
    have : lo.testBit i = false := Nat.testBit_lt_two_pow (Nat.lt_of_lt_of_le hlo h2)
    simp [this]

theorem split16 (x : Nat) (hx : x < 65536) : ((x / 256 % 256) <<< 8) ^^^ (x % 256) = x := by
  rw [split16_aux _ _ (Nat.mod_lt _ (by decide))]
  omega

/-- the two trailing bytes `be16 x` turn the register `h` into `shift8 (shift8 h) ^^^ x` -/
theorem miiCrcFrom_be16 (h x : Nat) (hx : x < 65536) :
    miiCrcFrom h [b8 (x / 256), b8 x] = miiShift8 (miiShift8 h) ^^^ x := by
  simp only [miiCrcFrom]
  have e1 : (b8 (x / 256)).toNat = x / 256 % 256 := by simp [b8, UInt8.toNat_ofNat']
  have e2 : (b8 x).toNat = x % 256 := by simp [b8, UInt8.toNat_ofNat']
  rw [e1, e2, miiShift8_xor, miiShift8_byte _ (Nat.mod_lt _ (by decide)), Nat.xor_assoc, split16 x hx]

theorem miiCrcFrom_zero2 (h : Nat) : miiCrcFrom h [0, 0] = miiShift8 (miiShift8 h) := by
  simp [miiCrcFrom]

/-- **the checksum equation**: for every data and every 16-bit trailer `x`,
    `crc16 (data ++ be16 x) = crc16 (data ++ [0,0]) xor x` -/
theorem miiCrc16_trailer (d : Bytes) (x : Nat) (hx : x < 65536) :
    miiCrc16 (d ++ u16be x) = miiCrc16 (d ++ [0, 0]) ^^^ x := by
  unfold miiCrc16 u16be
  rw [miiCrcFrom_append, miiCrcFrom_append, miiCrcFrom_be16 _ _ hx, miiCrcFrom_zero2]

theorem miiCrc16_valid (d : Bytes) : miiCrc16 (d ++ u16be (miiCrc16 (d ++ [0, 0]))) = 0 := by
  rw [miiCrc16_trailer _ _ (miiCrc16_lt _), Nat.xor_self]

theorem miiCrc16_trailer_zero_iff (d : Bytes) (x : Nat) (hx : x < 65536) :
    miiCrc16 (d ++ u16be x) = 0 ↔ x = miiCrc16 (d ++ [0, 0]) := by
  rw [miiCrc16_trailer d x hx]
  constructor
  · intro h
    have := congrArg (miiCrc16 (d ++ [0, 0]) ^^^ ·) h
    simp only [← Nat.xor_assoc, Nat.xor_self, Nat.zero_xor, Nat.xor_zero] at this
    exact this
  · intro h; rw [h, Nat.xor_self]

/-- the augmented form equals the textbook CRC-16/XMODEM register of the un-augmented data -/
theorem xmodem_fold (h : Nat) (d : Bytes) :
    miiShift8 (miiShift8 (miiCrcFrom h d)) = d.foldl xmodemByte (miiShift8 (miiShift8 h)) := by
  induction d generalizing h with
  | nil => rfl
  | cons c r ih =>
    simp only [miiCrcFrom, List.foldl_cons]
    rw [ih]
    congr 1
    unfold xmodemByte
    rw [miiShift8_xor, miiShift8_xor, miiShift8_byte _ c.toNat_lt, ← miiShift8_xor]

theorem miiCrc16_aug_eq_xmodem (d : Bytes) : miiCrc16 (d ++ [0, 0]) = xmodem d := by
  unfold miiCrc16 xmodem
  rw [miiCrcFrom_append, miiCrcFrom_zero2, xmodem_fold]
  rfl

end Nx.Crypto
