import NxModel.Api.Legacy
import NxModel.Switch.All
/-!
# Lemmas for C20: every configuration setter of every HTTP client changes a request field
(`out (s[k := v₁]) input ≠ out (s[k := v₂]) input`, for *every* pair of distinct values where the field is
copied verbatim, with explicit witnesses otherwise)
-/
namespace Nx.Api
open Nx Nx.Http Nx.Switch

/-- the hosts handed to the request callback -/
def hostsOf (r : Except Err (List Sent)) : List String := match r with | .ok l => l.map (·.1) | .error _ => []
/-- the value of header `name` in every request -/
def hdrOf (name : String) (r : Except Err (List Sent)) : List (Option String) :=
  match r with | .ok l => l.map fun x => (x.2.headers.find? (·.1 == name)).map (·.2) | .error _ => []
def formOf (key : String) (r : Except Err (List Sent)) : List (Option (Option String)) :=
  match r with
  | .ok l => l.map fun x => match x.2.body with
    | .form f => (f.find? (·.1 == key)).map (·.2)
    | .rawform f => (f.find? (·.1 == key)).map (·.2)
    | _ => none
  | .error _ => []

/-! ### Switch clients: `set_host` / `set_hosts`, `set_power_state`, `set_platform_region` -/

theorem dauth_set_host (s : Dauth) (h₁ h₂ : String) (hne : h₁ ≠ h₂) :
    hostsOf (({ s with host := h₁ }).call .challenge) ≠ hostsOf (({ s with host := h₂ }).call .challenge) ∧
    hdrOf "Host" (({ s with host := h₁ }).call .challenge) ≠ hdrOf "Host" (({ s with host := h₂ }).call .challenge) := by
  constructor
  · simp [hostsOf, Dauth.call, Dauth.challengeReq, hne]
  · by_cases hv : s.version < 1800 <;> simp [hdrOf, Dauth.call, Dauth.challengeReq, Dauth.headers, hv, hne]

theorem dauth_set_power_state (s : Dauth) (p₁ p₂ : String) (hne : p₁ ≠ p₂) :
    hdrOf "X-Nintendo-PowerState" (({ s with powerState := p₁ }).call .challenge) ≠
    hdrOf "X-Nintendo-PowerState" (({ s with powerState := p₂ }).call .challenge) := by
  by_cases hv : s.version < 1800 <;> simp [hdrOf, Dauth.call, Dauth.challengeReq, Dauth.headers, hv, hne]

/-- the platform region only matters through `region == 2` (`ist`) -/
theorem dauth_set_platform_region (s : Dauth) (cid : Nat) (ch mac : String) :
    formOf "ist" (({ s with region := 1 }).call (.deviceToken cid ch mac)) ≠ formOf "ist" (({ s with region := 2 }).call (.deviceToken cid ch mac)) := by
  simp [formOf, Dauth.call, Dauth.challengeReq, Dauth.tokenForm, sv]

theorem aauth_set_host (s : Aauth) (h₁ h₂ : String) (hne : h₁ ≠ h₂) (tok : String) :
    hostsOf (({ s with host := h₁ }).call (.challenge tok)) ≠ hostsOf (({ s with host := h₂ }).call (.challenge tok)) := by
  simp [hostsOf, Aauth.call, hne]

theorem aauth_set_power_state (s : Aauth) (p₁ p₂ : String) (hne : p₁ ≠ p₂) (t v : Nat) (tok : String) :
    hdrOf "X-Nintendo-PowerState" (({ s with powerState := p₁ }).call (.authSystem t v tok)) ≠
    hdrOf "X-Nintendo-PowerState" (({ s with powerState := p₂ }).call (.authSystem t v tok)) := by
  by_cases hv : s.version < 1800 <;> simp [hdrOf, Aauth.call, Aauth.headers, hv, hne]

theorem baas_set_host_power (s : Baas) (u : String) (hu : fmtS s.ua "nnAccount" = .ok u) (a b : String) (hne : a ≠ b) (tok : String) :
    hostsOf (({ s with host := a }).call (.authenticate tok none)) ≠ hostsOf (({ s with host := b }).call (.authenticate tok none)) ∧
    hdrOf "X-Nintendo-PowerState" (({ s with powerState := a }).call (.authenticate tok none)) ≠
    hdrOf "X-Nintendo-PowerState" (({ s with powerState := b }).call (.authenticate tok none)) := by
  constructor <;>
    simp [hostsOf, hdrOf, Baas.call, Baas.plan, Baas.send, Baas.headers, BaasPlan.hasJson, hu, bind, Except.bind, pure, Except.pure, truthy, moduleAccount, moduleFriends, hne]

theorem five_set_host (T : Tables) (s : Five) (h₁ h₂ : String) (hne : h₁ ≠ h₂) (tok : String) (uid : Nat) :
    hostsOf (Five.call T { s with host := h₁ } (.getInbox tok uid)) ≠ hostsOf (Five.call T { s with host := h₂ } (.getInbox tok uid)) := by
  simp [hostsOf, Five.call, hne]

theorem dragons_set_hosts (s : Dragons) (ua : String) (hs : s.uaNim = some ua) (h₁ h₂ : String) (hne : h₁ ≠ h₂) (tok : String) :
    hostsOf (({ s with hostDragons := h₁ }).call (.publishDeviceLinkedElicenses tok)) ≠
    hostsOf (({ s with hostDragons := h₂ }).call (.publishDeviceLinkedElicenses tok)) := by
  simp [hostsOf, Dragons.call, Dragons.send, hs, hne]

theorem nim_set_host (s : Nim) (h₁ h₂ : String) (hne : h₁ ≠ h₂) (cid : String) :
    hostsOf (({ s with host := h₁ }).sunCall .systemUpdateMeta) ≠ hostsOf (({ s with host := h₂ }).sunCall .systemUpdateMeta) ∧
    hostsOf (({ s with host := h₁ }).atumnCall (.downloadContent cid)) ≠ hostsOf (({ s with host := h₂ }).atumnCall (.downloadContent cid)) := by
  constructor <;> simp [hostsOf, Nim.sunCall, Nim.atumnCall, hne]

/-! ### nnas: ten setters, two values each, observed on `login` (url + headers) -/

def nnasWitness : List (NnasSet × NnasSet) :=
  [(.url "a", .url "b"), (.clientId "a", .clientId "b"), (.clientSecret "a", .clientSecret "b"), (.platformId 0, .platformId 1),
   (.deviceType 1, .deviceType 2), (.device 1 "s" 0x260 none, .device 2 "s" 0x260 none), (.locale 1 "NL" "en", .locale 2 "NL" "en"),
   (.fpdVersion 0, .fpdVersion 1), (.environment "L1", .environment "D1"), (.title 0x10 1, .title 0x20 1)]

def nnasObs (s : Nnas) : String × Hdrs := ((s.login "u" "p" none).1, (s.login "u" "p" none).2.headers)

theorem nnas_setters_effect : nnasWitness.all (fun p => nnasObs (Nnas.apply {} p.1) != nnasObs (Nnas.apply {} p.2)) = true := by decide

/-! ### nasc: ten setters, observed on `login` (url, headers, raw form fields) -/

def nascBase : Nasc :=
  { bssId := "00", titleId := some 1, serialNumber := some "S", pid := some 1, pidHmac := some "h" }

def nascWitness : List (NascSet × NascSet) :=
  [(.url "a", .url "b"), (.sdkVersion 0 0, .sdkVersion 1 2), (.title 1 0 "----" "00" 0 none, .title 2 0 "----" "00" 0 none),
   (.device "S" "m" [] "" "2", .device "T" "m" [] "" "2"), (.network "a" "i", .network "b" "i"), (.locale 1 2, .locale 3 2),
   (.user 1 "h", .user 2 "h"), (.password "a", .password "b"), (.fpdVersion 15, .fpdVersion 16), (.environment "L1", .environment "D1")]

def nascObs (r : Except Err Nasc) : Option (String × Hdrs × List (String × RawV)) :=
  match r with
  | .ok s => match s.titleId, s.serialNumber with
    | some t, some n => some (s.url, s.loginHeaders 7, s.rawFields t n 7 "n" "t")
    | _, _ => none
  | .error _ => none

theorem nasc_setters_effect : nascWitness.all (fun p => nascObs (nascBase.apply p.1) != nascObs (nascBase.apply p.2)) = true := by decide

/-! ### nnas / nasc: the arguments of a setter are carried in their documented place — for **all** values
(0, the empty string, … are not special), on every later request, until a setter of the same group is called again -/

theorem nnas_setter_carried (s : Nnas) (st : NnasSet) (auth cert : Option String) :
    ∀ f ∈ st.fields, f ∈ (s.apply st).prepare auth cert := by
  cases st <;> simp [NnasSet.fields, Nnas.apply, Nnas.prepare]

theorem nnas_login_carried (s : Nnas) (st : NnasSet) (u p : String) (t : Option String) :
    ∀ f ∈ st.fields ++ st.loginFields, f ∈ ((s.apply st).login u p t).2.headers := by
  intro f hf
  rcases List.mem_append.mp hf with h | h
  · exact nnas_setter_carried s st none _ f h
  · cases st <;> simp [NnasSet.loginFields] at h
    rename_i id serial sv c
    cases c <;> simp at h
    subst h
    simp [Nnas.login, Nnas.apply, Nnas.prepare]

/-- a setter of another attribute group does not disturb what an earlier setter configured -/
theorem nnas_setter_persists (s : Nnas) (st st' : NnasSet) (h : st.kind ≠ st'.kind) (auth cert : Option String) :
    ∀ f ∈ st.fields, f ∈ ((s.apply st).apply st').prepare auth cert := by
  cases st <;> cases st' <;> simp [NnasSet.kind] at h <;> simp [NnasSet.fields, Nnas.apply, Nnas.prepare]

/-- "by default, these headers are omitted" -/
theorem nnas_optional_omitted (auth cert : Option String) : ∀ p ∈ ({} : Nnas).prepare auth cert, p.1 ∉ nnasOptionalHeaders := by
  intro p hp
  cases auth <;> cases cert <;> simp [Nnas.prepare] at hp <;> rcases hp with h | h | h | h | h | h | h | h | h | h | h | h | h | h <;>
    (try subst h) <;> simp [nnasOptionalHeaders]

/-- every public call sends exactly the prepared headers -/
theorem nnas_calls_prepare (s : Nnas) (tok cid : String) (g : Nat) (pids : List Nat) (nnids : List String) :
    (s.getNexToken tok g).2.headers = s.prepare (some tok) none ∧ (s.getServiceToken tok cid).2.headers = s.prepare (some tok) none ∧
    (s.getProfile tok).2.headers = s.prepare (some tok) none ∧ (s.getMiis pids).2.headers = s.prepare none none ∧
    (s.getPids nnids).2.headers = s.prepare none none ∧ (s.getNnids pids).2.headers = s.prepare none none :=
  ⟨rfl, rfl, rfl, rfl, rfl, rfl⟩

theorem apply_ok_title {s s' : Nasc} {id v pc mc mt rom} (h : s.apply (.title id v pc mc mt rom) = .ok s') :
    s' = { s with titleId := some id, titleVersion := v, productCode := pc, makerCode := mc, mediaType := mt, romId := rom } := by
  simp only [Nasc.apply] at h
  split at h
  · cases h
  · cases h; rfl

theorem nasc_setter_carried (s s' : Nasc) (st : NascSet) (h : s.apply st = .ok s') (g : Nat) (nick dt : String)
    (F : List (String × RawV)) (hF : s'.form g nick dt = some F) : ∀ f ∈ st.fields, f ∈ F := by
  unfold Nasc.form at hF
  split at hF
  case h_2 => cases hF
  case h_1 t n ht hn =>
    cases hF
    cases st
    case title id v pc mc mt rom =>
      have := apply_ok_title h; subst this
      simp at ht; subst ht
      by_cases hm : mt = 2 <;> simp [NascSet.fields, Nasc.rawFields, hm]
    all_goals
      simp only [Nasc.apply] at h
      cases h
      simp at ht hn
      try subst hn
      simp [NascSet.fields, Nasc.rawFields]

theorem nasc_setter_hdr_carried (s s' : Nasc) (st : NascSet) (h : s.apply st = .ok s') (g : Nat) :
    ∀ f ∈ st.hdrFields, f ∈ s'.loginHeaders g := by
  cases st
  case title id v pc mc mt rom => simp [NascSet.hdrFields]
  all_goals
    simp only [Nasc.apply] at h
    cases h
    simp [NascSet.hdrFields, Nasc.loginHeaders]
/-! ### hpp -/

theorem hpp_set_environment : Hpp.host { gameServerId := 0x1234, environment := "L1" } ≠ Hpp.host { gameServerId := 0x1234, environment := "D1" } := by
  decide

end Nx.Api
