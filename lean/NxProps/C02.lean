import NxProofs.Timers
import NxProofs.Silence
import NxProofs.KeepAlive
import NxProofs.Settle
import NxProofs.Gating
import NxProps.C04
import NxProofs.C02Ports
/-!
# C02 — no PRUDP operation hangs: silence and closure release every waiter

Model: L1 endpoint with its timer wheel (`Sched`, mirroring `anynet.scheduler`), `Conn.advance` (fires what becomes
due, each timer at its own instant). `Conn.Released c` = DISCONNECTED ∧ every queue EOF ∧ handshake event set ∧ close
event set ∧ no timer left — i.e. every blocked `connect`, `recv`, `recv_unreliable`, `disconnect` has been woken and
will find the state that makes it raise / return (that a set `anyio.Event` or an EOF'd memory stream does wake its
waiter is anyio's behaviour: observed by the tie, not proved).

Proved here: the release predicate after `cleanup`; closed is closed; the retransmission chain with its exact bound
(`resend_chain`: the connect bound of the property); and the general silence bound (`silence_bound`): for EVERY state
in which some timer's chain runs out by `D` (`Conn.Doomed`), however many other timers are in flight and whatever they
do when they fire (retransmit, re-arm, raise, find the link down), once the clock has passed `D` with no datagram
heard the connection is `Dead` (DISCONNECTED, queues EOF, handshake and close events set). `Doomed` holds with
`D = t + ping_timeout + (resend_limit+1)·resend_timeout` from the moment the keep-alive is armed at `t`
(`served_is_doomed`, `connected_is_doomed`), with `D = t + (resend_limit+1)·resend_timeout` after any packet that
wants an acknowledgement was sent at `t` (`unacked_is_doomed`), and it is re-established by every keep-alive that
fires (`keepalive_rearms`), so the bound of the property counts from the last instant something was heard.
The keep-alive is an invariant (`Conn.KA c P`: dead, or a keep-alive timer that no acknowledgement entry can cancel is
due by `P`): established by `serve` and by the resumed `handshake()` (`served_has_keepalive`,
`connected_has_keepalive`, with `handshake_handles_wf`), preserved by every datagram handled, every application call
and every timer that fires (`keepalive_survives_*`), and pushed forward by at most one period while time passes
(`keepalive_while_time_passes`). `established_silence_bound` composes the two: whatever the connection has been
through, if a keep-alive is due by `s + ping_timeout` and nothing is heard after `s`, the connection is dead once the
clock has passed `s + ping_timeout + (resend_limit+1)·resend_timeout`.
`advance_settles` discharges the `Settled` hypothesis: with a positive resend period and positive repeat periods every firing
round moves the earliest deadline strictly forward, so `T + 1` rounds reach a state with nothing due at `T`
(`silence_bound_total`, `accepted_connection_dies_in_silence`).
Not proved (runtime, observed by the tie): that anyio wakes a waiter whose event is set / whose stream is EOF'd.
-/
namespace Nx.C02
open Nx Nx.Prudp Nx.L1

/-- `cleanup()` releases every waiter -/
theorem cleanup_releases (c : Conn) : c.cleanup.c.Released ∧ c.cleanup.err = none :=
  ⟨cleanup_released c, cleanup_no_error c⟩

/-- **connect bound / retransmission chain**: a reliable packet that is never acknowledged is retransmitted at
    intervals of `resend_timeout`, `resend_limit − k` more times, and then the connection is torn down — exactly at
    `d + (resend_limit − k)·resend_timeout` where `d` is the deadline of the pending timer. For a fresh connect
    (`k = 0`, `d = t₀ + resend_timeout`): `t₀ + (resend_limit+1)·resend_timeout`, whatever arrives in between that is
    not an acceptable SYN/ACK (such packets are inert: C04). -/
theorem connect_bound (env : Env) (T : Nat) (m : Nat) (c : Conn) (p : Packet) (k : Nat) (d : Nat) (fuel : Nat)
    (h1 : c.OnlyResend p k d) (h2 : c.linkUp = true) (h3 : k + m = c.resendLimit) (h4 : m + 1 ≤ fuel)
    (h5 : d + m * (c.resendTimeout : Nat) ≤ T) : (Conn.advance env fuel T c).1.Released :=
  resend_chain env T m c p k d fuel h1 h2 h3 h4 h5

/-- one step of the chain, below and at the limit -/
theorem resend_below_limit (env : Env) (now : Time) (c : Conn) (p : Packet) (k : Nat) (hk : k < c.resendLimit) (hl : c.linkUp = true) :
    c.resendPacket env now p k = R.ok (c.arm now p (k + 1)) [Out.emit c.remoteAddr p (encode env.cfg p)] :=
  resend_step_below env now c p k hk hl

theorem resend_at_limit (env : Env) (now : Time) (c : Conn) (p : Packet) (k : Nat) (hk : ¬ k < c.resendLimit) :
    c.resendPacket env now p k = c.cleanup :=
  resend_step_limit env now c p k hk

/-- **closed is closed**: after a connection has ended, sends raise the closed-connection error, `close`/`disconnect`
    return at once, and every datagram is ignored -/
theorem closed_send (env : Env) (now : Time) (c : Conn) (data : Bytes) (sub : Nat) (h : c.state = STATE_DISCONNECTED) :
    (c.send env now data sub).c = c ∧ (c.send env now data sub).outs = [] ∧ (c.send env now data sub).err = some .closed :=
  send_after_close env now c data sub h

theorem closed_send_unreliable (env : Env) (now : Time) (c : Conn) (data : Bytes) (h : c.state = STATE_DISCONNECTED) :
    (c.sendUnreliable env now data).c = c ∧ (c.sendUnreliable env now data).outs = [] ∧
    (c.sendUnreliable env now data).err = some .closed :=
  send_unreliable_after_close env now c data h

theorem closed_close (env : Env) (now : Time) (c : Conn) (h : c.state = STATE_DISCONNECTED) :
    (c.close env now).c = c ∧ (c.close env now).outs = [] ∧ (c.close env now).err = none :=
  close_after_close env now c h

theorem closed_disconnect (env : Env) (now : Time) (c : Conn) (h : c.state = STATE_DISCONNECTED) :
    (c.disconnect env now).c = c ∧ (c.disconnect env now).outs = [] :=
  disconnect_after_close env now c h

theorem closed_ignores_traffic (env : Env) (now : Time) (c : Conn) (p : Packet) (h : c.state = STATE_DISCONNECTED) :
    (c.handle env now p).inert c ∧ (c.handle env now p).err = none :=
  handle_disconnected env now c p h

/-- released stays released while time passes (no timer can fire any more) -/
theorem released_is_stable (env : Env) (fuel : Nat) (T : Time) (c : Conn) (h : c.Released) (hs : c.sched.isSome) :
    (Conn.advance env fuel T c).1 = c :=
  released_stable_advance env fuel T c h hs

/-- **the silence bound** (see the header) -/
theorem silence_bound (env : Env) (fuel T D : Nat) (c : Conn) (h : c.Doomed D) (hT : D ≤ T)
    (hset : (Conn.advance env fuel T c).1.Settled T) : (Conn.advance env fuel T c).1.Dead :=
  L1.silence_bound env fuel T D c h hT hset

/-- doomed stays doomed (by the same instant) while only timers fire -/
theorem doomed_is_stable (env : Env) (T D fuel : Nat) (c : Conn) (h : c.Doomed D) : (Conn.advance env fuel T c).1.Doomed D :=
  advance_doomed env T D fuel c h

/-- `Dead` is what the waiters look at: state, EOF on the queues, both events -/
theorem dead_releases (c : Conn) (h : c.Dead) :
    c.state = STATE_DISCONNECTED ∧ c.eof = true ∧ c.handshakeEvent = true ∧ c.closeEvent = true := h

/-- a server-side connection is doomed from the moment it is accepted: keep-alive at `now + ping_timeout`, then the chain -/
theorem served_is_doomed (c : Conn) (now : Time) :
    (c.serve now).Doomed (now + c.pingTimeout + (c.resendLimit + 1) * c.resendTimeout) := by
  refine Or.inr ⟨⟨0, now + c.pingTimeout, some c.pingTimeout, .ping⟩, ?_, ?_⟩
  · simp [evs, Conn.serve, Sched.repeat]
  · simp [tbound, Conn.serve]

/-- a client connection is doomed from the moment `connect` returns -/
theorem connected_is_doomed (c : Conn) (now : Time) (h1 : c.waitingHandshake = true) (h2 : c.handshakeEvent = true)
    (h3 : c.state = STATE_CONNECTED) (h4 : c.sched.isSome) :
    (c.resumeHandshake now).c.Doomed (now + c.pingTimeout + (c.resendLimit + 1) * c.resendTimeout) := by
  unfold Conn.resumeHandshake
  rw [if_pos ⟨h1, h2⟩, if_pos h3]
  cases hs : c.sched with
  | none => rw [hs] at h4; cases h4
  | some s =>
    refine Or.inr ⟨⟨s.nextHandle, now + c.pingTimeout, some c.pingTimeout, .ping⟩, ?_, ?_⟩
    · simp [evs, Sched.repeat, R.ok]
    · simp [tbound, R.ok]

/-- after anything that wants an acknowledgement was sent at `now` (DATA, DISCONNECT, PING, SYN, CONNECT) -/
theorem unacked_is_doomed (env : Env) (now : Nat) (c : Conn) (p : Packet) (hs : c.sched.isSome)
    (hp : ((hasReliable p.flags || p.type == TYPE_SYN) && hasNeedAck p.flags) = true) :
    (c.sendPacket env now p).err.isSome ∨ (c.sendPacket env now p).c.Doomed (now + (c.resendLimit + 1) * c.resendTimeout) :=
  sendPacket_doomed env now c p hs hp

/-- every keep-alive that fires at `d` (re-)establishes the bound `d + (resend_limit+1)·resend_timeout` -/
theorem keepalive_rearms (env : Env) (d : Nat) (c : Conn) (hs : c.sched.isSome) :
    (c.fireOne env d .ping).c.Doomed (d + (c.resendLimit + 1) * c.resendTimeout) :=
  fireOne_doomed env d c .ping hs

/-! ### the keep-alive invariant -/

theorem served_has_keepalive (c : Conn) (now : Time) (h : c.ackEvents = []) : (c.serve now).KA (now + c.pingTimeout) :=
  serve_ka c now h

theorem handshake_handles_wf (env : Env) (now : Time) (c : Conn) (creds : Option Creds) (h : c.ackEvents = []) :
    AWF (c.handshake env now creds).c := handshake_awf env now c creds h

theorem handles_wf_survives_traffic (env : Env) (now : Time) (c : Conn) (p : Packet) (h : AWF c) : AWF (c.handle env now p).c :=
  (tfk_handle env now c p).awf h

theorem connected_has_keepalive (c : Conn) (now : Time) (h1 : c.waitingHandshake = true) (h2 : c.handshakeEvent = true)
    (h3 : c.state = STATE_CONNECTED) (h4 : c.sched.isSome) (hw : AWF c) :
    (c.resumeHandshake now).c.KA (now + c.pingTimeout) := resumeHandshake_ka c now h1 h2 h3 h4 hw

theorem keepalive_survives_traffic (env : Env) (now : Time) (c : Conn) (p : Packet) (P : Nat) (h : c.KA P) :
    (c.handle env now p).c.KA P := ka_handle env now c p P h

theorem keepalive_survives_send (env : Env) (now : Time) (c : Conn) (data : Bytes) (sub : Nat) (P : Nat) (h : c.KA P) :
    (c.send env now data sub).c.KA P := ka_send env now c data sub P h

theorem keepalive_survives_send_unreliable (env : Env) (now : Time) (c : Conn) (data : Bytes) (P : Nat) (h : c.KA P) :
    (c.sendUnreliable env now data).c.KA P := ka_sendUnreliable env now c data P h

theorem keepalive_survives_disconnect (env : Env) (now : Time) (c : Conn) (P : Nat) (h : c.KA P) :
    (c.disconnect env now).c.KA P := ka_disconnect env now c P h

theorem keepalive_survives_close (env : Env) (now : Time) (c : Conn) (P : Nat) (h : c.KA P) :
    (c.close env now).c.KA P := ka_close env now c P h

theorem keepalive_while_time_passes (env : Env) (T fuel : Nat) (c : Conn) (P : Nat) (h : c.KA P) :
    (Conn.advance env fuel T c).1.KA (max P (T + c.pingTimeout)) := ka_advance env T fuel c P h

/-- **the property's bound for an established connection**, from any instant `s` after which nothing is heard -/
theorem established_silence_bound (env : Env) (fuel T s : Nat) (c : Conn) (h : c.KA (s + c.pingTimeout))
    (hT : s + c.pingTimeout + (c.resendLimit + 1) * c.resendTimeout ≤ T)
    (hset : (Conn.advance env fuel T c).1.Settled T) : (Conn.advance env fuel T c).1.Dead :=
  L1.silence_bound env fuel T _ c (ka_doomed c _ h) hT hset

/-- `advance` settles (no fuel hypothesis left): nothing is due at `T` after `T + 1 - lo` rounds -/
theorem advance_settles (env : Env) (T fuel : Nat) (c : Conn) (lo : Nat) (hrt : 0 < c.resendTimeout) (hrp : RepPos c)
    (hlo : ∀ t ∈ evs c, lo ≤ t.deadline) (hf : T + 1 ≤ lo + fuel) : (Conn.advance env fuel T c).1.Settled T :=
  L1.advance_settles env T fuel c lo hrt hrp hlo hf

/-- the silence bound with every hypothesis about the run discharged -/
theorem silence_bound_total (env : Env) (T D : Nat) (c : Conn) (h : c.Doomed D) (hT : D ≤ T)
    (hrt : 0 < c.resendTimeout) (hrp : RepPos c) : (Conn.advance env (T + 1) T c).1.Dead :=
  L1.silence_bound_total env T D c h hT hrt hrp

/-- a server-side connection that never hears anything after it was accepted at `now` is dead by
    `now + ping_timeout + (resend_limit+1)·resend_timeout` — no hypothesis about the run -/
theorem accepted_connection_dies_in_silence (env : Env) (c : Conn) (now : Time) (T : Nat)
    (hrt : 0 < c.resendTimeout) (hpt : 0 < c.pingTimeout)
    (hT : now + c.pingTimeout + (c.resendLimit + 1) * c.resendTimeout ≤ T) :
    (Conn.advance env (T + 1) T (c.serve now)).1.Dead :=
  L1.silence_bound_total env T _ (c.serve now) (served_is_doomed c now) hT hrt (serve_reppos c now hpt)

/-! non-vacuity: a fresh client after `handshake()` is exactly in the situation of `connect_bound` -/
example :
    let c := Conn.new C04.toyEnv (some 1) 1 2 3 ("10.0.0.2", 1) 15 10 ("10.0.0.1", 2) 1 10
    ((c.handshake C04.toyEnv 0 none).c.OnlyResend
        { type := 0, flags := 4, version := some 1, sourceType := 10, sourcePort := 15, destType := 10, destPort := 1,
          connectionSignature := some (List.replicate 16 0), signature := some [0] } 0 (0 + c.resendTimeout)) ∧
    (c.handshake C04.toyEnv 0 none).c.linkUp = true := by
  refine ⟨⟨1, 0, ?_⟩, rfl⟩
  decide

/-! non-vacuity of `silence_bound`: an accepted connection that hears nothing — the run settles and the hypothesis holds -/
example :
    let c := (Conn.new C04.toyEnv (some 1) 1 2 3 ("10.0.0.2", 1) 15 10 ("10.0.0.1", 2) 1 10).serve 0
    let D := 0 + c.pingTimeout + (c.resendLimit + 1) * c.resendTimeout
    (Conn.advance C04.toyEnv 64 D c).1.Settled D ∧ (Conn.advance C04.toyEnv 64 D c).1.state = STATE_DISCONNECTED := by
  simp only []
  decide

/-! ## the same address can connect again: the local ports of a long-lived transport (`PRUDPPortTable`)

`PRUDPClientTransport.connect` / `PRUDPServerTransport.serve` run inside `with self.ports.bind(...)`. Model:
`NxModel/Prudp/C02Ports.lean`; tie: harness/c02_ports_tie.py (generated obligations: the real table and the model agree on sequences of
blocks left normally / by an exception / by cancellation) and harness/c02_reuse.py (20..40 real connections on one transport). -/

/-- however the connections of ONE transport end (returned, raised, cancelled — e.g. failed handshake, EndOfStream or an
    application exception leaving the block), any number of them one after the other leaves no local port bound, and every
    one of them is given the same local port a fresh transport would give: the port table never runs out -/
theorem transport_reuse (t : Prudp.Ports.Table) (sessions : List (Option Nat × Nat × Prudp.Ports.Exit)) :
    (t.blocks sessions).1 = t ∧
    (t.blocks sessions).2 = sessions.map (fun b => (t.block b.1 b.2.1 b.2.2).2) :=
  ⟨Prudp.Ports.blocks_restore t sessions, Prudp.Ports.blocks_yields t sessions⟩

/-- on a transport with nothing bound and `n+1` ports, the k-th connection — after any history of endings — gets port `n` -/
theorem transport_reuse_fresh (n type : Nat) (hows : List Prudp.Ports.Exit) :
    ((Prudp.Ports.Table.mk (n + 1) []).blocks (hows.map (fun h => (none, type, h)))).2 = hows.map (fun _ => some (Prudp.Ports.key n type &&& 0xFF)) := by
  rw [Prudp.Ports.blocks_yields]
  simp [List.map_map, Function.comp_def, Prudp.Ports.Table.block, Prudp.Ports.Table.enter, Prudp.Ports.allocate_empty,
        bind, Except.bind, pure, Except.pure]

/-- a `transport.serve(handler, port, type)` block left in any way allows the same virtual port to be served again -/
theorem serve_again (t : Prudp.Ports.Table) (port type : Nat) (how how' : Prudp.Ports.Exit) :
    ((t.block (some port) type how).1.block (some port) type how').2 = (t.block (some port) type how).2 := by
  rw [Prudp.Ports.block_restores]
  exact Prudp.Ports.block_yield_indep t (some port) type how' how

/-! non-vacuity: 40 connections on a UDP transport (16 ports) all ending abnormally: each gets port 15, nothing stays bound -/
example : ((Prudp.Ports.Table.mk 16 []).blocks (List.replicate 40 (none, 10, .raised))) = (Prudp.Ports.Table.mk 16 [], List.replicate 40 (some 15)) := by
  decide

/-- counterexample of the defective variant (the key released only on a normal return): after 16 abnormal endings a UDP
    transport (16 ports) cannot connect any more -/
theorem leaky_bind_counterexample :
    ((Prudp.Ports.Table.mk 16 []).blocksLeaky (List.replicate 16 (none, 10, .raised) ++ [(none, 10, .returned)])).2.getLast? = some none := by
  decide

end Nx.C02
