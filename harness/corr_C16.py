"""C16 — Kerberos tickets round-trip, authenticate, and keys derive per specification.

Tie of NxModel/Nex/Kerberos.lean (+ the Lean MD5 / HMAC-MD5 / RC4 references) to nintendo/nex/kerberos.py:
differential run with the ticket randomness pinned, every single-bit flip / truncation of sampled ciphertexts,
wrong keys, key derivations over the stated parameter ranges, and the property oracles on the real code.
"""
import hashlib, hmac, struct
from nintendo.nex import kerberos, common
import nexval_gen as G
import c16_seq
import c16_shape

LEVEL = "proof"


class PinnedSecrets:
    """stands in for the `secrets` module inside nintendo.nex.kerberos"""
    def __init__(self, rng): self.rng, self.calls = rng, []
    def token_bytes(self, n=32):
        b = self.rng.randbytes(n)
        self.calls.append((n, b))
        return b
    def __getattr__(self, name):
        import secrets
        return getattr(secrets, name)


# independent references written from the protocol description (not from kerberos.py)
def ref_derive_old(password, pid, base=65000, pidc=1024):
    k = password
    for _ in range(base + pid % pidc): k = hashlib.md5(k).digest()
    return k


def ref_derive_new(password, pid, base=1, pidc=1):
    k = password
    for _ in range(base): k = hashlib.md5(k).digest()
    k += pid.to_bytes(8, "little")
    for _ in range(pidc): k = hashlib.md5(k).digest()
    return k


def ref_rc4(key, data):
    s = list(range(256)); j = 0
    for i in range(256):
        j = (j + s[i] + key[i % len(key)]) & 255; s[i], s[j] = s[j], s[i]
    i = j = 0; out = bytearray()
    for b in data:
        i = (i + 1) & 255; j = (j + s[i]) & 255; s[i], s[j] = s[j], s[i]
        out.append(b ^ s[(s[i] + s[j]) & 255])
    return bytes(out)


def ref_envelope(key, data):
    e = ref_rc4(key, data)
    return e + hmac.new(key, e, hashlib.md5).digest()


def wrap(f):
    try: return "ok " + f()
    except Exception as e: return "err " + G.exc_name(e)


class Batch:
    def __init__(self): self.lines, self.reals, self.meta = [], [], []
    def add(self, line, real, meta):
        self.lines.append(line); self.reals.append(real); self.meta.append(meta)


def gen_key(rng):
    r = rng.random()
    if r < 0.1: return rng.randbytes(rng.choice([1, 16, 32, 64]))
    return rng.randbytes(rng.randint(1, 64))


def other_keys(rng, key):
    if not key: return [b"\0", b"x"]
    ks = [key + b"\0", key[:-1] if len(key) > 1 else key + b"x", bytes([key[0] ^ 1]) + key[1:], rng.randbytes(len(key)), key[::-1] if key[::-1] != key else key + b"y"]
    return [k for k in ks if k != key and k]


FINDING_HMAC_PAD = "wrong-key-accepted:hmac-zero-padded-key"


def hmac_equivalent(k1, k2):
    """HMAC pads keys of up to 64 bytes with zero bytes: such keys authenticate the same messages"""
    return len(k1) <= 64 and len(k2) <= 64 and k1.ljust(64, b"\0") == k2.ljust(64, b"\0")


def tamper(data):
    """every single-bit flip and every proper truncation"""
    for i in range(len(data)):
        for b in range(8):
            d = bytearray(data); d[i] ^= 1 << b
            yield "flip", bytes(d)
    for k in range(len(data)):
        yield "trunc", data[:k]


def run(ctx):
    rng = ctx.rng
    quick = ctx.tier == "quick"
    ctx.rule = ("differential: each line is one operation on the real nintendo.nex.kerberos and on the compiled Lean model (own MD5/HMAC/RC4): "
                "key derivations (old/new) over passwords 0..64 bytes, pids incl. 0, 2^32-1, 2^64-1, 2^64, iteration counts (65000,1024),(1,1),(0,1),(3,7),(5,10),(0,0); "
                "envelope encrypt/decrypt/check for keys 0..257 bytes and data 0..4 KiB; client/server tickets over key size 16/32 x pid 4/8 x version 0/1 with the "
                "ticket randomness pinned (ciphertexts compared byte for byte); sequences of 5..9 mixed operations (server/client tickets, raw envelope, decrypt) under ONE key and one settings object "
                "with keys alternating A,B,A,B: each call must draw exactly the randomness the model says and equal the model/reference for the randomness of that call; every single-bit flip and every truncation of sampled ciphertexts and wrong keys; "
                "ONE KeyDerivationOld/New object (defaults and small parameters) for 6..31 derivations in a row (pid % pid_count descending/ascending/repeating, passwords interleaved, a sibling object in between) compared with a fresh object, the reference and the model after every call; "
                "ONE settings object through ticket call sequences in which refused calls (1-bit flip, truncation, wrong key, wrong session-key size, id/time out of range) are followed by genuine ones: settings read the same, earlier tickets still open, new ciphertexts equal the reference; "
                "CIPHERTEXT-TARGETED tickets (c16_shape.py): RC4 is an xor with a key stream, so field values (time stamp, ids, session-key bytes, buffer bytes; for version 1 also the pinned ticket key) are CHOSEN such that the "
                "ciphertext carries chosen u32 words (0, 16, 32, len-k) at offsets 0,4,8,12,16,20,24,28, pairs at 0 and 20 (incl. the exact layout of the other ticket version: 16 at 0, len-24 at 20) and two-buffer chains tiling the ciphertext, "
                "for server tickets v0/v1 and client tickets x key size 16/32 x pid 4/8 x several keys: issued = reference, decrypts under its own key and version setting to its fields; "
                "oracles on the real code: round trip of all fields, equality with independent Python references, rejection of every tampered ciphertext. "
                "distinct non-trivial = distinct operation lines")
    ctx.assumptions.append("HMAC-MD5 unforgeability (a party without the key cannot produce an accepted tag): cryptographic assumption, not a Lean hypothesis; "
                           "the theorems give accepted => tag = HMAC(key, body), the harness samples all 1-bit flips/truncations")
    B = Batch()
    drv = ctx.driver()
    if drv.batch(["selftest"]) != ["ok T"]:
        ctx.corr_break("lean-crypto-selftest", "the Lean MD5/HMAC/RC4 references no longer reproduce the RFC / repo known-answer vectors", {})
        return
    fails = {"n": 0}
    def violation(key, what, replay):
        if fails["n"] < 12:
            fails["n"] += 1
            ctx.violation(key, what, replay)

    # ---------------------------------------------------------------- key derivation
    pids = [0, 1, 1023, 1024, 1025, 123456, (1 << 32) - 1, 1 << 32, (1 << 64) - 1, 1 << 64]
    counts = [(1, 1), (0, 1), (3, 7), (5, 10), (0, 0), (2, 0), (0, 3)]
    pw_lens = list(range(0, 65)) if not quick else [0, 1, 2, 8, 15, 16, 17, 31, 32, 55, 56, 63, 64] + [rng.randint(0, 64) for _ in range(6)]
    cases = []
    for n in pw_lens:
        pw = rng.randbytes(n)
        for (b, p) in counts:
            for pid in (pids if n in (0, 8, 64) else rng.sample(pids, 3) + [rng.getrandbits(64)]):
                cases.append((b, p, pw, pid))
    heavy = [(65000, 1024, b"password", 123456), (65000, 1024, b"", 0), (65000, 1024, rng.randbytes(64), (1 << 64) - 1), (65000, 1024, rng.randbytes(9), (1 << 32) - 1)]
    heavy += [(65000, 1024, rng.randbytes(rng.randint(0, 64)), rng.getrandbits(64)) for _ in range(4 if quick else 60)]
    for (b, p, pw, pid) in cases + heavy:
        for kind, cls, ref in (("old", kerberos.KeyDerivationOld, ref_derive_old), ("new", kerberos.KeyDerivationNew, ref_derive_new)):
            if kind == "new" and b == 65000: b2, p2 = 1, 1
            else: b2, p2 = b, p
            real = wrap(lambda: G.hx(cls(b2, p2).derive_key(pw, pid)))
            B.add("kd.%s %d %d %s %d" % (kind, b2, p2, G.hx(pw), pid), real, ("kd." + kind, None))
            # oracle: equals the reference derivation wherever the reference is defined
            defined = (p2 != 0) if kind == "old" else pid < 1 << 64
            if defined:
                want = "ok " + G.hx(ref(pw, pid, b2, p2))
                if real != want:
                    violation("derive-%s:%d,%d" % (kind, b2, p2), "KeyDerivation%s(%d,%d).derive_key differs from the reference derivation" % (kind.capitalize(), b2, p2),
                              {"scheme": kind, "base_count": b2, "pid_count": p2, "password": pw.hex(), "pid": pid, "real": real, "reference": want})
    # defaults of the constructors are part of the specification
    for kind, cls, ref in (("old", kerberos.KeyDerivationOld, ref_derive_old), ("new", kerberos.KeyDerivationNew, ref_derive_new)):
        pw, pid = b"password", 123456
        real = wrap(lambda: G.hx(cls().derive_key(pw, pid)))
        b, p = (65000, 1024) if kind == "old" else (1, 1)
        B.add("kd.%s %d %d %s %d" % (kind, b, p, G.hx(pw), pid), real, ("kd.default", None))
        if real != "ok " + G.hx(ref(pw, pid)):
            violation("derive-%s:defaults" % kind, "default iteration counts of KeyDerivation%s differ from the specification" % kind.capitalize(), {"scheme": kind, "real": real})

    # ONE derivation object used for a sequence of derivations (state carried from one derive_key to the next)
    c16_seq.kd_sequences(ctx, B, violation, ref_derive_old, ref_derive_new, wrap, quick)

    # ---------------------------------------------------------------- envelope
    tamper_src = []
    for i in range(400 if quick else 6000):
        key = gen_key(rng) if i >= 8 else [b"", b"k", bytes(64), bytes(65), bytes(256), bytes(257), b"key", bytes(range(1, 65))][i]
        r = rng.random()
        data = b"" if r < 0.1 else rng.randbytes(rng.randint(1, 48)) if r < 0.8 else rng.randbytes(rng.choice([64, 255, 256, 1000, 4096]))
        k = kerberos.KerberosEncryption(key)
        real = wrap(lambda: G.hx(k.encrypt(data)))
        B.add("enc %s %s" % (G.hx(key), G.hx(data)), real, ("enc", len(key)))
        if not real.startswith("ok "):
            if 1 <= len(key) <= 64: violation("envelope-encrypt:keylen=%d" % len(key), "encrypt failed for a %d-byte key" % len(key), {"key": key.hex(), "data": data.hex(), "real": real})
            continue
        ct = G.unhx(real[3:])
        if 1 <= len(key) <= 256 and ct != ref_envelope(key, data):
            violation("envelope-reference", "ciphertext differs from RC4(key, data) || HMAC-MD5(key, RC4(key, data))", {"key": key.hex(), "data": data.hex(), "real": ct.hex()})
        rd = wrap(lambda: G.hx(k.decrypt(ct)))
        B.add("dec %s %s" % (G.hx(key), G.hx(ct)), rd, ("dec", "ok"))
        B.add("chk %s %s" % (G.hx(key), G.hx(ct)), "ok " + G.show_bool(k.check(ct)), ("chk", None))
        if rd != "ok " + G.hx(data):
            violation("envelope-roundtrip", "decrypt(encrypt(x)) != x", {"key": key.hex(), "data": data.hex(), "decrypted": rd})
        for ok_ in other_keys(rng, key)[:2]:
            rr = wrap(lambda: G.hx(kerberos.KerberosEncryption(ok_).decrypt(ct)))
            B.add("dec %s %s" % (G.hx(ok_), G.hx(ct)), rr, ("dec", "wrong-key"))
            if rr.startswith("ok "):
                if hmac_equivalent(key, ok_):
                    ctx.violation(FINDING_HMAC_PAD, "a ciphertext was accepted under a different key (HMAC zero-padding equivalent)", {"key": key.hex(), "other_key": ok_.hex(), "ciphertext": ct.hex()[:400]})
                else:
                    violation("envelope-wrong-key", "a ciphertext was accepted under a different key", {"key": key.hex(), "other_key": ok_.hex(), "ciphertext": ct.hex()[:4000]})
        if len(ct) <= 40: tamper_src.append((key, ct))
    for key, ct in tamper_src[: (25 if quick else 250)]:
        k = kerberos.KerberosEncryption(key)
        for kind, d in tamper(ct):
            rr = wrap(lambda: G.hx(k.decrypt(d)))
            B.add("dec %s %s" % (G.hx(key), G.hx(d)), rr, ("dec", kind))
            if rr.startswith("ok "):
                violation("envelope-%s-accepted" % kind, "an altered ciphertext was accepted by KerberosEncryption.decrypt", {"key": key.hex(), "original": ct.hex(), "altered": d.hex()})
    for _ in range(300 if quick else 5000):
        key, d = gen_key(rng), rng.randbytes(rng.randint(0, 40))
        B.add("dec %s %s" % (G.hx(key), G.hx(d)), wrap(lambda: G.hx(kerberos.KerberosEncryption(key).decrypt(d))), ("dec", "random"))

    # ---------------------------------------------------------------- tickets
    pinned = PinnedSecrets(rng)
    saved = kerberos.secrets
    kerberos.secrets = pinned
    try:
        configs = [(ks, ps, ver) for ks in (16, 32) for ps in (4, 8) for ver in (0, 1)]
        tick_src = []
        n_t = 60 if quick else 1200
        for i in range(n_t * len(configs)):
            ks, ps, ver = configs[i % len(configs)]
            S = G.make_settings(pid_size=ps, key_size=ks, ticket_version=ver)
            key = gen_key(rng)
            pid = G.gen_int(rng, 0, 1 << (32 if ps == 4 else 64))
            r = rng.random()
            internal = b"" if r < 0.15 else rng.randbytes(rng.randint(1, 40)) if r < 0.9 else rng.randbytes(rng.choice([255, 1024, 4096]))
            sk = rng.randbytes(ks)
            bad = rng.random() < 0.08
            if bad:
                which = rng.randrange(3)
                if which == 0: sk = rng.randbytes(rng.choice([0, ks - 1, ks + 1, 48 - ks]))
                elif which == 1: pid = 1 << (32 if ps == 4 else 64)
                else: key = rng.choice([b"", bytes(257)])
            # client ticket
            t = kerberos.ClientTicket(); t.session_key, t.target, t.internal = sk, pid, internal
            real = wrap(lambda: G.hx(t.encrypt(key, S)))
            B.add("ct.enc %d %d %s %s %d %s" % (ks, ps, G.hx(key), G.hx(sk), pid, G.hx(internal)), real, ("ct.enc", (ks, ps)))
            if real.startswith("ok "):
                ct = G.unhx(real[3:])
                plain = sk + (struct.pack("<Q", pid) if ps == 8 else struct.pack("<I", pid)) + struct.pack("<I", len(internal)) + internal
                if ct != ref_envelope(key, plain):
                    violation("client-ticket-reference:%d/%d" % (ks, ps), "client ticket ciphertext differs from the reference construction",
                              {"key_size": ks, "pid_size": ps, "key": key.hex(), "session_key": sk.hex(), "target": pid, "internal": internal.hex(), "real": ct.hex()})
                def dec():
                    d = kerberos.ClientTicket.decrypt(ct, key, S)
                    return "%s %d %s" % (G.hx(d.session_key), d.target, G.hx(d.internal))
                rd = wrap(dec)
                B.add("ct.dec %d %d %s %s" % (ks, ps, G.hx(key), G.hx(ct)), rd, ("ct.dec", "ok"))
                if rd != "ok %s %d %s" % (G.hx(sk), pid, G.hx(internal)):
                    violation("client-ticket-roundtrip:%d/%d" % (ks, ps), "ClientTicket.decrypt(encrypt(t)) != t",
                              {"key_size": ks, "pid_size": ps, "key": key.hex(), "session_key": sk.hex(), "target": pid, "internal": internal.hex(), "got": rd})
                if len(ct) <= 80 and i < 10 * len(configs): tick_src.append(("ct", (ks, ps, 0), key, ct))
            elif not bad:
                violation("client-ticket-encrypt:%d/%d" % (ks, ps), "ClientTicket.encrypt failed on valid fields: " + real, {"key_size": ks, "pid_size": ps, "key": key.hex()})
            # server ticket
            ts = G.gen_datetime_value(rng)
            if bad and rng.random() < 0.3: ts = 1 << 64
            st = kerberos.ServerTicket(); st.timestamp, st.source, st.session_key = common.DateTime(ts), pid, sk
            ncalls = len(pinned.calls)
            real = wrap(lambda: G.hx(st.encrypt(key, S)))
            drawn = pinned.calls[ncalls:]
            tk = drawn[0][1] if drawn else b""
            B.add("st.enc %d %d %d %s %s %d %d %s" % (ks, ps, ver, G.hx(key), G.hx(tk), ts, pid, G.hx(sk)), real, ("st.enc", (ks, ps, ver)))
            if real.startswith("ok "):
                ct = G.unhx(real[3:])
                plain = struct.pack("<Q", ts) + (struct.pack("<Q", pid) if ps == 8 else struct.pack("<I", pid)) + sk
                if ver == 1:
                    if len(drawn) != 1 or drawn[0][0] != 16 or ct[:20] != struct.pack("<I", 16) + tk:
                        violation("server-ticket-v1-randomness", "a version-1 server ticket does not carry 16 fresh bytes of secrets.token_bytes as its ticket key",
                                  {"draws": [(n, b.hex()) for n, b in drawn], "ciphertext": ct.hex(), "key": key.hex()})
                    want = struct.pack("<I", 16) + tk
                    e = ref_envelope(hashlib.md5(key + tk).digest(), plain)
                    want += struct.pack("<I", len(e)) + e
                else:
                    want = ref_envelope(key, plain)
                if ct != want:
                    violation("server-ticket-reference:%d/%d/v%d" % (ks, ps, ver), "server ticket ciphertext differs from the reference construction given the same randomness",
                              {"key_size": ks, "pid_size": ps, "version": ver, "key": key.hex(), "ticket_key": tk.hex(), "timestamp": ts, "source": pid, "session_key": sk.hex(), "real": ct.hex(), "reference": want.hex()})
                def sdec():
                    d = kerberos.ServerTicket.decrypt(ct, key, S)
                    return "%d %d %s" % (d.timestamp.value(), d.source, G.hx(d.session_key))
                rd = wrap(sdec)
                B.add("st.dec %d %d %d %s %s" % (ks, ps, ver, G.hx(key), G.hx(ct)), rd, ("st.dec", "ok"))
                if rd != "ok %d %d %s" % (ts, pid, G.hx(sk)):
                    violation("server-ticket-roundtrip:%d/%d/v%d" % (ks, ps, ver), "ServerTicket.decrypt(encrypt(t)) != t",
                              {"key_size": ks, "pid_size": ps, "version": ver, "key": key.hex(), "ticket_key": tk.hex(), "timestamp": ts, "source": pid, "session_key": sk.hex(), "got": rd})
                if i < 10 * len(configs): tick_src.append(("st", (ks, ps, ver), key, ct))
                # cross-configuration / wrong-key decryption
                for ok_ in other_keys(rng, key)[:1]:
                    def sdec2():
                        d = kerberos.ServerTicket.decrypt(ct, ok_, S)
                        return "%d %d %s" % (d.timestamp.value(), d.source, G.hx(d.session_key))
                    rr = wrap(sdec2)
                    B.add("st.dec %d %d %d %s %s" % (ks, ps, ver, G.hx(ok_), G.hx(ct)), rr, ("st.dec", "wrong-key"))
                    if rr.startswith("ok "):
                        if ver != 1 and hmac_equivalent(key, ok_):
                            ctx.violation(FINDING_HMAC_PAD, "a version-0 server ticket was accepted under a different key (HMAC zero-padding equivalent)", {"key": key.hex(), "other_key": ok_.hex(), "ciphertext": ct.hex()})
                        else:
                            violation("server-ticket-wrong-key", "a server ticket was accepted under a different key", {"key": key.hex(), "other": ok_.hex(), "ciphertext": ct.hex()})
                ks2, ps2, ver2 = rng.choice(configs)
                S2 = G.make_settings(pid_size=ps2, key_size=ks2, ticket_version=ver2)
                def sdec3():
                    d = kerberos.ServerTicket.decrypt(ct, key, S2)
                    return "%d %d %s" % (d.timestamp.value(), d.source, G.hx(d.session_key))
                B.add("st.dec %d %d %d %s %s" % (ks2, ps2, ver2, G.hx(key), G.hx(ct)), wrap(sdec3), ("st.dec", "other-config"))
            elif not bad:
                violation("server-ticket-encrypt:%d/%d/v%d" % (ks, ps, ver), "ServerTicket.encrypt failed on valid fields: " + real, {"key_size": ks, "pid_size": ps, "version": ver, "key": key.hex()})
        # ------------------------------------------------------------ sequences under ONE key in one process
        # State carried across calls (caches, reused cipher/ticket-key objects) only shows when several operations
        # run under the same key: every call must use exactly the randomness it was handed, draw exactly as often
        # as the model says (version-1 server ticket: one 16-byte draw; everything else: none), and equal the model.
        def pid_bytes(ps, pid): return struct.pack("<Q", pid) if ps == 8 else struct.pack("<I", pid)
        n_seq = 3 if quick else 30
        seq_ops = 0
        for (ks, ps, ver) in configs:
            for si in range(n_seq):
                S = G.make_settings(pid_size=ps, key_size=ks, ticket_version=ver)   # one settings object for the whole sequence
                keys = [gen_key(rng), gen_key(rng)] if si % 3 else [rng.randbytes(rng.choice([16, 32]))]
                prefixes = {}      # key -> list of (draw, prefix found in the ciphertext)
                fixed = (G.gen_datetime_value(rng), G.gen_int(rng, 0, 1 << (32 if ps == 4 else 64)), rng.randbytes(ks))
                for step in range(rng.randint(5, 9)):
                    key = keys[step % len(keys)]        # A, B, A, B, ... : same key again after another key was used
                    op = rng.choice(["st", "st", "st", "st-same", "ct", "env", "st-dec"]) if step > 1 else "st"
                    seq_ops += 1
                    ncalls = len(pinned.calls)
                    if op in ("st", "st-same", "st-dec"):
                        ts, pid, sk = fixed if op == "st-same" else (G.gen_datetime_value(rng), G.gen_int(rng, 0, 1 << (32 if ps == 4 else 64)), rng.randbytes(ks))
                        st = kerberos.ServerTicket(); st.timestamp, st.source, st.session_key = common.DateTime(ts), pid, sk
                        real = wrap(lambda: G.hx(st.encrypt(key, S)))
                        drawn = pinned.calls[ncalls:]
                        tk = drawn[0][1] if drawn else b""
                        B.add("st.enc %d %d %d %s %s %d %d %s" % (ks, ps, ver, G.hx(key), G.hx(tk), ts, pid, G.hx(sk)), real, ("st.enc", "seq"))
                        want_draws = [16] if ver == 1 else []
                        ctx_info = {"key_size": ks, "pid_size": ps, "version": ver, "key": key.hex(), "step": step, "op": op,
                                    "timestamp": ts, "source": pid, "session_key": sk.hex(), "draws_in_this_call": [(n, b.hex()) for n, b in drawn], "real": real[:400],
                                    "how": "several ServerTicket.encrypt calls under the same key in one process, kerberos.secrets pinned to a recording source"}
                        if [n for n, _ in drawn] != want_draws:
                            violation("server-ticket-randomness-draws:v%d" % ver, "ServerTicket.encrypt (call #%d under this key sequence) drew randomness %r times, the construction draws %r"
                                      % (step, [n for n, _ in drawn], want_draws), ctx_info)
                        if real.startswith("ok "):
                            ct = G.unhx(real[3:])
                            plain = struct.pack("<Q", ts) + pid_bytes(ps, pid) + sk
                            if ver == 1:
                                e = ref_envelope(hashlib.md5(key + tk).digest(), plain)
                                want = struct.pack("<I", 16) + tk + struct.pack("<I", len(e)) + e if drawn else None
                                prefixes.setdefault(key, []).append((tk, ct[4:20]))
                            else:
                                want = ref_envelope(key, plain)
                            if want is not None and ct != want:
                                violation("server-ticket-reference-seq:%d/%d/v%d" % (ks, ps, ver), "server ticket #%d under one key differs from the reference construction for the randomness of that call" % step,
                                          dict(ctx_info, reference=want.hex()))
                            def sdec():
                                d = kerberos.ServerTicket.decrypt(ct, key, S)
                                return "%d %d %s" % (d.timestamp.value(), d.source, G.hx(d.session_key))
                            rd = wrap(sdec)
                            B.add("st.dec %d %d %d %s %s" % (ks, ps, ver, G.hx(key), G.hx(ct)), rd, ("st.dec", "seq"))
                            if rd != "ok %d %d %s" % (ts, pid, G.hx(sk)):
                                violation("server-ticket-roundtrip-seq:%d/%d/v%d" % (ks, ps, ver), "ServerTicket.decrypt(encrypt(t)) != t for ticket #%d under one key" % step, dict(ctx_info, got=rd))
                    elif op == "ct":
                        sk, pid, internal = rng.randbytes(ks), G.gen_int(rng, 0, 1 << (32 if ps == 4 else 64)), rng.randbytes(rng.randint(0, 24))
                        t = kerberos.ClientTicket(); t.session_key, t.target, t.internal = sk, pid, internal
                        real = wrap(lambda: G.hx(t.encrypt(key, S)))
                        drawn = pinned.calls[ncalls:]
                        B.add("ct.enc %d %d %s %s %d %s" % (ks, ps, G.hx(key), G.hx(sk), pid, G.hx(internal)), real, ("ct.enc", "seq"))
                        want = "ok " + G.hx(ref_envelope(key, sk + pid_bytes(ps, pid) + struct.pack("<I", len(internal)) + internal))
                        if drawn or real != want:
                            violation("client-ticket-seq:%d/%d" % (ks, ps), "client ticket #%d under one key differs from the reference construction or drew randomness" % step,
                                      {"key": key.hex(), "session_key": sk.hex(), "target": pid, "internal": internal.hex(), "real": real[:400], "reference": want[:400], "draws": len(drawn)})
                    else:
                        data = rng.randbytes(rng.randint(0, 40))
                        k = kerberos.KerberosEncryption(key)
                        real = wrap(lambda: G.hx(k.encrypt(data)))
                        real2 = wrap(lambda: G.hx(k.encrypt(data)))      # the same object twice: no cipher state may survive a call
                        drawn = pinned.calls[ncalls:]
                        B.add("enc %s %s" % (G.hx(key), G.hx(data)), real, ("enc", "seq"))
                        B.add("enc %s %s" % (G.hx(key), G.hx(data)), real2, ("enc", "seq-repeat"))
                        want = "ok " + G.hx(ref_envelope(key, data))
                        if drawn or real != want or real2 != want:
                            violation("envelope-seq", "repeated KerberosEncryption.encrypt under one key differs from the reference construction or drew randomness",
                                      {"key": key.hex(), "data": data.hex(), "first": real, "second": real2, "reference": want, "draws": len(drawn)})
                # distinct draws must show as distinct ticket-key prefixes, each the draw of its own call
                for key, lst in prefixes.items():
                    draws = [d for d, _ in lst]
                    found = [p for _, p in lst]
                    if found != draws or (len(set(draws)) == len(draws) and len(set(found)) != len(found)):
                        violation("server-ticket-key-reused:v%d" % ver, "tickets issued under one key do not carry the fresh 16 bytes drawn for each of them (ticket key reused or not taken from secrets.token_bytes)",
                                  {"key_size": ks, "pid_size": ps, "version": ver, "key": key.hex(), "draws_per_ticket": [d.hex() for d in draws], "ticket_key_prefix_per_ticket": [p.hex() for p in found]})
        ctx.extra["same_key_sequence_operations"] = seq_ops
        # ONE settings object through sequences in which some calls are refused (damaged / wrong-key tickets, wrong sizes)
        c16_seq.settings_sequences(ctx, B, violation, pinned, ref_envelope, wrap, hmac_equivalent, other_keys, gen_key, quick)
        # ciphertext-targeted tickets: field values (and, for version 1, the ticket key) chosen such that chosen ciphertext positions carry chosen words
        c16_shape.shape_tickets(ctx, B, violation, ref_rc4, ref_envelope, wrap, quick)
        # every single-bit flip and truncation of sampled tickets
        for kind, (ks, ps, ver), key, ct in tick_src[: (24 if quick else 160)]:
            S = G.make_settings(pid_size=ps, key_size=ks, ticket_version=ver)
            for tk_, d in tamper(ct):
                if kind == "ct":
                    def f():
                        x = kerberos.ClientTicket.decrypt(d, key, S)
                        return "%s %d %s" % (G.hx(x.session_key), x.target, G.hx(x.internal))
                    line = "ct.dec %d %d %s %s" % (ks, ps, G.hx(key), G.hx(d))
                else:
                    def f():
                        x = kerberos.ServerTicket.decrypt(d, key, S)
                        return "%d %d %s" % (x.timestamp.value(), x.source, G.hx(x.session_key))
                    line = "st.dec %d %d %d %s %s" % (ks, ps, ver, G.hx(key), G.hx(d))
                rr = wrap(f)
                B.add(line, rr, (kind + ".dec", tk_))
                if rr.startswith("ok "):
                    violation("%s-ticket-%s-accepted" % ("client" if kind == "ct" else "server", tk_), "an altered or truncated ticket was accepted",
                              {"kind": kind, "key_size": ks, "pid_size": ps, "version": ver, "key": key.hex(), "original": ct.hex(), "altered": d.hex(), "got": rr})
    finally:
        kerberos.secrets = saved

    outs = drv.batch(B.lines)
    diffs = []
    for line, real, model, m in zip(B.lines, B.reals, outs, B.meta):
        tag = "%s:%s:%s" % (m[0], m[1] if isinstance(m[1], str) else "", model.split(" ")[0] if not model.startswith("err") else model)
        ctx.case(key=line if len(line) < 60 else hash(line), nontrivial=True, tag=tag,
                 sample={"op": line[:200], "model": model[:120], "real": real[:120]} if ctx.evaluations % 7919 == 0 else None)
        if real != model: diffs.append((line, real, model, m))
    ctx.traces_validated = len(B.lines)
    ctx.extra["correspondence_lines"] = len(B.lines)
    ctx.extra["correspondence_diffs"] = len(diffs)
    ctx.extra["pinned_randomness_draws"] = len(pinned.calls)
    if diffs and not ctx.violations:
        line, real, model, m = diffs[0]
        ctx.corr_break("kerberos-model-correspondence:" + m[0], "real kerberos.py and the Lean model disagree on %d of %d lines" % (len(diffs), len(B.lines)),
                       {"first_op": line[:3000], "real": real[:1000], "model": model[:1000],
                        "more": [{"op": d[0][:300], "real": d[1][:200], "model": d[2][:200]} for d in diffs[1:6]],
                        "theorems_no_longer_tied": ["NxProps/C16.lean"]})
    elif diffs:
        ctx.extra["first_diff"] = {"op": diffs[0][0][:300], "real": diffs[0][1][:200], "model": diffs[0][2][:200]}
