"""C20 helper: every call of a client honours its configured request callback — also when the callback fails.

For every public call (every argument variant of harness/switch_cases.call_variants, plus AAuthClient.get_time) of the seven clients
that take a request callback, a callback is installed whose k-th invocation (first / second / every) fails with a connection-loss
error (anyio.EndOfStream, BrokenResourceError, ClosedResourceError = anynet.util.StreamError; OSError and its connection subclasses,
TimeoutError, ssl.SSLError, socket.gaierror) and whose other invocations answer normally.  All ways out of the process that do not go
through the callback are replaced by spies BEFORE the client is constructed: anynet.http.request / connect / call / get / post / head /
put / patch / delete, anynet.tls.connect, anyio.connect_tcp (the lower ones catch a reference to http.request taken at import time).

Oracle (property: "every call of a client honours its configured host, context and request callback"): whatever the client does about
the failure (raise, retry through the callback), the number of requests performed outside the callback is 0, and every invocation of
the callback — the ones after the failure included — receives the configured context object and a configured host.
"""
import errno, socket, ssl, contextlib
import anyio
from anynet import http, tls
import switch_cases as sc

DEVID = 0x6265A1B2C3D4E5F6

ERRORS = [
    ("anyio.EndOfStream", lambda: anyio.EndOfStream()),
    ("anyio.BrokenResourceError", lambda: anyio.BrokenResourceError()),
    ("anyio.ClosedResourceError", lambda: anyio.ClosedResourceError()),
    ("OSError(ECONNRESET)", lambda: OSError(errno.ECONNRESET, "Connection reset by peer")),
    ("OSError()", lambda: OSError("connection lost")),
    ("ConnectionResetError", lambda: ConnectionResetError(errno.ECONNRESET, "Connection reset by peer")),
    ("BrokenPipeError", lambda: BrokenPipeError(errno.EPIPE, "Broken pipe")),
    ("ConnectionAbortedError", lambda: ConnectionAbortedError(errno.ECONNABORTED, "Software caused connection abort")),
    ("TimeoutError", lambda: TimeoutError(errno.ETIMEDOUT, "timed out")),
    ("ssl.SSLEOFError", lambda: ssl.SSLEOFError(8, "EOF occurred in violation of protocol")),
    ("socket.gaierror", lambda: socket.gaierror(-3, "Temporary failure in name resolution")),
]
POSITIONS = [("first", lambda k: k == 1), ("second", lambda k: k == 2), ("every", lambda k: True)]


class FakeContext:
    def __init__(self): self.calls = []
    def set_certificate(self, cert, key): self.calls.append((cert, key))
    def set_authority(self, ca): pass


def response_for(client, call, req):
    r = sc.good_response(client, call, req)
    if call == "get_time":
        r.headers["X-NINTENDO-UNIXTIME"] = "5"; r.headers["X-NINTENDO-GLOBAL-IP"] = "1.2.3.4"
    return r


def run(ctx, mods):
    thorough = ctx.tier != "quick"
    outside = []        # (which spy, url/host)
    cur = {}

    async def spy_request(url, req, context=None, **kw):
        outside.append(("anynet.http.request", str(url)))
        return response_for(cur["client"], cur["call"], req)

    class SpyClient:
        async def request(self, req, **kw):
            outside.append(("anynet.http.HTTPClient.request", "")); return response_for(cur["client"], cur["call"], req)
        async def close(self): pass

    @contextlib.asynccontextmanager
    async def spy_connect(url, context=None):
        outside.append(("anynet.http.connect", str(url)))
        yield SpyClient()

    async def spy_call(url, method, **kw):
        outside.append(("anynet.http.call", str(url)))
        return response_for(cur["client"], cur["call"], None)

    def mk_verb(name):
        async def verb(url, **kw):
            outside.append(("anynet.http." + name, str(url)))
            return response_for(cur["client"], cur["call"], None)
        return verb

    @contextlib.asynccontextmanager
    async def spy_tls_connect(host, port, context=None, *a, **kw):
        outside.append(("anynet.tls.connect", "%s:%s" % (host, port)))
        raise OSError(errno.ENETUNREACH, "spy: no network")
        yield  # pragma: no cover

    async def spy_connect_tcp(host, port, *a, **kw):
        outside.append(("anyio.connect_tcp", "%s:%s" % (host, port)))
        raise OSError(errno.ENETUNREACH, "spy: no network")

    saved = {(http, n): getattr(http, n) for n in ("request", "connect", "call", "head", "get", "post", "put", "patch", "delete")}
    saved[(tls, "connect")] = tls.connect
    saved[(anyio, "connect_tcp")] = anyio.connect_tcp
    stats = {"calls": 0, "failed_invocations": 0, "retried": 0, "raised": 0, "swallowed": 0}

    async def main():
        http.request = spy_request; http.connect = spy_connect; http.call = spy_call
        for n in ("head", "get", "post", "put", "patch", "delete"):
            setattr(http, n, mk_verb(n))
        tls.connect = spy_tls_connect; anyio.connect_tcp = spy_connect_tcp
        try:
            for client in sc.CLIENTS:
                devid = DEVID if client in ("dragons", "sun", "atumn") else None
                variants = list(sc.call_variants(client))
                if client == "aauth":
                    variants.append(("get_time", [], "plain"))
                if not thorough and client == "five":
                    # the 23 language variants differ only in an argument check before the request: keep three of them
                    variants = [v for v in variants if not v[2].startswith(("lang:", "nolang:"))] + [v for v in variants if v[2] in ("lang:ja", "lang:pt-BR", "nolang:en")]
                versions = ["init", 1400, 1800] if thorough or client in ("aauth", "dragons") else ["init"]
                for call, args, tag in variants:
                    for ver in versions:
                        for cfgname in ("callback-only", "host-and-context"):
                            if not thorough and cfgname == "host-and-context" and ver != "init":
                                continue
                            for ename, mk in ERRORS:
                                for pname, pred in POSITIONS:
                                    if not thorough and pname != "first" and ename not in ("anyio.EndOfStream", "OSError(ECONNRESET)", "anyio.ClosedResourceError"):
                                        continue
                                    cur["client"], cur["call"] = client, call
                                    del outside[:]
                                    cl = sc.make_client(mods, client, devid)
                                    inv = []
                                    state = {"k": 0, "failed": 0}

                                    async def cb(host, req, context, inv=inv, state=state, pred=pred, mk=mk, client=client, call=call):
                                        state["k"] += 1
                                        inv.append((host, context))
                                        if pred(state["k"]):
                                            state["failed"] += 1
                                            raise mk()
                                        return response_for(client, call, req)
                                    cl.set_request_callback(cb)
                                    if ver != "init": cl.set_system_version(ver)
                                    fake = None; hosts = None
                                    if cfgname == "host-and-context":
                                        fake = FakeContext(); cl.set_context(fake)
                                        if client == "dragons":
                                            hosts = ("dr.example", "tig.example:8443", "jr.example"); cl.set_hosts(*hosts)
                                        else:
                                            hosts = ("cfg-host.example:8443",); cl.set_host(hosts[0])
                                    else:
                                        fake = cl.context
                                    outcome = "returned"
                                    try:
                                        if call == "get_time": await cl.get_time()
                                        else: await sc.invoke(cl, client, call, args)
                                    except Exception as e:
                                        outcome = "raised " + type(e).__name__
                                    stats["calls"] += 1
                                    stats["failed_invocations"] += state["failed"]
                                    if state["failed"]:
                                        if outcome == "returned": stats["swallowed" if state["k"] == state["failed"] else "retried"] += 1
                                        else: stats["raised"] += 1
                                    sig = "%s.%s(%s) sv=%s %s: %s invocation of the callback raises %s" % (client, call, tag, ver, cfgname, pname, ename)
                                    ctx.case(key="cbfail/" + sig, nontrivial=state["failed"] > 0, tag="callback-failure:%s" % client,
                                             sample={"case": sig, "callback_invocations": state["k"], "outcome": outcome} if stats["calls"] % 499 == 1 else None)
                                    replay = {"client": client, "call": call, "args": repr(args)[:400], "variant": tag, "system_version": ver, "configuration": cfgname,
                                              "callback": "invocation #k raises %s for k = %s, answers 200 otherwise" % (ename, pname),
                                              "callback_invocations": state["k"], "outcome": outcome,
                                              "how": "harness/c20_cbfail.py: spies on anynet.http.request/connect/call/verbs, anynet.tls.connect, anyio.connect_tcp installed before the client is constructed"}
                                    if outside:
                                        ctx.violation("callback-bypassed-on-failure:%s.%s" % (client, call),
                                                      "%s.%s with a request callback installed performed %d request(s) outside the callback (%s to %r) after the callback's %s invocation failed with %s"
                                                      % (client, call, len(outside), outside[0][0], outside[0][1], pname, ename),
                                                      dict(replay, requests_outside_callback=[list(o) for o in outside[:6]]))
                                    for host, context in inv:
                                        if context is not fake:
                                            ctx.violation("context-ignored-on-failure:%s.%s" % (client, call),
                                                          "%s.%s hands the callback a context that is not the configured one when the callback's %s invocation fails with %s" % (client, call, pname, ename), replay)
                                            break
                                        if hosts is not None and host not in hosts:
                                            ctx.violation("host-ignored-on-failure:%s.%s" % (client, call),
                                                          "%s.%s hands the callback host %r, configured %r, when the callback's %s invocation fails with %s" % (client, call, host, hosts, pname, ename), replay)
                                            break
        finally:
            for (mod, n), v in saved.items():
                setattr(mod, n, v)
    anyio.run(main)
    ctx.extra["c20_callback_failure"] = stats
