import NxModel.Nex.Errors
import NxProofs.Bits
/-! the error table: a successful `checkTable` implies the dicts are inverse bijections -/
namespace Nx.Nex
open Nx

theorem notIn_iff {α : Type} [BEq α] [LawfulBEq α] (x : α) (l : List α) : notIn x l = true ↔ x ∉ l := by
  induction l with
  | nil => simp [notIn]
  | cons y r ih =>
    simp only [notIn, Bool.and_eq_true, Bool.not_eq_true', beq_eq_false_iff_ne, ih, List.mem_cons, not_or]
    constructor
    · rintro ⟨a, b⟩; exact ⟨fun e => a e.symm, b⟩
    · rintro ⟨a, b⟩; exact ⟨fun e => a e.symm, b⟩

theorem nodupB_iff {α : Type} [BEq α] [LawfulBEq α] (l : List α) : nodupB l = true ↔ l.Nodup := by
  induction l with
  | nil => simp [nodupB]
  | cons y r ih => simp [nodupB, ih, notIn_iff]

theorem dictInsert_of_notMem {κ ν : Type} [BEq κ] [LawfulBEq κ] (k : κ) (v : ν) (l : List (κ × ν))
    (h : k ∉ l.map (·.1)) : dictInsert k v l = l ++ [(k, v)] := by
  induction l with
  | nil => rfl
  | cons e r ih =>
    obtain ⟨k', v'⟩ := e
    simp only [List.map_cons, List.mem_cons, not_or] at h
    have hne : (k' == k) = false := by simp; exact fun e => h.1 e.symm
    simp [dictInsert, hne, ih h.2]

theorem foldl_dictInsert {ε κ ν : Type} [BEq κ] [LawfulBEq κ] (f : ε → κ) (g : ε → ν) (l : List ε) (acc : List (κ × ν))
    (hl : (l.map f).Nodup) (hd : ∀ e ∈ l, f e ∉ acc.map (·.1)) :
    l.foldl (fun d e => dictInsert (f e) (g e) d) acc = acc ++ l.map (fun e => (f e, g e)) := by
  induction l generalizing acc with
  | nil => simp
  | cons e r ih =>
    simp only [List.map_cons, List.nodup_cons] at hl
    simp only [List.foldl_cons]
    rw [dictInsert_of_notMem _ _ _ (hd e (by simp))]
    rw [ih _ hl.2]
    · simp
    · intro e' he'
      simp only [List.map_append, List.map_cons, List.map_nil, List.mem_append, List.mem_singleton, not_or]
      refine ⟨hd e' (by simp [he']), ?_⟩
      intro heq
      exact hl.1 (heq ▸ List.mem_map_of_mem he')

theorem dictGet_iff {κ ν : Type} [BEq κ] [LawfulBEq κ] (l : List (κ × ν)) (hl : (l.map (·.1)).Nodup) (k : κ) (v : ν) :
    dictGet k l = some v ↔ (k, v) ∈ l := by
  induction l with
  | nil => simp [dictGet]
  | cons e r ih =>
    obtain ⟨k', v'⟩ := e
    simp only [List.map_cons, List.nodup_cons] at hl
    by_cases hk : k' = k
    · subst hk
      simp only [dictGet, beq_self_eq_true, if_true, Option.some.injEq, List.mem_cons, Prod.mk.injEq, true_and]
      constructor
      · intro h; exact Or.inl h.symm
      · rintro (h | h)
        · exact h.symm
        · exact absurd (List.mem_map_of_mem (f := (·.1)) h) hl.1
    · have hne : (k' == k) = false := by simp [hk]
      simp only [dictGet, hne, Bool.false_eq_true, if_false, List.mem_cons, Prod.mk.injEq]
      rw [ih hl.2]
      constructor
      · exact Or.inr
      · rintro (⟨h, _⟩ | h)
        · exact absurd h.symm hk
        · exact h

theorem namesDict_eq (t : ErrTable) (h : (t.map (·.1)).Nodup) : namesDict t = t := by
  unfold namesDict
  rw [foldl_dictInsert (·.1) (·.2) t [] h (by simp)]
  simp

theorem codesDict_eq (t : ErrTable) (h1 : (t.map (·.1)).Nodup) (h2 : (t.map (·.2)).Nodup) :
    codesDict t = t.map (fun e => (e.2, e.1)) := by
  unfold codesDict
  rw [namesDict_eq t h1, foldl_dictInsert (·.2) (·.1) t [] h2 (by simp)]
  simp

theorem mkError_of_lt (c : Nat) (h : c < errorMask) : Result.mkError c = c + errorMask := by
  unfold Result.mkError errorMask at *
  exact or_two_pow_of_lt 31 h

theorem and_two_pow (x k : Nat) : x &&& 2 ^ k = 2 ^ k * (x / 2 ^ k % 2) := by
  apply Nat.eq_of_testBit_eq
  intro i
  rw [Nat.testBit_and, Nat.testBit_two_pow]
  rcases Nat.mod_two_eq_zero_or_one (x / 2 ^ k) with h | h
  · rw [h]
    have : x.testBit k = false := by
      rw [Nat.testBit_eq_decide_div_mod_eq]; simp [h]
    by_cases hi : k = i
    · subst hi; simp [this]
    · simp [hi]
  · rw [h, Nat.mul_one, Nat.testBit_two_pow]
    have : x.testBit k = true := by
      rw [Nat.testBit_eq_decide_div_mod_eq]; simp [h]
    by_cases hi : k = i
    · subst hi; simp [this]
    · simp [hi]

theorem and_errorMask (c : Nat) : c &&& errorMask = errorMask * (c / errorMask % 2) := by
  have := and_two_pow c 31
  simpa [errorMask] using this

theorem tableBijective_of (t : ErrTable) (h1 : (t.map (·.1)).Nodup) (h2 : (t.map (·.2)).Nodup)
    (h3 : ∀ e ∈ t, e.1 < errorMask) (h4 : successName ∉ t.map (·.2)) (h5 : unknownName ∉ t.map (·.2)) :
    TableBijective t := by
  have hn : ∀ c n, nameOf t c = some n ↔ (c, n) ∈ t := by
    intro c n
    unfold nameOf
    rw [namesDict_eq t h1]
    exact dictGet_iff t h1 c n
  have hc : ∀ c n, codeOf t n = some c ↔ (c, n) ∈ t := by
    intro c n
    unfold codeOf
    have h2' : ((t.map (fun e => (e.2, e.1))).map (·.1)).Nodup := by
      rw [List.map_map]; exact h2
    rw [codesDict_eq t h1 h2, dictGet_iff _ h2']
    simp only [List.mem_map, Prod.mk.injEq, Prod.exists]
    constructor
    · rintro ⟨a, b, hm, rfl, rfl⟩; exact hm
    · intro hm; exact ⟨c, n, hm, rfl, rfl⟩
  refine ⟨hn, hc, ?_, ?_⟩
  · intro c n hmem
    have hlt := h3 (c, n) hmem
    refine ⟨hlt, ?_, ?_⟩
    · have hE := mkError_of_lt c hlt
      have hand : (c + errorMask) &&& errorMask = errorMask := by
        rw [and_errorMask]
        have : (c + errorMask) / errorMask % 2 = 1 := by unfold errorMask at *; omega
        rw [this]; simp
      unfold Result.name Result.isSuccess Result.key
      rw [hE, hand]
      have : (errorMask != 0) = true := by decide
      simp only [this, Bool.not_true, Bool.false_eq_true, if_false, Nat.add_sub_cancel]
      rw [(hn c n).mpr hmem]; rfl
    · unfold Result.errorNamed
      rw [(hc c n).mpr hmem]
  · intro c
    exact ⟨fun h => h4 (List.mem_map_of_mem (f := (·.2)) h), fun h => h5 (List.mem_map_of_mem (f := (·.2)) h)⟩

theorem tableBijective_of_check (t : ErrTable) (h : checkTable t = true) : TableBijective t := by
  simp only [checkTable, Bool.and_eq_true, nodupB_iff, notIn_iff, List.all_eq_true, decide_eq_true_eq] at h
  obtain ⟨⟨⟨⟨h1, h2⟩, h3⟩, h4⟩, h5⟩ := h
  exact tableBijective_of t h1 h2 h3 h4 h5

/-! ## Nat-coded generated table -/

theorem notInN_iff (x : Nat) (l : List Nat) : notInN x l = true ↔ x ∉ l := by
  induction l with
  | nil => simp [notInN]
  | cons y r ih =>
    have hb : (Nat.beq y x = false) ↔ x ≠ y := by
      constructor
      · intro h e; subst e; simp [Nat.beq_refl] at h
      · intro h
        cases hq : Nat.beq y x with
        | false => rfl
        | true => exact absurd (Nat.eq_of_beq_eq_true hq).symm h
    simp only [notInN, Bool.and_eq_true, Bool.not_eq_true', ih, List.mem_cons, not_or, hb]

theorem nodupN_iff (l : List Nat) : nodupN l = true ↔ l.Nodup := by
  induction l with
  | nil => simp [nodupN]
  | cons y r ih => simp [nodupN, ih, notInN_iff]

theorem sortedN_lt (x : Nat) (r : List Nat) (h : sortedN (x :: r) = true) : ∀ y ∈ r, x < y := by
  induction r generalizing x with
  | nil => simp
  | cons z r ih =>
    simp only [sortedN, Bool.and_eq_true, Nat.blt_eq] at h
    intro y hy
    rcases List.mem_cons.mp hy with rfl | hy
    · exact h.1
    · exact Nat.lt_trans h.1 (ih z h.2 y hy)

theorem sortedN_nodup (l : List Nat) (h : sortedN l = true) : l.Nodup := by
  induction l with
  | nil => simp
  | cons x r ih =>
    have hlt := sortedN_lt x r h
    have hr : sortedN r = true := by
      cases r with
      | nil => rfl
      | cons z r => simp only [sortedN, Bool.and_eq_true] at h; exact h.2
    refine List.nodup_cons.mpr ⟨fun hm => Nat.lt_irrefl _ (hlt x hm), ih hr⟩

theorem eqN_iff (a b : List Nat) : eqN a b = true ↔ a = b := by
  induction a generalizing b with
  | nil => cases b <;> simp [eqN]
  | cons x r ih => cases b with
    | nil => simp [eqN]
    | cons y s => simp [eqN, ih]

theorem allBelowN_iff (bound : Nat) (l : List Nat) : allBelowN bound l = true ↔ ∀ x ∈ l, x < bound := by
  induction l with
  | nil => simp [allBelowN]
  | cons y r ih => simp [allBelowN, ih]

/-- what the generated file instantiates: all hypotheses are closed `Bool` evaluations -/
theorem tableBijective_of_gen (fuel : Nat) (codes keys : List Nat)
    (hlen : Nat.beq codes.length keys.length = true)
    (hcodes : (sortedN codes || nodupN codes) = true)
    (hkeys : nodupN keys = true)
    (hvalid : eqN ((genNames fuel keys).map encodeName) keys = true)
    (hbelow : allBelowN errorMask codes = true)
    (hres : (notInN (encodeName successName) keys && notInN (encodeName unknownName) keys) = true) :
    TableBijective (genTable fuel codes keys) := by
  have hl : codes.length = (genNames fuel keys).length := by
    simp [genNames, Nat.eq_of_beq_eq_true hlen]
  have hfst : (genTable fuel codes keys).map (·.1) = codes := by
    unfold genTable; exact List.map_fst_zip (Nat.le_of_eq hl)
  have hsnd : (genTable fuel codes keys).map (·.2) = genNames fuel keys := by
    unfold genTable; exact List.map_snd_zip (Nat.le_of_eq hl.symm)
  have hv := (eqN_iff _ _).mp hvalid
  have hk := (nodupN_iff _).mp hkeys
  have hnames : (genNames fuel keys).Nodup := by
    have h1 : ((genNames fuel keys).map encodeName).Nodup := by rw [hv]; exact hk
    unfold List.Nodup at h1 ⊢
    rw [List.pairwise_map] at h1
    exact h1.imp (fun h e => h (congrArg encodeName e))
  have hc : codes.Nodup := by
    rcases Bool.or_eq_true _ _ |>.mp hcodes with h | h
    · exact sortedN_nodup _ h
    · exact (nodupN_iff _).mp h
  simp only [Bool.and_eq_true, notInN_iff] at hres
  have hnot : ∀ nm : Name, encodeName nm ∉ keys → nm ∉ genNames fuel keys := by
    intro nm h hm
    apply h
    rw [← hv]
    exact List.mem_map_of_mem hm
  apply tableBijective_of
  · rw [hfst]; exact hc
  · rw [hsnd]; exact hnames
  · intro e he
    have : e.1 ∈ codes := hfst ▸ List.mem_map_of_mem (f := (·.1)) he
    exact (allBelowN_iff _ _).mp hbelow _ this
  · rw [hsnd]; exact hnot _ hres.1
  · rw [hsnd]; exact hnot _ hres.2

end Nx.Nex
