import NxModel.Nex.SchemaInventory
namespace Nx.Schema.Inv

theorem missing_nil_iff (a b : List Nat) : (missing a b).isEmpty = true ↔ ∀ x ∈ a, x ∈ b := by
  simp [missing, List.isEmpty_iff, List.filter_eq_nil_iff]

theorem inventoryOK_iff (p m d : List Nat) (h : inventoryOK p m d = true) :
    (∀ x, x ∈ p ↔ x ∈ m) ∧ (∀ x, x ∈ p ↔ x ∈ d) := by
  simp only [inventoryOK, Bool.and_eq_true] at h
  obtain ⟨⟨⟨⟨⟨⟨h1, h2⟩, h3⟩, h4⟩, _⟩, _⟩, _⟩ := h
  rw [missing_nil_iff] at h1 h2 h3 h4
  exact ⟨fun x => ⟨h1 x, h2 x⟩, fun x => ⟨h3 x, h4 x⟩⟩

theorem orphan_breaks (p m d : List Nat) (x : Nat) (hx : x ∈ d) (hp : x ∉ p) : inventoryOK p m d = false := by
  cases h : inventoryOK p m d with
  | false => rfl
  | true => exact absurd (((inventoryOK_iff p m d h).2 x).mpr hx) hp

end Nx.Schema.Inv
