"""C18 helper: NON-ASCII text in every validated input that has a length limit or a format check.

"input validation accepts exactly the well-formed values it names" is stated over *text*: a limit in characters is a
limit in Unicode code points (what `len` of a Python `str` counts), a limit in bytes is a limit in bytes, a name in a
list is that exact string and no other string that merely folds / normalises / transliterates / parses to it.  The
families below are written from that statement, not from the library's code; every case names what is expected
("accept" / "refuse") and goes through the same machinery as harness/switch_validation.py (fresh client, one reused
client per class, the compiled Lean model byte for byte, `switch_validation.judge` as the oracle on the real code:
accepted => the value is carried unchanged in the request, refused => ValueError before any request is sent).

  five  send_invitation  messages     (limit: fewer than 0xC0 CHARACTERS)
        * width grid: for characters that take 1, 2, 3 and 4 bytes in UTF-8 (1 or 2 units in UTF-16), several of
          each, every character count at which ANY usual measure of the text crosses 0xC0: characters
          (0xBE 0xBF | 0xC0 0xC1), UTF-8 bytes of 2/3/4-byte characters (0x5F 0x60 0x61 / 0x3F 0x40 0x41 / 0x2F 0x30 0x31),
          UTF-16 units and bytes, UTF-32 bytes (the same counts), and 0x100; the language rotates over the documented tags
        * mixed text: 0xBF characters (accept) / 0xC0 characters (refuse) of which 1, 2, 16 are non-ASCII, at the start,
          in the middle, at the end: the byte count is at / above the limit while the character count is below it
        * text whose length differs under normalisation / segmentation / trimming: decomposed accents, Hangul, emoji
          ZWJ sequences, variation selectors, ASCII and non-ASCII white space at both ends, at 0xBF / 0xC0 code points
  five  send_invitation  application data (limit: at most 0x400 BYTES): UTF-8 text whose character count is far below
        0x400 while its byte count is 0x3FF .. 0x402, for 2-, 3- and 4-byte characters (the reverse direction)
  five  send_invitation  language tags (format: one of the 16 documented tags, exactly)
        for EVERY documented tag: each letter / digit / hyphen replaced - one position at a time and all at once - by
        its full-width form, by the characters that Python's lower() / upper() / casefold() map to it (Kelvin sign,
        long s, dotless i), by Cyrillic / Greek homoglyphs, digits by Arabic-Indic, extended Arabic-Indic, Devanagari,
        full-width and mathematical digits (all of which `int()` and `str.isdigit()` take), hyphens by the Unicode
        hyphens / dashes / minus signs; invisible and white-space characters that strip() / NFKC / an ASCII-fold remove,
        before, after and inside the tag; an accent added; such a tag at every position of a full 16-language
        dictionary; a dictionary holding a tag AND its look-alike
  aauth auth_digital (API >= 4) token: exactly two ASCII full stops - dot look-alikes (one dot leader, full-width and
        half-width ideographic full stops, middle dots ...) alone and mixed with real dots, non-ASCII segments of every width
  baas  login na_country (presence check from 18.0.0): non-ASCII values of every width are carried unchanged
  all   set_system_version: version numbers spelt with non-ASCII digits (str) are not versions
"""
import switch_cases as sc
import switch_validation as sv

LIMIT = 0xC0
DATA_LIMIT = 0x400

# characters by UTF-8 width (4-byte ones take two UTF-16 units)
WIDTH = {1: ["m", "~"],
         2: ["\u00e9", "\u044f", "\u00df"],               # \u00e9 \u044f \u00df
         3: ["\u8a9e", "\ud55c", "\u20ac"],               # \u8a9e \ud55c \u20ac
         4: ["\U0001F600", "\U00020BB7"]}                 # \U0001f600 \U00020bb7
COUNTS = [0x2F, 0x30, 0x31, 0x3F, 0x40, 0x41, 0x5F, 0x60, 0x61, 0xBE, 0xBF, 0xC0, 0xC1, 0x100]

FULLWIDTH = {c: chr(ord(c) - 0x21 + 0xFF01) for c in map(chr, range(0x21, 0x7F))}
CASE_FOLDERS = {"k": "\u212a", "K": "\u212a", "s": "\u017f", "S": "\u017f", "i": "\u0131", "I": "\u0130"}
HOMOGLYPH = {"a": "\u0430", "e": "\u0435", "o": "\u043e", "p": "\u0440", "c": "\u0441", "j": "\u0458", "i": "\u0456", "s": "\u0455",
             "H": "\u041d", "B": "\u0412", "S": "\u0405", "T": "\u0422", "K": "\u039a", "G": "\u050c", "U": "\u054d", "R": "\u13a1",
             "C": "\u0421", "A": "\u0391", "n": "\u0578", "r": "\u0433", "t": "\u03c4", "u": "\u03c5", "z": "\u1d22", "h": "\u04bb",
             "d": "\u0501", "l": "\u04cf", "f": "\u0192", "k": "\u03ba", "N": "\u039d"}
DIGITS = {"arabic-indic": 0x0660, "ext-arabic-indic": 0x06F0, "devanagari": 0x0966, "fullwidth": 0xFF10, "math-bold": 0x1D7CE,
          "thai": 0x0E50}
HYPHENS = ["\u2010", "\u2011", "\u2012", "\u2013", "\u2212", "\uff0d", "\ufe63", "\u00ad", "\u058a", "\u30fc"]
INVISIBLE = ["\u200b", "\u200d", "\ufeff", "\u00ad", "\u2060", "\u00a0", "\u2003", "\u3000", "\u0085", "\u2028", "\x1f", "\t", "\r", "\x0b"]


def _u(s):
    """printable, unambiguous rendering for tags / notes"""
    return ascii(s)[1:-1]


def _inv(C, ver, recv, data, msgs, tag, ok, note, model=True):
    C.append(sv._case("five", ver, "send_invitation", ["acc", recv, sc.TITLE, sc.TITLE, data, msgs, False, 0], "inv/u/" + tag,
                      "accept" if ok else "refuse", model=model, note=note, carried="invitation"))


def _measures(s):
    return "%d characters = %d UTF-8 bytes = %d UTF-16 units" % (len(s), len(s.encode()), len(s.encode("utf-16-le")) // 2)


def message_cases(rng, ver, doc, full):
    C = []
    k = rng.randrange(len(doc))
    def lang():
        nonlocal k
        k += 1
        return doc[k % len(doc)]
    def msg(text, tag):
        _inv(C, ver, [1], b"", {lang(): text}, "msg-" + tag, len(text) < LIMIT,
             "message of %s (fewer than 0x%X characters allowed)" % (_measures(text), LIMIT))
    # width grid
    for w, chars in WIDTH.items():
        for ch in (chars if full else [chars[0], rng.choice(chars[1:])]):
            for n in COUNTS:
                msg(ch * n, "w%d-U+%04X-x%x" % (w, ord(ch), n))
    # mixed: mostly ASCII, some wide characters, total at limit-1 / limit
    for w in (2, 3, 4):
        ch = WIDTH[w][0] if full else rng.choice(WIDTH[w])
        for total in (LIMIT - 1, LIMIT):
            for nwide in (1, 2, 16):
                for where in ("start", "middle", "end"):
                    rest = "a" * (total - nwide)
                    cut = {"start": 0, "middle": len(rest) // 2, "end": len(rest)}[where]
                    msg(rest[:cut] + ch * nwide + rest[cut:], "mix-w%d-%dof%x-%s" % (w, nwide, total, where))
        # exactly 0xBF / 0xC0 / 0xC1 UTF-8 bytes with far fewer characters
        for nbytes in (LIMIT - 1, LIMIT, LIMIT + 1):
            text = ch * (nbytes // w) + "a" * (nbytes % w)
            msg(text, "bytes-w%d-%x" % (w, nbytes))
    # normalisation / segmentation / trimming change the length
    seqs = [("nfd-accent", "e\u0301"), ("nfd-hangul", "\u1112\u1161\u11ab"), ("zwj-family", "\U0001F468\u200d\U0001F469\u200d\U0001F467"),
            ("flag", "\U0001F1EF\U0001F1F5"), ("vs16", "\u2764\ufe0f"), ("ligature", "\ufb01"), ("sharp-s", "\u00df"), ("dotted-I", "\u0130")]
    for name, seq in seqs:
        for total in (LIMIT - 1, LIMIT):
            reps, pad = divmod(total, len(seq))
            msg(seq * reps + "a" * pad, "seq-%s-%x" % (name, total))
    for name, ws in [("space", " "), ("nbsp", "\u00a0"), ("ideographic-space", "\u3000"), ("newline", "\n"), ("zwsp", "\u200b"), ("bom", "\ufeff")]:
        for total in (LIMIT - 1, LIMIT):
            msg(ws * 8 + "m" * (total - 16) + ws * 8, "ws-%s-both-%x" % (name, total))
            msg("m" * (total - 1) + ws, "ws-%s-last-%x" % (name, total))
            msg(ws * total, "ws-%s-only-%x" % (name, total))
    # several languages at once, each with another width, one of them at the limit (every position)
    wide = [WIDTH[1][0], WIDTH[2][0], WIDTH[3][0], WIDTH[4][0]]
    for bad in range(-1, len(doc), 1 if full else 3):
        msgs = {l: wide[i % 4] * (LIMIT if i == bad else LIMIT - 1) for i, l in enumerate(doc)}
        _inv(C, ver, [1, 2], b"d", msgs, "msg-all16-limit-at-%d" % bad, bad < 0,
             "16 languages with 0x%X characters of 1..4-byte characters each%s" % (LIMIT - 1, "" if bad < 0 else ", entry %d (%s) with 0x%X" % (bad, doc[bad], LIMIT)))
    return C


def data_cases(rng, ver, doc):
    """the limit of the application data is in BYTES: text with few characters and many bytes"""
    C = []
    for w in (2, 3, 4):
        for ch in WIDTH[w]:
            for nbytes in (DATA_LIMIT - 1, DATA_LIMIT, DATA_LIMIT + 1, DATA_LIMIT + 2):
                text = ch * (nbytes // w) + "a" * (nbytes % w)
                data = text.encode()
                _inv(C, ver, [1], data, {doc[(w + nbytes) % len(doc)]: "m"}, "data-w%d-U+%04X-%x" % (w, ord(ch), nbytes), len(data) <= DATA_LIMIT,
                     "application data of 0x%X bytes (UTF-8 of %d characters; at most 0x%X bytes allowed)" % (len(data), len(text), DATA_LIMIT))
            text = ch * DATA_LIMIT      # 0x400 characters, 2..4 times as many bytes
            _inv(C, ver, [1], text.encode(), {"ja": "m"}, "data-w%d-U+%04X-400chars" % (w, ord(ch)), False,
                 "application data of 0x%X bytes (UTF-8 of 0x400 characters)" % len(text.encode()))
    return C


def lookalike_tags(doc, rng=None, per_tag=None):
    """[(tag, how)] - strings that are NOT documented tags but fold / normalise / transliterate / parse to one"""
    out, seen = [], set(doc)
    def add(t, how):
        if t not in seen:
            seen.add(t); out.append((t, how))
    for t in doc:
        mine = []
        def put(x, how): mine.append((x, how))
        for table, name in ((FULLWIDTH, "full-width"), (CASE_FOLDERS, "case-folds-to"), (HOMOGLYPH, "homoglyph")):
            whole = "".join(table.get(c, c) for c in t)
            put(whole, "%s form of every character of %r" % (name, t))
            for i, c in enumerate(t):
                if c in table: put(t[:i] + table[c] + t[i + 1:], "%s form of character %d of %r" % (name, i, t))
        # upper-cased / lower-cased full-width
        put("".join(FULLWIDTH.get(c, c) for c in t.upper()), "full-width upper case of %r" % t)
        put("".join(FULLWIDTH.get(c, c) for c in t.lower()), "full-width lower case of %r" % t)
        for name, base in DIGITS.items():
            if any(c.isdigit() for c in t):
                put("".join(chr(base + int(c)) if c in "0123456789" else c for c in t), "%s digits in %r" % (name, t))
                for i, c in enumerate(t):
                    if c in "0123456789": put(t[:i] + chr(base + int(c)) + t[i + 1:], "%s digit at %d of %r" % (name, i, t))
        if "-" in t:
            for h in HYPHENS:
                put(t.replace("-", h), "U+%04X for the hyphen of %r" % (ord(h), t))
        else:
            put(t + "\u2010" + t.upper(), "%r with a Unicode-hyphen region" % t)
        for z in INVISIBLE:
            put(t + z, "%r followed by U+%04X" % (t, ord(z)))
            put(z + t, "%r preceded by U+%04X" % (t, ord(z)))
            put(t[:1] + z + t[1:], "%r with U+%04X inside" % (t, ord(z)))
        put(t[:1] + "\u0301" + t[1:], "%r with a combining accent" % t)
        put(t + "\u00e9", "%r followed by a non-ASCII letter" % t)
        put("\u00e9" + t, "%r preceded by a non-ASCII letter" % t)
        put(t + "\U0001F600", "%r followed by an emoji" % t)
        put(t.replace("e", "\u00e9").replace("a", "\u00e0").replace("u", "\u00fc").replace("o", "\u00f6").replace("i", "\u00ef"), "%r with accented vowels" % t)
        if rng is not None and per_tag is not None and len(mine) > per_tag:
            # keep the whole-tag forms of every table, sample the rest
            keep = [m for m in mine if "every character" in m[1] or "digits in" in m[1]]
            rest = [m for m in mine if m not in keep]
            mine = keep + rng.sample(rest, max(0, per_tag - len(keep)))
        for x, how in mine: add(x, how)
    for x, how in [("\u65e5\u672c\u8a9e", "the language's own name"), ("\u0440\u0443", "Cyrillic 'ru' spelt in Cyrillic"), ("\ud55c", "Hangul"),
                   ("zh-\u6c49", "zh with a Han script subtag"), ("es-\u0664\u0661\u0669", "es with an Arabic-Indic region"), ("\u00b5", "micro sign"),
                   ("\ufb01", "fi ligature"), ("i\u0307t", "dotted i (lower() of U+0130) + t"), ("\u0130t", "U+0130 + t"), ("d\u00e9", "d\u00e9")]:
        add(x, how)
    return out


def tag_cases(rng, ver, doc, full):
    C = []
    near = lookalike_tags(doc, None if full else rng, None if full else 14)
    for t, how in near:
        _inv(C, ver, [1], b"", {t: "m"}, "tag-" + _u(t), False, "language tag %s: %s - not a documented tag" % (ascii(t), how))
    # a look-alike at every position of a full dictionary; a tag together with its look-alike
    for i in range(len(doc) + 1):
        t, how = near[(i * 37 + rng.randrange(len(near))) % len(near)]
        items = [(l, "m") for l in doc]
        items.insert(i, (t, "m"))
        _inv(C, ver, [1], b"", dict(items), "tag-at-%d-%s" % (i, _u(t)), False, "%s (%s) as entry %d of 17" % (ascii(t), how, i))
    for t, how in [("\u212ao", "Kelvin sign + o"), ("e\u017f", "e + long s"), ("\uff4a\uff41", "full-width ja"), ("es-\u0664\u0661\u0669", "Arabic-Indic 419"),
                   ("\u0131t", "dotless i + t"), ("zh\u2010Hans", "U+2010 hyphen")]:
        _inv(C, ver, [1], b"", {"ko": "a", "es": "b", "ja": "c", "es-419": "d", "it": "e", "zh-Hans": "f", t: "g"}, "tag-beside-original-" + _u(t), False,
             "the documented tags together with %s (%s)" % (ascii(t), how))
    # non-ASCII text as the message of every documented tag is fine
    for i, l in enumerate(doc):
        text = "".join(WIDTH[1 + (i + j) % 4][0] for j in range(8)) + " \u00ab" + l + "\u00bb"
        _inv(C, ver, [1], b"", {l: text}, "tag-doc-%s-nonascii-message" % l, True, "documented tag %r with a short message of 1..4-byte characters" % l)
    return C


def token_cases(rng, ver):
    """API >= 4: the contents authorization token is a str with exactly two ASCII full stops"""
    dots = ["\u2024", "\u2027", "\uff61", "\u00b7", "\uff0e", "\u3002", "\u06d4", "\u0701", "\u2e31", "\ufe52"]
    vals = []
    for d in dots:
        vals += ["a%sb%sc" % (d, d), "a.b%sc" % d, "a%sb.c" % d, "a.b.c%s" % d, "%sa.b.c" % d, "a.b%s.c" % d]
    vals += ["\u00e9\u00e9.\u8a9e\u8a9e.\U0001F600", "\U0001F600.\U00020BB7.\u044f", "e\u0301.a\u200d.\ufeff", "\u00e9.\u8a9e", "\U0001F600\U0001F600",
             "\u00e9.\u8a9e.\U0001F600.\u044f", ".\u3002.", "\uff0e.\uff0e", "a\u3000.\u00a0b.c\u2028"]
    C = []
    for i, tok in enumerate(vals):
        ok = sv.token_spec(tok)
        C.append(sv._case("aauth", ver, "auth_digital", [sc.TITLE, 3, sc.TOK, tok], "token/u/%d:%s" % (i, _u(tok)[:40]),
                          "accept" if ok else "refuse", carried="token",
                          note="cert = %s (%d ASCII full stop(s); exactly 2 make a token)" % (ascii(tok), tok.count("."))))
    return C


def login_cases(ver):
    C = []
    for country in ["\uff2e\uff2c", "\u00e9", "\u8a9e", "\U0001F600", "\u0664\u0661\u0669", "N\u200bL", "\u3000"]:
        for app in (None, "app.tok"):
            C.append(sv._case("baas", ver, "login", [0x1234, "pw", "acc", app, country, False],
                              "login/u/country=%s/app=%s" % (_u(country), ascii(app)), "accept", carried="login",
                              note="na_country=%s" % ascii(country)))
    return C


def not_versions(versions):
    """version numbers spelt with non-ASCII digits: `int()` takes them, they are not versions"""
    out = []
    for v in sorted({versions[0], versions[-1], 1800, 1900} & set(versions) | {versions[-1]}):
        for base in DIGITS.values():
            out.append("".join(chr(base + int(c)) for c in str(v)))
    return out


def cases(rng, ver, doc, full, kinds=("msg", "data", "tag")):
    C = []
    if "msg" in kinds: C += message_cases(rng, ver, doc, full)
    if "data" in kinds: C += data_cases(rng, ver, doc)
    if "tag" in kinds: C += tag_cases(rng, ver, doc, full)
    return C
