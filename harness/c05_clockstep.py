"""C05 — the 120 s lifetime across DISCONTINUITIES of the system clock (virtual time, real clients and one real keyed server).

One scenario = one keyed server that keeps running while its machine's system clock (time.time) is stepped forward / backward by a
minute .. a month (suspend/resume, an NTP step, an operator setting the clock), independently of the monotonic clock, which keeps
counting (the library's timers run on it).  The simulation's clock object serves both: time() = epoch + virtual time, monotonic() =
virtual time; a step adds to `epoch` from outside, nothing in the library is touched.

    plan = [ ("show", age), ("wait", dt), ("step", delta), ("carry", k) ... ]

  show   a new client (own address) connects with an otherwise valid ticket stamped `age` seconds before the system clock's
         present reading (the issuer shares the system clock, as the repository's authentication server does: DateTime.now())
  carry  a ticket that was issued (stamped with the clock as it was then) k plan entries ago is shown now: its age against the
         system clock as it is now = elapsed time + the steps in between
  step   the system clock jumps by delta seconds; wait: time passes on both clocks

Some tickets are shown before the first step (whatever the server remembers about the clock from its start or its first requests is
in place by then), then after every step: at once, and again after some time.

Oracle on the real code: age := (system clock when the CONNECT reaches the server) - (ticket stamp).
  age > 120.5 s  -> no connection, no handler invocation, no CONNECT acknowledgement, the client's handshake fails
  age <= 119 s   -> exactly one handler invocation, it observes the ticket's user id and session key, the client's message is echoed
For a carried ticket whose age by the system clock and whose elapsed real age fall on different sides of 120 s the verdict is not
judged (counted); all tickets issued after the last step are judged.

Model tie (datagram transports): every CONNECT datagram that reached the server is given to a fresh compiled L1 model server
(nxdrv_C02: env with the system clock's epoch at that moment, bind with the key, one dgram) and the model's admit / refuse decision is
compared with the real server's - admission_ignores_history says the model's decision depends on nothing else."""
import os, random, time, traceback
import anyio
import prudp_session as ps
from sim import Sim, Deadlock, quant, ticks
from nintendo.nex import prudp, kerberos, common
from c05_lifecycle import decode, SERVER, SERVER_KEY, ENCODINGS


def stamp_ticket(s, sk, pid, stamp):
    t = kerberos.ServerTicket()
    t.timestamp = common.DateTime.fromtimestamp(stamp)
    t.source = pid
    t.session_key = sk
    ct = kerberos.ClientTicket()
    ct.session_key = sk
    ct.target = 1001
    ct.internal = t.encrypt(SERVER_KEY, s)
    return kerberos.Credentials(ct, pid, 2000)


def run_case(spec):
    os.environ["TZ"] = spec.get("tz", "UTC0"); time.tzset()
    transport, version = ENCODINGS[spec["enc"]]
    cfg = ps.Cfg(transport=transport, version=version, credentials=True, pid_size=spec.get("pid_size", 4), key_size=spec.get("key_size", 32),
                 ticket_version=spec.get("ticket_version", 0), fragment_size=50, resend_timeout=0.5, resend_limit=2, ping_timeout=1.0)
    bound = cfg.ping_timeout + (cfg.resend_limit + 1) * cfg.resend_timeout
    rng = random.Random(spec.get("seed", 0))
    bad, facts = [], {"judged_refuse": 0, "judged_admit": 0, "not_judged": 0, "admitted": 0, "refused": 0, "steps": 0, "carried": 0}
    shows = []           # model tie: one record per CONNECT that reached the server
    with Sim(spec.get("seed", 0) & 0xFFFF, epoch=float(spec.get("epoch", 1_700_000_000))) as sim:
        s = cfg.settings()
        sim.install_factories()
        sim.net.fate = lambda tx: [0.01]
        clock = sim.clock
        # every reading of the system clock the `time` module offers follows the stepped clock; the monotonic ones follow virtual time
        clock.time_ns = lambda: int(round(clock.time() * 1e9))
        clock.monotonic_ns = lambda: int(round(clock.monotonic() * 1e9))
        clock.perf_counter = clock.monotonic
        clock.perf_counter_ns = clock.monotonic_ns
        top = 2 ** (8 * cfg.pid_size) - 1
        log = sim.net.log
        inv = []
        ref = {}
        issued = []          # (plan index, creds, pid, sk, stamp, real instant of issue)

        async def handler(client):
            rec = {"t": sim.now(), "pid": client.pid(), "key": getattr(client, "session_key", None), "echoed": 0}
            inv.append(rec)
            try:
                while True:
                    d = await client.recv()
                    await client.send(b"echo:" + d)
                    rec["echoed"] += 1
            except anyio.EndOfStream:
                pass
            except Exception as e:
                rec["error"] = repr(e)
            rec["pid_end"] = client.pid()

        def connect_acks_since(pos):
            n = 0
            for e in log[pos:]:
                data = e[5] if e[0] == "tx" and e[3] == SERVER else e[4] if e[0] == "stx" and e[2] == SERVER else None
                if data is not None:
                    n += sum(1 for p in decode(s, data) if p.type == 1 and p.flags & 1)
            return n

        async def talk(client, msg):
            try:
                await client.send(msg)
                with anyio.fail_after(quant(bound + 5)):
                    d = await client.recv()
                return "ok" if d == b"echo:" + msg else "wrong-echo:%r" % d[:24]
            except anyio.EndOfStream:
                return "no-echo (connection ended)"
            except TimeoutError:
                return "no-echo (nothing arrived)"
            except anyio.ClosedResourceError:
                return "closed"
            except Exception as e:
                return "error:" + repr(e)[:60]

        async def show(i, creds, pid, sk, stamp, issued_real, carried):
            before, pos = len(inv), len(log)
            epoch_then = clock.epoch
            done, outcome = False, None
            try:
                async with prudp.connect(s, SERVER[0], SERVER[1], credentials=creds) as c:
                    done = True
                    outcome = await talk(c, b"msg%d" % i)
            except BaseException as e:
                if isinstance(e, (KeyboardInterrupt, SystemExit)) or isinstance(e, anyio.get_cancelled_exc_class()): raise
                outcome = "failed:" + repr(e)[:60]
            await anyio.sleep(quant(0.25))
            new = inv[before:]
            # the instant the (first) CONNECT reached the server
            t_rx, dgram, src = None, None, None
            for e in log[pos:]:
                if e[0] == "rx" and e[4] == SERVER and any(p.type == 1 and not p.flags & 1 for p in decode(s, e[5])):
                    t_rx, dgram, src = e[2], e[5], e[3]; break
            if t_rx is None:
                t_rx = sim.now()          # stream transport: within the same 0.3 s
            age = epoch_then + t_rx - stamp
            real_age = t_rx - issued_real[0] + issued_real[1]
            acks = connect_acks_since(pos)
            created = len(new) > 0
            facts["admitted" if created else "refused"] += 1
            what = ("step %d of the plan: a ticket stamped %d (%s) shown to a server that has been running for %.1f s, after its system clock was stepped by %s s in total "
                    "(last step %+d s, %.1f s ago); by the system clock as it is now the ticket is %.2f s old") % (
                i, stamp, "carried over the steps, issued %.1f s of real time ago" % real_age if carried else "issued after the last step",
                sim.now(), "%+d" % (clock.epoch - sim.epoch), facts.get("last_step", 0), sim.now() - facts.get("last_step_at", 0.0), age)
            judged = None
            if carried and (age > 120) != (real_age > 120):
                facts["not_judged"] += 1
            elif age > 120.5:
                judged = False
                facts["judged_refuse"] += 1
                if created:
                    bad.append("%s (older than 120 s), yet the server created a connection and invoked the handler (user id %r)" % (what, [r["pid"] for r in new]))
                elif acks or done:
                    bad.append("%s (older than 120 s), yet the server acknowledged the CONNECT / the client's handshake completed" % what)
            elif age <= 119:
                judged = True
                facts["judged_admit"] += 1
                if not (len(new) == 1 and done and outcome == "ok"):
                    bad.append("%s (fresh), yet it was not admitted: handler invocations %d, handshake %s, message %s" % (what, len(new), "completed" if done else "failed", outcome))
            for r in new:
                if r["pid"] != pid or r.get("pid_end", pid) != pid:
                    bad.append("%s: the handler observes user id %r / %r, the ticket was issued to %r" % (what, r["pid"], r.get("pid_end"), pid))
                if r["key"] is not None and r["key"] != sk:
                    bad.append("%s: the connection is keyed with %s, the ticket's session key is %s" % (what, r["key"].hex(), sk.hex()))
            if len(new) > 1:
                bad.append("%s: one connection request, %d handler invocations" % (what, len(new)))
            if dgram is not None:
                shows.append({"epoch": int(epoch_then), "tick": ticks(t_rx), "src": list(src), "dgram": dgram.hex(), "created": created, "judged": judged, "age": age})

        async def main():
            async with prudp.serve_transport(s, SERVER[0], SERVER[1]) as srv:
                async with srv.serve(handler, 1, 10, SERVER_KEY):
                    ref["stream"] = srv.ports.get(1, 10)
                    for i, (op, v) in enumerate(spec["plan"]):
                        if op == "wait":
                            await anyio.sleep(quant(v))
                        elif op == "step":
                            clock.epoch += v
                            facts["steps"] += 1
                            facts["last_step"], facts["last_step_at"] = v, sim.now()
                        elif op == "show":
                            pid, sk = rng.choice([1000, 1, top, rng.randrange(2, top)]), rng.randbytes(cfg.key_size)
                            stamp = int(clock.time()) - v
                            creds = stamp_ticket(s, sk, pid, stamp)
                            issued.append((i, creds, pid, sk, stamp, (sim.now(), clock.time() - stamp)))
                            await show(i, creds, pid, sk, stamp, (sim.now(), clock.time() - stamp), False)
                        elif op == "carry":
                            if len(issued) >= v:
                                j, creds, pid, sk, stamp, ir = issued[-v]
                                facts["carried"] += 1
                                await show(i, creds, pid, sk, stamp, ir, True)
                    await anyio.sleep(quant(bound + 2))
                    facts["table_end"] = len(ref["stream"].clients)

        async def guarded():
            total = sum(v for op, v in spec["plan"] if op == "wait")
            with anyio.move_on_after(total + len(spec["plan"]) * (3 * bound + 10) + 100) as scope:
                await main()
            facts["timed_out"] = scope.cancelled_caught

        try:
            sim.run(guarded())
        except Deadlock as e:
            bad.append("the scenario deadlocked: %s" % e)
        if facts.get("timed_out"):
            bad.append("the scenario did not finish in its (virtual) time")
        if facts.get("table_end"):
            bad.append("at the end the server still holds %d table entries" % facts["table_end"])
    facts["shows"] = shows
    facts["cfg"] = {"transport": transport, "version": version, "pid_size": cfg.pid_size, "key_size": cfg.key_size, "ticket_version": cfg.ticket_version}
    return bad, facts


def work(spec):
    try:
        bad, facts = run_case(spec)
        return spec, bad, facts, None
    except Exception:
        return spec, [], {}, traceback.format_exc()
    finally:
        os.environ["TZ"] = "UTC0"; time.tzset()


def model_lines(spec, facts, name):
    """op lines for the compiled L1 model: per CONNECT that reached the real server a fresh model server whose system clock reads what
    the real one read -> [(lines, index of the dgram line, show)]"""
    import l1_trace
    os.environ["TZ"] = spec.get("tz", "UTC0"); time.tzset()
    c = facts["cfg"]
    if c["transport"] != "udp":
        return []
    cfg = ps.Cfg(transport="udp", version=c["version"], credentials=True, pid_size=c["pid_size"], key_size=c["key_size"], ticket_version=c["ticket_version"],
                 fragment_size=50, resend_timeout=0.5, resend_limit=2, ping_timeout=1.0)
    s = cfg.settings()
    out = []
    for k, sh in enumerate(facts["shows"]):
        E, S = "%se%d" % (name, k), "%ss%d" % (name, k)
        l1_trace.sess_epoch[0] = sh["epoch"]
        lines = [l1_trace.env_line(E, cfg, s), "srv %s %s %s %d 0" % (S, E, SERVER[0], SERVER[1]), "bind %s 1 10 %s" % (S, SERVER_KEY.hex()),
                 "dgram %s %d %s %d %s 4660 2882400001 90" % (S, sh["tick"], sh["src"][0], sh["src"][1], sh["dgram"])]
        out.append((lines, 3, sh))
    os.environ["TZ"] = "UTC0"; time.tzset()
    return out


DELTAS = [60, -60, 119, -119, 121, -121, 300, -300, 3600, -3600, 7200, -7200, 86400, -86400, 30 * 86400, -30 * 86400, 1800, -1800, 10 * 60, -10 * 60]


def ages_after(delta, rng, quick):
    d = abs(delta)
    base = [0, 60, 118, 122, 130, 600]
    near = [a for a in (d - 125, d - 60, d - 1, d + 60, d + 118, d + 122, d + 600, 120 + d // 2) if a >= 0]
    extra = [rng.choice([10, 30, 90, 110, 150, 180, 240, 3600, 86400])]
    ages = base + near + extra
    if quick:
        ages = [0, rng.choice([60, 118]), 122, rng.choice([130, 600])] + rng.sample(near, min(3, len(near))) + extra
    return ages


def cases(rng, quick):
    out = []
    encs = ("v1", "v0", "lite")
    def base(enc):
        return dict(enc=enc, pid_size=rng.choice([4, 8]), key_size=rng.choice([16, 32]), ticket_version=rng.choice([0, 1]),
                    tz=rng.choice(["UTC0", "JST-9", "EST5"]), seed=rng.getrandbits(32), epoch=rng.choice([1_700_000_000, 1_718_000_000 + rng.randrange(10 ** 7)]))
    def warmup():
        return [("show", 0), ("show", rng.choice([60, 118])), ("show", rng.choice([122, 125, 600])), ("wait", rng.choice([1, 30, 500, 5000]))]
    def pre():
        # issued just before the step: carried over it
        return [("show", rng.choice([0, 10, 50])), ("show", rng.choice([0, 90, 110]))]
    def after(delta):
        plan = []
        ages = ages_after(delta, rng, quick)
        half = len(ages) // 2 + 1
        plan += [("carry", 1), ("carry", 2)]                    # the tickets issued just before the step, shown at once after it
        plan += [("show", a) for a in ages[:half]]              # at once after the step
        plan += [("wait", rng.choice([0.5, 2, 10, 61, 130, 700]))]
        plan += [("show", a) for a in ages[half:]]
        plan += [("carry", rng.choice([1, 2, 5]))]
        return plan
    # S1. one step of every size in both directions
    for k, delta in enumerate(DELTAS):
        for enc in encs:
            out.append(dict(base(enc), name="clock-step", plan=warmup() + pre() + [("step", delta)] + after(delta)))
    # S2. several steps in one run (there and back again, cumulative, drift corrections)
    seqs = [[3600, -3600], [-3600, 3600], [300, 300, 300], [-7200, 60, -60], [86400, -86400, 121], [-121, -121, 3600]]
    for k, seq in enumerate(seqs if not quick else rng.sample(seqs, 3)):
        for enc in (encs if not quick else (encs[k % 3],)):
            plan = warmup()
            for d in seq:
                plan += pre() + [("step", d)] + after(d) + [("wait", rng.choice([1, 100, 1000]))]
            out.append(dict(base(enc), name="clock-steps-sequence", plan=plan))
    # S3. random plans
    for k in range(4 if quick else 30):
        plan = warmup()
        for _ in range(rng.randrange(1, 4)):
            d = rng.choice([1, -1]) * rng.choice([rng.randrange(1, 240), rng.randrange(240, 7200), rng.randrange(7200, 10 ** 6)])
            plan += [("wait", rng.choice([0, 1, 50, 400]))] + pre() + [("step", d)] + after(d)
        out.append(dict(base(rng.choice(encs)), name="clock-steps-random", plan=plan))
    # S0. control: no step at all (the same plan shape)
    for enc in encs:
        out.append(dict(base(enc), name="clock-no-step", plan=warmup() + pre() + after(0)))
    return out


if __name__ == "__main__":
    import sys
    rng = random.Random(int(sys.argv[1]) if len(sys.argv) > 1 else 0)
    cs = cases(rng, True)
    t0 = time.time()
    nb = 0
    tot = {}
    for c in cs:
        spec, bad, facts, err = work(c)
        nb += bool(bad or err)
        for k, v in facts.items():
            if isinstance(v, int) and not isinstance(v, bool): tot[k] = tot.get(k, 0) + v
        print(c["name"], c["enc"], [p for p in c["plan"] if p[0] == "step"], {k: v for k, v in facts.items() if k not in ("shows", "cfg")}, "BAD" if bad else "", bad[:2], err or "")
    print(len(cs), "cases", nb, "bad", tot, time.time() - t0, "s")
