import NxProofs.SchemaInventory
/-!
# C12 — checked-in protocol stubs and docs are exactly the generator's output

Byte equality of 54 files with the output of a Python program is established by *re-running that program*
(the repository's generator, in a scratch copy) and comparing bytes — exhaustive and finite; Lean adds nothing
to that and it is claimed as translation validation, not as proof. What is decided by the kernel on every
run are the obligations the re-generation cannot see:
* the **inventory bijection** (`inventoryOK`, on the name lists collected from the working tree): the generator
  never deletes, so a generated page or module whose definition is gone survives every re-run unchanged;
* equality of the tables recovered by `ast` from the checked-in modules (structure classes with parent and
  DataHolder registration, protocol ids, NORESPONSE, method names and ids) with those of the definitions.
The theorems below say what a discharged `inventoryOK` obligation means.
-/
namespace Nx.C12
open Nx.Schema.Inv

/-- a discharged inventory obligation is the bijection the property states: no definition lacks its module or
    page, no generated module or page lacks its definition -/
theorem inventory_bijection (protos modules pages : List Nat) (h : inventoryOK protos modules pages = true) :
    (∀ x, x ∈ protos ↔ x ∈ modules) ∧ (∀ x, x ∈ protos ↔ x ∈ pages) :=
  inventoryOK_iff protos modules pages h

/-- an orphaned generated page (or, symmetrically by `inventory_bijection`, module) makes the obligation fail -/
theorem orphan_page_detected (protos modules pages : List Nat) (x : Nat) (hx : x ∈ pages) (hp : x ∉ protos) :
    inventoryOK protos modules pages = false :=
  orphan_breaks protos modules pages x hx hp

/-! non-vacuity -/
example : inventoryOK [1, 2, 3] [3, 1, 2] [2, 3, 1] = true := by decide
example : inventoryOK [1, 2, 3] [3, 1, 2] [2, 3, 1, 4] = false := by decide
example : missing [2, 3, 1, 4] [1, 2, 3] = [4] := by decide

end Nx.C12
