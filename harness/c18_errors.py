"""C18, round 11 — server error payloads at the edges of their format, for every client's error class.

"A server error payload always surfaces as that service's typed error carrying the server's code": for DAuthError,
AAuthError, BAASError, DragonsError, FiveError and SunError the payloads here are WELL-FORMED error documents (every
member the documentation lists is there, with the documented type) whose values sit at the edges of what the format
allows:
  * problem `type` (dragons, baas - RFC 7807 URI reference): no '/', empty, 'about:blank', a URN, relative references,
    absolute path, trailing slash(es), only slashes, query / fragment containing '/', white space, non-ASCII, very long;
  * optional members absent / empty / null (`invalid-params` of dragons), members the client does not read present
    (`status`, `instance`, `errorCode`, ...) or absent;
  * codes in every spelling the server may use (zero-padded, bare, int, surrounding white space, 0, large), every documented code;
  * empty / non-ASCII / very long / format-looking texts; several error entries;
  * EVERY error status (400..451, 500..511, 499, 520, 599, and the non-2xx non-error classes 1xx / 3xx; 2xx too for the
    clients that recognise an error document by its key), on EVERY public call of the client, and for calls that make
    several requests at EVERY request of the call.
Oracle on the real code: the call raises the client's documented exception class, every documented attribute carries the
server's value (`name` of DragonsError: the last path segment of `type` when `type` has one; always a str), `response`
is the response object, `str(e)` is the title / message; never another exception (KeyError / IndexError / ... out of the
constructor), never a success.  For dragons / sun a 2xx answer is a success whatever its body.
Every case also goes through the compiled Lean model (`resp` lines, Nx.Switch.classify) and is compared."""
import json
import anyio
from anynet import http
import switch_cases as sc

ERR_CLASS = {"dauth": "DAuthError", "aauth": "AAuthError", "baas": "BAASError", "dragons": "DragonsError", "five": "FiveError", "sun": "SunError"}
KEYED = ("dauth", "aauth", "baas", "five")           # recognise the error document by its key, whatever the status
DEV = 0x1234

ERR_STATUSES = list(range(400, 452)) + list(range(500, 512)) + [499, 520, 599]
OTHER_NON_2XX = [100, 101, 199, 300, 301, 304, 399]
OK_STATUSES = [200, 201, 204, 299]

TYPES = [("https://x.example/errors/invalid_parameter", "url"), ("invalid_parameter", "noslash"), ("", "empty"), ("about:blank", "about-blank"),
         ("urn:nintendo:dragons:error:1234", "urn"), ("../errors/not_found", "relative-dotdot"), ("errors/not_found", "relative"),
         ("/errors/not_found", "abs-path"), ("https://x.example/errors/not_found/", "trailing-slash"), ("not_found/", "noslash-trailing"),
         ("/", "slash"), ("//", "slashes"), ("https://x.example", "authority-only"), ("https://x.example/errors/a?b=c/d#e/f", "query-fragment"),
         ("#frag", "fragment"), ("?q", "query"), (" ", "space"), ("https://x.example/errors/déjà", "nonascii"),
         ("tag:x.example,2024:err", "tag-uri"), ("https://x.example/" + "seg/" * 300 + "last", "long"), ("\\errors\\backslash", "backslash")]

TEXTS = [("", "empty"), ("plain text", "plain"), ("détail ☃ \U0001F600", "nonascii"), ("%s %d %(x)s {} {0} {x}", "format"),
         ("line1\r\nline2\ttab", "control"), ("x" * 5000, "long")]


def last_segment(t):
    return t.rsplit("/", 1)[-1] if "/" in t else None


def payloads(client, data):
    """(payload, tag, expected attributes) — all of them well-formed error documents"""
    P = []
    if client in ("dauth", "aauth", "five"):
        cls = ERR_CLASS[client]
        codes = sorted(set(data["errors"].get(client, {}).get(cls, {}).values()) | set(v for k, v in data["doc_errors"].get(client, {}).items() if not k.startswith("CLIENT_ID")))
        def doc(entries, top=None):
            if client == "five":
                d = {"error": entries[0]}
            else:
                d = {"errors": entries}
            if top: d.update(top)
            return d
        for c in codes + [0, 1, 9999, 10 ** 12]:
            for spell, tag in [("%04d" % c, "padded"), (str(c), "bare"), (c, "int"), (" %d " % c, "ws"), ("%020d" % c, "long-padded"), ("+%d" % c, "plus")]:
                P.append((doc([{"code": spell, "message": "m%d" % c}]), "code-%s" % tag, {"code": c, "message": "m%d" % c}))
        P.append((doc([{"code": "-3", "message": "neg"}]), "code-negative", {"code": -3, "message": "neg"}))
        for t, tag in TEXTS:
            P.append((doc([{"code": "0004", "message": t}]), "message-" + tag, {"code": 4, "message": t}))
        P.append((doc([{"code": "0004", "message": None}]), "message-null", {"code": 4, "message": None}))
        P.append((doc([{"message": "first", "code": "0007"}]), "member-order", {"code": 7, "message": "first"}))
        P.append((doc([{"code": "0004", "message": "m", "detail": "d", "status": 400, "type": "about:blank", "errors": []}]), "entry-extra-members", {"code": 4, "message": "m"}))
        P.append((doc([{"code": "0004", "message": "m"}], {"status": 400, "type": "", "title": "t", "challenge": "c", "data": "d", "count": 0}), "top-extra-members", {"code": 4, "message": "m"}))
        P.append((doc([{"code": "0004", "message": "m"}], {"error": None, "errorCode": None} if client != "five" else {"errors": None, "errorCode": None}), "top-other-error-keys", {"code": 4, "message": "m"}))
        if client != "five":
            for n in (2, 3, 50):
                P.append((doc([{"code": "%04d" % (8 + i), "message": "m%d" % i} for i in range(n)]), "entries-%d" % n, {"code": 8, "message": "m0"}))
            P.append((doc([{"code": "0015", "message": "a"}, {"code": 16, "message": None, "x": 1}]), "entries-mixed", {"code": 15, "message": "a"}))
    elif client == "baas":
        full = {"type": "https://x.example/errors/invalid_token", "errorCode": "invalid_token", "title": "Invalid", "detail": "d", "status": 401, "instance": "i"}
        def exp(d): return {"type": d["type"], "name": d["errorCode"], "title": d["title"], "detail": d["detail"], "status": d["status"], "instance": d["instance"]}
        for t, tag in TYPES:
            d = dict(full, type=t); P.append((d, "type-" + tag, exp(d)))
        for v, tag in [("", "empty"), ("a/b", "slash"), ("x" * 3000, "long"), (0, "zero"), (1234, "int"), (None, "null"), ("déjà", "nonascii")]:
            d = dict(full, errorCode=v); P.append((d, "errorCode-" + tag, exp(d)))
        for t, tag in TEXTS:
            d = dict(full, title=t); P.append((d, "title-" + tag, exp(d)))
            d = dict(full, detail=t); P.append((d, "detail-" + tag, exp(d)))
            d = dict(full, instance=t); P.append((d, "instance-" + tag, exp(d)))
        for v, tag in [(0, "zero"), ("401", "str"), (None, "null"), (599, "599"), (-1, "negative")]:
            d = dict(full, status=v); P.append((d, "status-" + tag, exp(d)))
        d = dict(full, detail=None, instance=None); P.append((d, "nulls", exp(d)))
        d = dict(full, **{"invalid-params": [], "number": 5, "error": {"code": "1"}, "errors": []}); P.append((d, "extra-members", exp(d)))
        d = {k: full[k] for k in reversed(list(full))}; P.append((d, "member-order", exp(d)))
    elif client == "dragons":
        full = {"type": "https://x.example/errors/invalid_parameter", "title": "Bad", "detail": "d", "number": 1234}
        def exp(d): return {"type": d["type"], "title": d["title"], "detail": d["detail"], "status": d["number"], "invalid_params": d.get("invalid-params")}
        for t, tag in TYPES:
            d = dict(full, type=t); P.append((d, "type-" + tag, exp(d)))
            d = dict(full, type=t, **{"invalid-params": [{"name": "n", "reason": "r"}]}); P.append((d, "type-%s+params" % tag, exp(d)))
        for v, tag in [(None, "absent"), ([], "empty"), ([{"name": "n", "reason": "r"}, {"name": "", "reason": ""}], "two"), ([{}], "empty-entry"),
                       ("null", "null"), ({}, "dict")]:
            d = dict(full)
            if tag != "absent": d["invalid-params"] = None if tag == "null" else v
            P.append((d, "params-" + tag, exp(d)))
        for v, tag in [(0, "zero"), (1, "one"), (2 ** 40, "large"), ("0042", "str"), (None, "null"), (-1, "negative")]:
            d = dict(full, number=v); P.append((d, "number-" + tag, exp(d)))
        for t, tag in TEXTS:
            d = dict(full, title=t); P.append((d, "title-" + tag, exp(d)))
            d = dict(full, detail=t); P.append((d, "detail-" + tag, exp(d)))
        d = dict(full, title=None, detail=None); P.append((d, "nulls", exp(d)))
        d = dict(full, status=400, instance="/i", errorCode="x", error={"code": 1}, errors=[]); P.append((d, "extra-members", exp(d)))
        d = {"type": full["type"], "title": "", "detail": "", "number": 0}; P.append((d, "minimal", exp(d)))
        d = {k: full[k] for k in reversed(list(full))}; P.append((d, "member-order", exp(d)))
    elif client == "sun":
        def doc(e, top=None):
            d = {"error": e}
            if top: d.update(top)
            return d
        for v, tag in [("0001", "padded"), ("1", "bare"), ("", "empty"), (5, "int"), (0, "zero"), (None, "null"), ("not-a-number", "text"), ("a/b", "slash")]:
            P.append((doc({"code": v, "message": "m"}), "code-" + tag, {"code": v, "message": "m"}))
        for t, tag in TEXTS:
            P.append((doc({"code": "0001", "message": t}), "message-" + tag, {"code": "0001", "message": t}))
        P.append((doc({"code": "0001", "message": None}), "message-null", {"code": "0001", "message": None}))
        P.append((doc({"message": "m", "code": "2", "detail": "d", "status": 1}), "entry-extra-members", {"code": "2", "message": "m"}))
        P.append((doc({"code": "2", "message": "m"}, {"errors": [], "type": "", "status": 503}), "top-extra-members", {"code": "2", "message": "m"}))
    return P


class Runner:
    """one client object per class; the answer to request #step of the call is the scripted one"""
    def __init__(self, mods, client):
        self.client = client
        self.mods = mods
        self.cl = sc.make_client(mods, client, DEV if client in ("dragons", "sun") else None)
        self.cl.set_request_callback(self.cb)
        self.n = 0

    async def cb(self, host, req, context):
        i = self.n; self.n += 1
        if i == self.step:
            r = http.HTTPResponse(self.status)
            r.json = self.payload
            self.sent = r
            return r
        return sc.good_response(self.client, self.call, req)

    async def run(self, call, args, step, status, payload):
        self.call, self.step, self.status, self.payload, self.n, self.sent = call, step, status, payload, 0, None
        try:
            v = await sc.invoke(self.cl, self.client, call, args)
            return ("ok", v)
        except Exception as e:
            return ("exc", e)


def classify(mods, client, out):
    """the same words as corr_C18.classify_real"""
    if out[0] == "ok":
        return "ok None" if out[1] is None else "ok " + sc.jhex(out[1])
    e = out[1]
    if isinstance(e, http.HTTPResponseError): return "http %d" % e.response.status_code
    if isinstance(e, getattr(mods[client], ERR_CLASS[client])):
        try:
            if client in ("dauth", "aauth", "five", "sun"): return "typed %s %s" % (sc.jhex(e.code), sc.jhex(e.message))
            if client == "baas": return "typed %s %s" % (sc.jhex(e.name), sc.jhex(e.title))
            if client == "dragons": return "typed %s %s" % (sc.jhex(e.status), sc.jhex(e.title))
        except Exception:
            return "typed ?"
    return "raises"


def judge(mods, client, runner, status, payload, expect, out, ret):
    """None or why the property fails"""
    cls = getattr(mods[client], ERR_CLASS[client])
    ok2 = status // 100 == 2
    if client not in KEYED and ok2:
        if out[0] != "ok": return "a 2xx answer is a success whatever its JSON body says, got %r" % (out[1],)
        return None
    if out[0] == "ok":
        return "a well-formed error document (status %d) is returned as a success: %r" % (status, out[1])
    e = out[1]
    if not isinstance(e, cls):
        return ("the error surfaces as %s(%s) instead of %s" % (type(e).__name__, str(e)[:80], ERR_CLASS[client]))
    for a, want in expect.items():
        if not hasattr(e, a): return "%s has no attribute `%s`" % (ERR_CLASS[client], a)
        got = getattr(e, a)
        if got != want or (type(got) is not type(want) and not (isinstance(got, int) and isinstance(want, int))):
            return "%s.%s is %r, the server sent %r" % (ERR_CLASS[client], a, got, want)
    if client == "dragons":
        name = getattr(e, "name", None)
        if not isinstance(name, str): return "DragonsError.name is %r, not a str" % (name,)
        seg = last_segment(payload["type"])
        if seg and name != seg: return "DragonsError.name is %r, the last segment of type %r is %r" % (name, payload["type"][:80], seg)
    if getattr(e, "response", None) is not runner.sent:
        return "%s.response is not the response that carried the error" % ERR_CLASS[client]
    text = expect.get("title", expect.get("message"))
    if isinstance(text, str):
        try:
            s = str(e)
        except Exception as x:
            return "str() of the %s raises %r" % (ERR_CLASS[client], x)
        if s != text: return "str() of the %s is %r, not the server's %r" % (ERR_CLASS[client], s, text)
    return None


def calls_of(client):
    """(call, args, number of requests) — every public call once (its first accepted variant)"""
    out, seen = [], set()
    for call, args, tag in sc.call_variants(client):
        if call in seen: continue
        if client == "aauth" and call == "auth_digital" and tag != "jwt-ok": continue      # the constructor default is API >= 4
        if client == "baas" and call == "login" and tag == "no-country": continue
        seen.add(call)
        n = 2 if (client == "dauth" and call in ("device_token", "edge_token")) else 1
        out.append((call, args, n))
    return out


def run(ctx, mods, data, drv, diffs):
    rng = ctx.rng
    quick = ctx.tier == "quick"
    stats = {"cases": 0, "payloads": {}, "statuses": 0, "calls": {}, "model_lines": 0}
    work = []       # (client, call, args, step, status, payload, tag, expect)
    for client in ERR_CLASS:
        P = payloads(client, data)
        stats["payloads"][client] = len(P)
        calls = calls_of(client)
        stats["calls"][client] = sum(n for _, _, n in calls)
        rep = calls[0]
        statuses = ERR_STATUSES + OTHER_NON_2XX + OK_STATUSES
        stats["statuses"] = len(statuses)
        core = [p for p in P if p[1].startswith(("type-", "params-", "entries-", "nulls", "minimal", "code-padded", "code-int", "message-empty"))]
        core_tags = {id(p) for p in core}
        few = [400, 404, 500, 503, 200, rng.choice(ERR_STATUSES), rng.choice(OTHER_NON_2XX)]
        for p in P:
            for s in statuses:
                work.append((client, rep[0], rep[1], 0, s, p[0], p[2], p[1]))
        # every call, every request of the call
        for call, args, n in calls:
            for step in range(n):
                if (call, step) == (rep[0], 0): continue
                for p in P:
                    for s in (few[:5] + [rng.choice(ERR_STATUSES)] if quick else statuses):
                        if client not in KEYED and s // 100 == 2: continue
                        work.append((client, call, args, step, s, p[0], p[2], p[1]))

    results = []
    reported = set()

    async def main():
        runners = {c: Runner(mods, c) for c in ERR_CLASS}
        for client, call, args, step, status, payload, expect, tag in work:
            r = runners[client]
            out = await r.run(call, args, step, status, payload)
            why = judge(mods, client, r, status, payload, expect, out, sc.ret_kind(client, call))
            results.append(classify(mods, client, out))
            ctx.case(key="err-edge/%s/%s/%d/%d/%s/%s" % (client, call, step, status, tag, json.dumps(payload, sort_keys=True)), nontrivial=True,
                     tag="err-edge:%s:%s" % (client, tag.split("-")[0]),
                     sample={"client": client, "call": call, "request": step, "status": status, "payload": repr(payload)[:160], "real": results[-1][:80]}
                     if len(results) % 2503 == 0 else None)
            if why and (client, tag) not in reported:
                reported.add((client, tag))
                ctx.violation("error-edge:%s:%s" % (client, tag),
                              "%s.%s answered (request #%d of the call) with status %d and the error document %s: %s"
                              % (client, call, step + 1, status, json.dumps(payload)[:400], why),
                              {"client": client, "device_id": DEV if client in ("dragons", "sun") else None, "call": call, "args": repr(args)[:300],
                               "answered_request": step, "status": status, "payload": payload, "expected_exception": ERR_CLASS[client],
                               "expected_attributes": expect, "real": repr(out[1])[:300], "why": why,
                               "python": "cl.set_request_callback(cb) with cb returning http.HTTPResponse(%d) whose .json is the payload; await cl.%s(...)" % (status, call)})
    anyio.run(main)
    stats["cases"] = len(work)

    # the same responses on the compiled model
    idx = list(range(len(work)))
    lines = ["resp %s %s %d %s" % (work[i][0], sc.ret_kind(work[i][0], work[i][1]), work[i][4], " ".join(sc.to_jtokens(work[i][5]))) for i in idx]
    if lines:
        outs = drv.batch(lines)
        for i, line, model in zip(idx, lines, outs):
            if results[i] != model:
                w = work[i]
                diffs.append(({"client": w[0], "call": w[1], "ver": "init", "tag": "err-edge:%d:%s" % (w[4], w[7]), "devid": None}, None, line[:400], results[i], model))
        ctx.traces_validated += len(lines)
    stats["model_lines"] = len(lines)
    ctx.extra["error_edges"] = stats
