"""C11 — the registered server OBJECTS and the TIME their handlers take (two axes the property quantifies over).

Objects. What a user registers with `RMCClient.start(servers)` is an instance of HIS OWN subclass of a generated server
class; such subclasses keep state (a registry of stations, a queue of pending notifications, ...) and routinely define
`__len__` / `__bool__`, so the object may be FALSY at the moment a request for its protocol arrives. The property speaks
of the registered protocol, not of the object's truth value: the handler runs and its outcome is the answer
(NORESPONSE protocols: no answer) — never Core::NotImplemented because the object "is not there".
`FLAVOURS` enumerates how the truth value of an object comes about and how it changes over a connection.

Time. A handler is a coroutine; it may await for as long as it likes (a database, another server, a player who must
confirm) before it returns, raises an RMC error or raises a Python exception. The answer is the handler's outcome
however long that took, it is sent when the handler is done (not before), and there is exactly one.
Sessions run on the virtual-time loop of harness/sim.py (`VLoop`): an hour of awaiting costs nothing, timers of the
code under test (anyio.fail_after / move_on_after, asyncio.wait_for, loop.call_later, and `time` in the nex modules)
see the virtual clock.

One session = one connection: a raw peer feeds request datagrams to the real `RMCClient.start(objects)` exactly as
harness/rmc_server_sim.py does (same scripted user methods, same records), but waits for the receive loop to come back
to `recv()` by an event instead of by polling, so that the clock can advance.
"""
import collections, time as _time, sys
import anyio
from nintendo.nex import rmc
import rmc_server_sim as R
import rmc_frames as FR
import sim as SIM

# how an object's truth value comes about: (name, truthy at the first request?, changes over the connection?)
FLAVOURS = ["plain",            # no __len__ / __bool__: truthy like any object
            "len0",             # a container that is empty: __len__ -> 0
            "lenN",             # a container holding 3 entries
            "boolF",            # __bool__ -> False ("not ready", "no players yet")
            "boolT",            # __bool__ -> True
            "len0-boolT",       # empty container, but __bool__ says True
            "lenN-boolF",       # non-empty container, but __bool__ says False
            "grows",            # a log of handled requests: empty (falsy) at the first request, non-empty afterwards
            "drains",           # a queue of 2 entries, one consumed per request: truthy, truthy, then falsy for good
            "flips"]            # __bool__ alternates: False at the 1st, 3rd, ... request
FALSY_AT_FIRST = {"len0", "boolF", "lenN-boolF", "grows", "flips"}

DELAYS_MS = [0, 1, 500, 1000, 5000, 9000, 10000, 11000, 29000, 30000, 31000, 59000, 60000, 61000, 119000, 120000, 121000,
             299000, 300000, 301000, 600000, 3600000, 86400000]
BUDGET_S = 10_000_000.0        # virtual seconds a request may take before the session calls it a hang


def subclass_of(flavour):
    """cls -> a user's stateful subclass of the generated server class `cls` with the truth value `flavour`"""
    def make(cls):
        ns = {}
        def __init__(self):
            cls.__init__(self)
            self.entries = collections.deque(range(3) if flavour in ("lenN", "lenN-boolF") else range(2) if flavour == "drains" else ())
            self.seen = 0
        ns["__init__"] = __init__
        if flavour in ("len0", "lenN", "len0-boolT", "lenN-boolF", "grows", "drains"):
            ns["__len__"] = lambda self: len(self.entries)
        if flavour in ("boolF", "lenN-boolF"): ns["__bool__"] = lambda self: False
        if flavour in ("boolT", "len0-boolT"): ns["__bool__"] = lambda self: True
        if flavour == "flips": ns["__bool__"] = lambda self: self.seen % 2 == 1
        async def handle(self, client, method_id, input, output):
            try:
                await cls.handle(self, client, method_id, input, output)
            finally:
                self.seen += 1
                if flavour == "grows": self.entries.append(method_id)
                if flavour == "drains" and self.entries: self.entries.popleft()
        ns["handle"] = handle
        return type(cls.__name__, (cls,), ns)
    return make


def prebuild(srvinfos, flavours):
    cell = R.Cell()
    return cell, [R.instrument(si, cell, subclass_of(f) if f != "generated" else None) for si, f in zip(srvinfos, flavours)]


class VPeer(R.Peer):
    """the raw peer of rmc_server_sim, signalling (instead of being polled for) the loop's return to recv()"""
    def __init__(self, minor, loop):
        super().__init__(minor)
        self.loop = loop
        self.stamps = []
        self.on_idle = None
        self.t_idle = None
    async def send(self, data):
        for _ in range(self.send_yields): await anyio.sleep(0)
        self.sent.append(data)
        self.stamps.append(self.loop.time())
    async def recv(self):
        while True:
            if self.inbox:
                self.idle = False
                return self.inbox.popleft()
            if self.closed: raise anyio.EndOfStream
            self.idle = True
            self.t_idle = self.loop.time()
            if self.on_idle is not None: self.on_idle.set()
            self.wakeup = anyio.Event()
            await self.wakeup.wait()
            self.wakeup = None


async def run_session(loop, srvinfos, cases, minor, flavours):
    """like rmc_server_sim.run_session, in virtual time; extra result fields: `truthy` (bool() of the addressed object
    when the request arrived; `truths`: of every registered object), `elapsed_ms` (virtual time until the loop was back at recv()), `sent_at_ms`"""
    import asyncio
    cell, servers = prebuild(srvinfos, flavours)
    peer = VPeer(minor, loop)
    S = R.config_settings(minor)
    if any(c.get("ref") for c in cases): cell.schema = FR.schema_for(S)
    client = rmc.RMCClient(S, peer)
    state = {"loop": "alive"}
    async def recv_loop():
        try:
            await client.start(servers)
            state["loop"] = "returned"
        except BaseException as e:
            if isinstance(e, asyncio.CancelledError) and state.get("teardown"): raise
            state["loop"] = "crash:" + type(e).__name__
        finally:
            if peer.on_idle is not None: peer.on_idle.set()
    results = []
    async with anyio.create_task_group() as tg:
        tg.start_soon(recv_loop)
        for _ in range(3): await anyio.sleep(0)
        for case in cases:
            if state["loop"] != "alive":
                results.append({"skipped": True}); continue
            cell.script = case["script"]; cell.called = None; cell.observed = None; cell.value_error = None; cell.observed_type = None
            cell.calls = []; cell.handled = []
            cell.ref = case.get("ref"); cell.args = None
            peer.sent = []; peer.stamps = []
            peer.send_yields = case["script"].get("send_yields", 0)
            truths = [bool(s) for s in servers]
            truthy = truths[case["srv"]] if case["srv"] is not None else None
            peer.on_idle = anyio.Event()
            t0 = loop.time()
            peer.push(bytes.fromhex(case["datagram"]))
            with anyio.move_on_after(BUDGET_S) as scope:
                await peer.on_idle.wait()
            hang = bool(scope.cancelled_caught) or (state["loop"] == "alive" and not peer.idle)
            t1 = peer.t_idle if (peer.idle and peer.t_idle is not None) else loop.time()
            # anything that is sent later (a second answer once an abandoned handler finishes, ...) belongs to this request too
            linger = case.get("linger_ms", 0)
            if linger and state["loop"] == "alive" and not hang: await anyio.sleep(linger / 1000.0)
            results.append({"sent": [d.hex() for d in peer.sent], "loop": state["loop"], "observed": cell.observed,
                            "called": cell.called is not None, "hang": hang, "observed_type": cell.observed_type, "value_error": cell.value_error,
                            "closed": client.closed, "calls": cell.calls, "handled": cell.handled, "args": cell.args,
                            "truthy": truthy, "truths": truths, "elapsed_ms": int(round((t1 - t0) * 1000)),
                            "sent_at_ms": [int(round((t - t0) * 1000)) for t in peer.stamps]})
        state["teardown"] = True
        tg.cancel_scope.cancel()
    return results


def run_sessions(jobs, seed=0):
    """jobs: list of (srvinfos, cases, minor, flavours) -> list of result lists; all on one virtual-time loop"""
    out = []
    with SIM.Sim(seed) as sim:
        # `time` as the nex modules of the tree under test see it (sim.py substitutes prudp / common / the scheduler)
        for name, mod in list(sys.modules.items()):
            if name.startswith("nintendo.nex.") and getattr(mod, "time", None) is _time:
                sim._patch(mod, "time", sim.clock)
        async def main():
            for srvinfos, cases, minor, flavours in jobs:
                out.append(await run_session(sim.loop, srvinfos, cases, minor, flavours))
        sim.run(main())
    return out


def plain(case):
    """the same request with a handler that does the same at once (the reference run on a fresh connection, real loop)"""
    sc = {k: v for k, v in case["script"].items() if k != "delay_ms"}
    return dict(case, script=sc)
