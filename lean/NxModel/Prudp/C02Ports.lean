import NxModel.Bytes
/-!
# `PRUDPPortTable` (nintendo/nex/prudp.py): local ports of a transport, bound for the duration of a `with` block

```python
def allocate(self, type):
    for i in reversed(range(self.num_ports)):
        if i | (type << 8) not in self.ports: return i
    raise ValueError("All ports are in use")

@contextlib.contextmanager
def bind(self, obj, port=None, type=10):
    if port is None: port = self.allocate(type)
    port |= type << 8
    if port in self.ports: raise ValueError("Port is in use: %i" %port)
    self.ports[port] = obj
    try: yield port & 0xFF
    finally: del self.ports[port]
```
The table is the list of bound keys (`port | type << 8`); what is bound to a key does not matter here.
`PRUDPClientTransport.connect` and `PRUDPServerTransport.serve` run their whole body inside `with self.ports.bind(...)`.
-/
namespace Nx.Prudp.Ports

structure Table where
  numPorts : Nat            -- 16 on UDP, 32 on stream transports
  bound : List Nat := []    -- keys in use
  deriving DecidableEq, Repr

def key (port type : Nat) : Nat := port ||| (type <<< 8)

/-- the scan of `allocate`: highest `i < n` whose key is free -/
def scan (bound : List Nat) (type : Nat) : Nat → Option Nat
  | 0 => none
  | n + 1 => if (key n type) ∈ bound then scan bound type n else some n

/-- `allocate(type)` -/
def Table.allocate (t : Table) (type : Nat) : Except Err Nat :=
  match scan t.bound type t.numPorts with
  | some i => .ok i
  | none => .error .value

/-- entering `bind(obj, port, type)`: the key that is now bound (the block yields `key &&& 0xFF`) -/
def Table.enter (t : Table) (port : Option Nat) (type : Nat) : Except Err (Table × Nat) := do
  let p ← match port with
    | some p => pure p
    | none => t.allocate type
  let k := key p type
  if k ∈ t.bound then .error .value else pure ({ t with bound := k :: t.bound }, k)

/-- the `finally` clause of `bind` -/
def Table.leave (t : Table) (k : Nat) : Table := { t with bound := t.bound.erase k }

/-- how the body of a `with` block is left -/
inductive Exit where
  | returned | raised | cancelled
  deriving DecidableEq, Repr

/-- one `with ports.bind(obj, port, type): body` — the `finally` clause runs however the body is left.
    Result: the table afterwards and what the block yielded (`none`: `bind` itself raised ValueError, the body never ran) -/
def Table.block (t : Table) (port : Option Nat) (type : Nat) (_how : Exit) : Table × Option Nat :=
  match t.enter port type with
  | .ok (t', k) => (t'.leave k, some (k &&& 0xFF))
  | .error _ => (t, none)

/-- blocks one after the other on one table (connections / serve blocks of ONE long-lived transport): the yielded ports -/
def Table.blocks (t : Table) : List (Option Nat × Nat × Exit) → Table × List (Option Nat)
  | [] => (t, [])
  | (port, type, how) :: rest =>
    let (t', y) := t.block port type how
    let (t'', ys) := t'.blocks rest
    (t'', y :: ys)

/-- the defective variant (for the counterexample only): the key is released only when the body returns normally -/
def Table.blockLeaky (t : Table) (port : Option Nat) (type : Nat) (how : Exit) : Table × Option Nat :=
  match t.enter port type with
  | .ok (t', k) => ((if how = .returned then t'.leave k else t'), some (k &&& 0xFF))
  | .error _ => (t, none)

def Table.blocksLeaky (t : Table) : List (Option Nat × Nat × Exit) → Table × List (Option Nat)
  | [] => (t, [])
  | (port, type, how) :: rest =>
    let (t', y) := t.blockLeaky port type how
    let (t'', ys) := t'.blocksLeaky rest
    (t'', y :: ys)

end Nx.Prudp.Ports
