import NxModel.Crypto.Crc16
/-!
# The calibration-data checksum: the library's nibble-table routine IS the bit-serial CRC-16/ARC, for every input

`nintendo.switch.crc16` processes each byte as two 4-bit steps through a 16-entry table, xoring the table entries of the
register's low nibble and of the data nibble separately. The textbook definition (`refCrc16Arc`: reflected polynomial
0xA001, one bit at a time) is written independently in `NxModel/Crypto/Crc16.lean`. They agree on every byte string and
every start value: the bit step is GF(2)-linear, the table holds the four-step images of the 16 nibbles, and four steps of
`x = (x >>> 4 <<< 4) ^^^ (x &&& 15)` are `(x >>> 4) ^^^ table[x &&& 15]`.
-/
namespace Nx.Crypto
open Nx

theorem refBit_eq (h : Nat) : refBit h = (h >>> 1) ^^^ (if h.testBit 0 then 0xA001 else 0) := by
  unfold refBit
  rw [Nat.testBit_zero, Nat.shiftRight_eq_div_pow]
  by_cases hh : h % 2 = 1
  · simp [hh]
  · simp [hh]

theorem refBit_xor (a b : Nat) : refBit (a ^^^ b) = refBit a ^^^ refBit b := by
  simp only [refBit_eq, Nat.shiftRight_xor_distrib, Nat.testBit_xor]
  cases a.testBit 0 <;> cases b.testBit 0 <;> simp only [Bool.xor_false, Bool.xor_true, Bool.not_false, Bool.not_true,
    Bool.false_eq_true, if_false, if_true, Nat.xor_zero]
  · ac_rfl
  · ac_rfl
  · generalize (a >>> 1) = x; generalize (b >>> 1) = y
    calc x ^^^ y = (x ^^^ y) ^^^ (40961 ^^^ 40961) := by rw [Nat.xor_self, Nat.xor_zero]
      _ = _ := by ac_rfl

/-- four bit steps -/
def refBit4 (h : Nat) : Nat := refBit (refBit (refBit (refBit h)))

theorem refBit4_xor (a b : Nat) : refBit4 (a ^^^ b) = refBit4 a ^^^ refBit4 b := by
  simp only [refBit4, refBit_xor]

theorem refBit_double (z : Nat) : refBit (2 * z) = z := by
  unfold refBit
  have : 2 * z % 2 ≠ 1 := by omega
  simp [this]

theorem refBit4_shl4 (y : Nat) : refBit4 (y <<< 4) = y := by
  have : y <<< 4 = 2 * (2 * (2 * (2 * y))) := by rw [Nat.shiftLeft_eq]; omega
  rw [this]; simp only [refBit4, refBit_double]

/-- a number is its high part and its low nibble, disjointly -/
theorem split_nibble (h : Nat) : (h >>> 4 <<< 4) ^^^ (h &&& 15) = h := by
  apply Nat.eq_of_testBit_eq
  intro i
  have h15 : (15 : Nat) = 2 ^ 4 - 1 := by decide
  rw [Nat.testBit_xor, Nat.testBit_shiftLeft, Nat.testBit_shiftRight, Nat.testBit_and, h15, Nat.testBit_two_pow_sub_one]
  by_cases hi : i < 4
  · have : ¬ i ≥ 4 := by omega
    simp [hi, this]
  · have hge : i ≥ 4 := by omega
    have he : 4 + (i - 4) = i := by omega
    simp [hi, hge, he]

/-- the table holds the four-step images of the sixteen nibbles -/
theorem prodTable_eq : ∀ x < 16, prodTable[x]! = refBit4 x := by decide +kernel

theorem refBit4_split (h : Nat) : refBit4 h = (h >>> 4) ^^^ prodTable[h &&& 15]! := by
  have hlt : h &&& 15 < 16 := Nat.lt_of_le_of_lt Nat.and_le_right (by decide)
  conv => lhs; rw [← split_nibble h]
  rw [refBit4_xor, refBit4_shl4, prodTable_eq _ hlt]

/-- one nibble step of the library's routine is four bit steps on `register xor nibble` -/
theorem nibble_step (h n : Nat) (hn : n < 16) :
    (h >>> 4) ^^^ prodTable[h &&& 0xF]! ^^^ prodTable[n]! = refBit4 (h ^^^ n) := by
  rw [refBit4_xor, refBit4_split h, prodTable_eq n hn]

theorem byte_split (b : UInt8) : ((b.toNat >>> 4) <<< 4) ^^^ (b.toNat &&& 0xF) = b.toNat := split_nibble b.toNat

/-- **one byte**: the two table steps are eight bit steps on `register xor byte` -/
theorem prodStep_eq_refByte (h : Nat) (b : UInt8) : prodStep h b = refByte h b := by
  have hlo : b.toNat &&& 0xF < 16 := Nat.lt_of_le_of_lt Nat.and_le_right (by decide)
  have hhi : b.toNat >>> 4 < 16 := by
    rw [Nat.shiftRight_eq_div_pow]
    have := b.toNat_lt
    omega
  unfold prodStep refByte
  simp only []
  rw [nibble_step h _ hlo, nibble_step _ _ hhi]
  have hb : h ^^^ b.toNat = (h ^^^ (b.toNat &&& 0xF)) ^^^ ((b.toNat >>> 4) <<< 4) := by
    conv => lhs; rw [← byte_split b]
    ac_rfl
  rw [hb]
  show refBit4 (refBit4 (h ^^^ (b.toNat &&& 0xF)) ^^^ (b.toNat >>> 4)) = refBit4 (refBit4 ((h ^^^ (b.toNat &&& 0xF)) ^^^ ((b.toNat >>> 4) <<< 4)))
  rw [refBit4_xor (h ^^^ (b.toNat &&& 0xF)), refBit4_shl4]

theorem foldl_prodStep_eq (d : Bytes) : ∀ h, d.foldl prodStep h = d.foldl refByte h := by
  induction d with
  | nil => intro h; rfl
  | cons b r ih => intro h; simp only [List.foldl_cons, prodStep_eq_refByte, ih]

/-- **`nintendo.switch.crc16` is the bit-serial CRC-16/ARC with start value 0x55AA, on every input** -/
theorem prodCrc16_eq_ref (d : Bytes) : prodCrc16 d = refCrc16Arc 0x55AA d := foldl_prodStep_eq d _

end Nx.Crypto
