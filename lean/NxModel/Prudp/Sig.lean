import NxModel.Prudp.Select
import NxModel.Crypto.Md5
/-!
# PRUDP signatures — the verif-side reference for C08 (checksums are in `V0.lean`)

Written from the protocol description (kinnay wiki "PRUDP Protocol": v0 / v1 / lite signature sections) and kept
fixed: a later change applied symmetrically to sender and receiver in prudp.py no longer matches it.

* v0 data signature      : first 4 bytes of HMAC-MD5(key = MD5(access key), [session key ‖ u16 seq ‖ u8 frag ‖] payload)
                           (bracketed part only with signature_version 0); `78 56 34 12` when that input is empty
* v0 packet signature    : DATA (and DISCONNECT with signature_version 0) → data signature;
                           otherwise the connection signature if there is one, else four zero bytes
* v0 connection signature: first 4 bytes of MD5(ip ‖ u16be port), reversed
* v1 packet signature    : HMAC-MD5(key = MD5(access key), header[4:] ‖ session key ‖ u32le(sum(access key)) ‖
                           connection signature ‖ options ‖ payload)
* v1/lite connection sig.: HMAC-MD5(key = 26c31f381e46d6eb38e1af6ab70d11, ip ‖ u16be port)
* lite packet signature  : CONNECT with NEED_ACK → HMAC-MD5(k, k ‖ connection signature), k = MD5(access key); else none
-/
namespace Nx.Prudp
open Nx Nx.Crypto

/-- `socket.inet_aton(ip) + struct.pack(">H", port)` for a dotted-quad address given as 4 bytes -/
def addrBytes (ip : Bytes) (port : Nat) : Bytes := ip ++ u16be port

def v0DataSignature (c : V0Cfg) (p : Packet) (sessionKey : Bytes) : Bytes :=
  let data := if c.signatureVersion = 0 then sessionKey ++ u16le p.packetId ++ u8 p.fragmentId ++ p.payload
              else p.payload
  if data.isEmpty then [0x78, 0x56, 0x34, 0x12]
  else (hmacMd5 (md5 c.accessKey) data).take 4

/-- `connSig` = the `connection_signature` argument (`None` and `b""` are both falsy → `[]`) -/
def v0PacketSignature (c : V0Cfg) (p : Packet) (sessionKey connSig : Bytes) : Bytes :=
  if p.type = TYPE_DATA then v0DataSignature c p sessionKey
  else if p.type = TYPE_DISCONNECT ∧ c.signatureVersion = 0 then v0DataSignature c p sessionKey
  else if !connSig.isEmpty then connSig
  else [0, 0, 0, 0]

def v0ConnectionSignature (ip : Bytes) (port : Nat) : Bytes :=
  ((md5 (addrBytes ip port)).take 4).reverse

def v1SigKey : Bytes :=
  [0x26, 0xc3, 0x1f, 0x38, 0x1e, 0x46, 0xd6, 0xeb, 0x38, 0xe1, 0xaf, 0x6a, 0xb7, 0x0d, 0x11]

def v1PacketSignature (accessKey : Bytes) (p : Packet) (sessionKey connSig : Bytes) : Bytes :=
  let options := v1EncodeOptions p
  let header := v1EncodeHeader p options.length
  hmacMd5 (md5 accessKey)
    (header.drop 4 ++ sessionKey ++ u32le (sumBytes accessKey) ++ connSig ++ options ++ p.payload)

def v1ConnectionSignature (ip : Bytes) (port : Nat) : Bytes := hmacMd5 v1SigKey (addrBytes ip port)

def litePacketSignature (accessKey : Bytes) (p : Packet) (connSig : Bytes) : Option Bytes :=
  if p.type = TYPE_CONNECT ∧ hasNeedAck p.flags = true then
    let key := md5 accessKey
    some (hmacMd5 key (key ++ connSig))
  else none

def liteConnectionSignature (ip : Bytes) (port : Nat) : Bytes := hmacMd5 v1SigKey (addrBytes ip port)

/-- what `PRUDPClient`/server do before sending: compute the signature over the packet, store it, encode -/
def v0Emit (c : V0Cfg) (p : Packet) (sessionKey connSig : Bytes) : Bytes :=
  v0Encode c { p with signature := some (v0PacketSignature c p sessionKey connSig) }

def v1Emit (accessKey : Bytes) (p : Packet) (sessionKey connSig : Bytes) : Bytes :=
  v1Encode { p with signature := some (v1PacketSignature accessKey p sessionKey connSig) }

def liteEmit (accessKey : Bytes) (p : Packet) (connSig : Bytes) : Bytes :=
  liteEncode { p with signature := litePacketSignature accessKey p connSig }

end Nx.Prudp
