import NxModel.Nex.StationURL
import NxProofs.NexErrors
import NxProofs.NexStreams
/-! StationURL: `parse (repr u) = strVals u` for well-formed URLs -/
namespace Nx.Nex.StationURL
open Nx Nx.Nex

theorem splitChar_noSep (c : Char) (l : Str) (h : c ∉ l) : splitChar c l = [l] := by
  induction l with
  | nil => rfl
  | cons x r ih =>
    simp only [List.mem_cons, not_or] at h
    have hx : ¬ x = c := fun e => h.1 e.symm
    simp [splitChar, hx, ih h.2]

theorem splitChar_append (c : Char) (l r : Str) (h : c ∉ l) : splitChar c (l ++ c :: r) = l :: splitChar c r := by
  induction l with
  | nil => simp [splitChar]
  | cons x l ih =>
    simp only [List.mem_cons, not_or] at h
    have hx : ¬ x = c := fun e => h.1 e.symm
    simp [splitChar, hx, ih h.2]

theorem mem_joinWith (sep : Str) (xs : List Str) (a : Char) (h : a ∈ joinWith sep xs) : a ∈ sep ∨ ∃ y ∈ xs, a ∈ y := by
  induction xs with
  | nil => simp [joinWith] at h
  | cons x r ih =>
    cases r with
    | nil => simp only [joinWith] at h; exact Or.inr ⟨x, by simp, h⟩
    | cons y r' =>
      simp only [joinWith, List.mem_append] at h
      rcases h with (h | h) | h
      · exact Or.inr ⟨x, by simp, h⟩
      · exact Or.inl h
      · rcases ih h with h | ⟨z, hz, hz2⟩
        · exact Or.inl h
        · exact Or.inr ⟨z, by simp [hz], hz2⟩

theorem splitChar_join (c : Char) (xs : List Str) (hne : xs ≠ []) (h : ∀ x ∈ xs, c ∉ x) :
    splitChar c (joinWith [c] xs) = xs := by
  induction xs with
  | nil => exact absurd rfl hne
  | cons x r ih =>
    cases r with
    | nil => simp only [joinWith]; exact splitChar_noSep c x (h x (by simp))
    | cons y r' =>
      simp only [joinWith, List.append_assoc, List.singleton_append]
      rw [splitChar_append c x _ (h x (by simp))]
      rw [ih (by simp) (fun z hz => h z (by simp [hz]))]

theorem splitCS_noColon (l : Str) (h : ':' ∉ l) : splitColonSlash l = [l] := by
  induction l with
  | nil => rfl
  | cons x r ih =>
    simp only [List.mem_cons, not_or] at h
    have hx : ¬ x = ':' := fun e => h.1 e.symm
    cases r with
    | nil => rfl
    | cons y r' =>
      have := ih h.2
      simp [splitColonSlash, hx, this]

theorem splitCS_append (l r : Str) (h : ':' ∉ l) :
    splitColonSlash (l ++ ':' :: '/' :: r) = l :: splitColonSlash r := by
  induction l with
  | nil => simp [splitColonSlash]
  | cons x l ih =>
    simp only [List.mem_cons, not_or] at h
    have hx : ¬ x = ':' := fun e => h.1 e.symm
    have := ih h.2
    cases l with
    | nil => simp [splitColonSlash, hx] at this ⊢
    | cons y l' =>
      simp only [List.cons_append] at this ⊢
      simp [splitColonSlash, hx, this]

/-- none of the separator characters -/
def Clean (s : Str) : Prop := ';' ∉ s ∧ '=' ∉ s ∧ ':' ∉ s ∧ '/' ∉ s

instance (s : Str) : Decidable (Clean s) := by unfold Clean; exact inferInstance

/-- the domain of the round trip: a non-empty scheme without `:`, parameter names and rendered values free of
`; = : /`, distinct names, no name that collides with a constructor argument -/
structure WF (u : URL) : Prop where
  scheme_ne : u.scheme ≠ []
  scheme_clean : ':' ∉ u.scheme
  params_clean : ∀ p ∈ u.params, Clean p.1 ∧ Clean p.2.render
  keys_nodup : (u.params.map (·.1)).Nodup
  keys_ok : ∀ p ∈ u.params, p.1 ≠ "scheme".toList ∧ p.1 ≠ "self".toList

theorem parseFields_render (ps : List (Str × PVal)) (acc : List (Str × PVal))
    (hc : ∀ p ∈ ps, Clean p.1 ∧ Clean p.2.render) (hnd : (ps.map (·.1)).Nodup)
    (hdis : ∀ p ∈ ps, p.1 ∉ acc.map (·.1)) :
    parseFields (ps.map renderParam) acc = .ok (acc ++ ps.map fun p => (p.1, PVal.s p.2.render)) := by
  induction ps generalizing acc with
  | nil => simp [parseFields]
  | cons p r ih =>
    obtain ⟨k, v⟩ := p
    have hcl := hc (k, v) (by simp)
    simp only [List.map_cons, List.nodup_cons] at hnd
    have hsplit : splitChar '=' (renderParam (k, v)) = [k, v.render] := by
      unfold renderParam
      rw [splitChar_append '=' k _ hcl.1.2.1, splitChar_noSep '=' _ hcl.2.2.1]
    simp only [List.map_cons, parseFields, hsplit]
    rw [dictInsert_of_notMem k (PVal.s v.render) acc (hdis (k, v) (by simp))]
    rw [ih _ (fun p hp => hc p (by simp [hp])) hnd.2]
    · simp
    · intro p hp
      simp only [List.map_append, List.map_cons, List.map_nil, List.mem_append, List.mem_singleton, not_or]
      refine ⟨hdis p (by simp [hp]), ?_⟩
      intro heq
      exact hnd.1 (heq ▸ List.mem_map_of_mem (f := (·.1)) hp)

theorem renderParam_noColon (p : Str × PVal) (h : Clean p.1 ∧ Clean p.2.render) (c : Char) (hc : c = ':' ∨ c = ';') :
    c ∉ renderParam p := by
  unfold renderParam
  simp only [List.mem_append, List.mem_cons, not_or]
  rcases hc with rfl | rfl
  · exact ⟨h.1.2.2.1, by decide, h.2.2.2.1⟩
  · exact ⟨h.1.1, by decide, h.2.1⟩

/-- `parse (repr u)` gives back the scheme and the parameters (values as the strings `repr` printed), in order -/
theorem parse_repr (u : URL) (h : WF u) : parse (some (repr u)) = .ok (strVals u) := by
  obtain ⟨scheme, params⟩ := u
  obtain ⟨hne, hsc, hcl, hnd, hok⟩ := h
  simp only at hne hsc hcl hnd hok
  have hempty : scheme.isEmpty = false := by
    cases scheme with
    | nil => exact absurd rfl hne
    | cons _ _ => rfl
  have hcolon : ':' ∉ joinWith [';'] (params.map renderParam) := by
    intro hm
    rcases mem_joinWith _ _ _ hm with h1 | ⟨y, hy, hy2⟩
    · simp at h1
    · obtain ⟨p, hp, rfl⟩ := List.mem_map.mp hy
      exact renderParam_noColon p (hcl p hp) ':' (Or.inl rfl) hy2
  have hrepr : repr ⟨scheme, params⟩ = scheme ++ ':' :: '/' :: joinWith [';'] (params.map renderParam) := by
    simp [repr, hempty]
  have hne2 : scheme ++ ':' :: '/' :: joinWith [';'] (params.map renderParam) ≠ [] := by simp
  rw [hrepr]
  have hsplit := splitCS_append scheme (joinWith [';'] (params.map renderParam)) hsc
  rw [splitCS_noColon _ hcolon] at hsplit
  unfold parse
  split
  · rename_i heq; cases heq
  · rename_i heq; simp only [Option.some.injEq] at heq; exact absurd heq hne2
  · rename_i str hn1 hn2 heq
    simp only [Option.some.injEq] at heq
    subst heq
    rw [hsplit]
    simp only []
    cases params with
    | nil =>
      simp [joinWith, strVals, bind, Except.bind, pure, Except.pure]
    | cons p r =>
      have hfne : (joinWith [';'] ((p :: r).map renderParam)).isEmpty = false := by
        cases r with
        | nil => simp [joinWith, renderParam]
        | cons q r' => simp [joinWith, renderParam]
      have hsemi : splitChar ';' (joinWith [';'] ((p :: r).map renderParam)) = (p :: r).map renderParam := by
        apply splitChar_join
        · simp
        · intro x hx
          obtain ⟨q, hq, rfl⟩ := List.mem_map.mp hx
          exact renderParam_noColon q (hcl q hq) ';' (Or.inr rfl)
      have hpf := parseFields_render (p :: r) [] hcl hnd (by simp)
      simp only [hfne, Bool.false_eq_true, if_false, hsemi, hpf, bind, Except.bind, List.nil_append, pure, Except.pure]
      have hany : (List.map (fun p => (p.1, PVal.s p.2.render)) (p :: r)).any
          (fun p => decide (p.1 = "scheme".toList ∨ p.1 = "self".toList)) = false := by
        rw [List.any_eq_false]
        intro q hq
        obtain ⟨q', hq', rfl⟩ := List.mem_map.mp hq
        simp only [decide_eq_true_eq, not_or]
        exact hok q' hq'
      simp only [hany, Bool.false_eq_true, if_false]
      rfl

/-- a URL whose values are all strings (what `parse` produces) is returned unchanged -/
theorem strVals_of_str (u : URL) (h : ∀ p ∈ u.params, ∃ s, p.2 = PVal.s s) : strVals u = u := by
  obtain ⟨scheme, params⟩ := u
  simp only [strVals, URL.mk.injEq, true_and]
  simp only at h
  induction params with
  | nil => rfl
  | cons p r ih =>
    obtain ⟨s, hs⟩ := h p (by simp)
    obtain ⟨k, v⟩ := p
    simp only at hs
    subst hs
    simp only [List.map_cons, PVal.render, List.cons.injEq, true_and]
    exact ih (fun q hq => h q (by simp [hq]))

/-- through the stream: `stationurl` written then read, exact consumption -/
theorem rStationURL_wStationURL (u : URL) (h : WF u) {b : Bytes} (hw : wStationURL u = .ok b) (rest : Bytes) :
    rStationURL (b ++ rest) = .ok (strVals u, rest) := by
  unfold wStationURL at hw
  have h1 := rString_wString hw rest
  unfold rStationURL
  simp only [h1, bind, Except.bind, Option.map_some, String.toList_ofList, parse_repr u h, pure, Except.pure]

end Nx.Nex.StationURL
