"""C05 — admission over the LIFE of an endpoint's table entry at one keyed server (virtual time, real client and real server).

One scenario = one server process serving one keyed port, and a history of one endpoint (address, PRUDP port, stream type):

  phase 1  a real client with a valid fresh ticket (issued at virtual time 0) connects, exchanges a message; its CONNECT datagram is
           recorded from the wire. The connection then ends in one of the ways a connection ends:
             peer-disconnect   the client disconnects gracefully
             timeout           the link goes dark, both sides give up after their keep-alive / resend limits
             close             the server application calls close() on the connection
             handler-returns   the server application's handler returns (the server disconnects)
             still-alive       it does not end (keep-alive flows) — control
           and the server application's handler of that connection stays BUSY for `linger` seconds after it saw the end
           (0 = returns at once; long = still running when phase 2 happens).
  phase 2  at virtual time `at` the same endpoint presents a connection request:
             replay    the byte-identical CONNECT datagram of phase 1 (optionally preceded by the SYN, optionally twice), the
                       ticket is `at` seconds old: 10 s .. days, both sides of 120 s
             fresh     a real client (same address, same PRUDP port) with a NEW valid ticket of the same or of another user
             stale     a real client whose (otherwise valid) ticket is older than 120 s
           after a replay the harness — which, unlike an eavesdropper, knows the session key — sends one DATA packet keyed with the
           ticket's session key exactly as the original client would (packet 2 of substream 0).
  phase 3  (when the handler's busy time is over) a real client with a new valid ticket connects: it must be admitted.

Oracle (on the real code, nothing white-box decides a verdict except the read of the connection's user id / session key inside the
application handler, which is what an application sees):
  * a request whose ticket is older than 120 s creates no connection: no handler invocation, no new entry in the server's table, no
    CONNECT acknowledgement (a real client's handshake fails);
  * WHATEVER connection a request creates: its handler observes exactly the user id of the ticket it carried (never None, never the
    previous user's) and the ticket's session key, at most one handler per request, and traffic keyed with the ticket's session key
    flows (the real client's message / the harness's keyed DATA packet is echoed back correctly);
  * a still-alive connection keeps its identity and stays usable; no second handler;
  * after the busy handler has returned, a holder of a valid fresh ticket is admitted and observed as the ticket's user.
Whether a valid request is turned down while the previous handler is busy is NOT judged (the property says 'only if')."""
import os, random, time, traceback
import anyio
import prudp_session as ps
from sim import Sim, Deadlock, quant
from nintendo.nex import prudp, kerberos, common, streams as streams_nex

SERVER = ps.SERVER
SERVER_KEY = b"server key"
ENCODINGS = {"v1": ("udp", 1), "v0": ("udp", 0), "lite": ("lite", 1)}


def make_ticket(s, sk, pid, issued, server_key=SERVER_KEY):
    t = kerberos.ServerTicket()
    t.timestamp = common.DateTime.fromtimestamp(issued)
    t.source = pid
    t.session_key = sk
    ct = kerberos.ClientTicket()
    ct.session_key = sk
    ct.target = 1001
    ct.internal = t.encrypt(server_key, s)
    return kerberos.Credentials(ct, pid, 2000)


def decode(s, data):
    try:
        return prudp.PRUDPMessageSelector(s).decode(data)
    except Exception:
        return []


def run_case(spec):
    """spec: dict(enc, pid_size, key_size, ticket_version, tz, end, linger, second=dict(kind, at, user, with_syn, times, age), seed)
    -> (bad: list of str, facts: dict)"""
    os.environ["TZ"] = spec.get("tz", "UTC0"); time.tzset()
    transport, version = ENCODINGS[spec["enc"]]
    cfg = ps.Cfg(transport=transport, version=version, credentials=True, pid_size=spec.get("pid_size", 4), key_size=spec.get("key_size", 32),
                 ticket_version=spec.get("ticket_version", 0), fragment_size=50, resend_timeout=0.5, resend_limit=2, ping_timeout=1.0)
    bound = cfg.ping_timeout + (cfg.resend_limit + 1) * cfg.resend_timeout
    end, linger, second = spec["end"], spec.get("linger", 0), spec["second"]
    rng = random.Random(spec.get("seed", 0))
    lite = transport == "lite"
    bad, facts = [], {}
    with Sim(spec.get("seed", 0) & 0xFFFF) as sim:
        s = cfg.settings()
        sim.install_factories(fixed_client_addr=True)
        sim.net.fate = lambda tx: [0.01]
        top = 2 ** (8 * cfg.pid_size) - 1
        pid_a = spec.get("pid", rng.choice([1000, 1, top, 0x12345678]))
        pid_b = (pid_a ^ 0x5A5A) or 7
        sk_a, sk_b, sk_c = (rng.randbytes(cfg.key_size) for _ in range(3))
        creds_a = make_ticket(s, sk_a, pid_a, sim.epoch)
        log = sim.net.log
        inv = []                 # one record per handler invocation
        signal = {"close": anyio.Event(), "return": anyio.Event()}
        ref = {}

        async def handler(client):
            idx = len(inv)
            rec = {"t": sim.now(), "pid": client.pid(), "key": getattr(client, "session_key", None), "echoed": 0, "ended": None, "returned": None}
            inv.append(rec)
            try:
                async with anyio.create_task_group() as tg:
                    async def on_signal():
                        if idx == 0 and end == "close":
                            await signal["close"].wait()
                            await client.close()
                        if idx == 0 and end == "handler-returns":
                            await signal["return"].wait()
                            tg.cancel_scope.cancel()
                    tg.start_soon(on_signal)
                    try:
                        while True:
                            d = await client.recv()
                            await client.send(b"echo:" + d)
                            rec["echoed"] += 1
                    except anyio.EndOfStream:
                        pass
                    tg.cancel_scope.cancel()
            except Exception as e:
                rec["error"] = repr(e)
            rec["ended"] = sim.now()
            rec["pid_end"] = client.pid()
            if idx == 0 and linger:
                # the application is busy with the user's state after it saw the end of the connection
                await anyio.sleep(quant(linger))
            rec["returned"] = sim.now()

        def table():
            return len(ref["stream"].clients)

        def dark(on):
            if on:
                sim.net.fate = lambda tx: []
                sim.net.stream_fate = lambda src, dst, n, chunk: "drop"
            else:
                sim.net.fate = lambda tx: [0.01]
                sim.net.stream_fate = None

        def connect_acks_since(pos):
            n = 0
            for e in log[pos:]:
                data = e[5] if e[0] == "tx" and e[3] == SERVER else e[4] if e[0] == "stx" and e[2] == SERVER else None
                if data is not None:
                    n += sum(1 for p in decode(s, data) if p.type == 1 and p.flags & 1)
            return n

        async def talk(client, msg):
            """-> 'ok' | description of what went wrong"""
            try:
                await client.send(msg)
                with anyio.fail_after(quant(bound + 5)):
                    d = await client.recv()
                return "ok" if d == b"echo:" + msg else "wrong-echo:%r" % d[:24]
            except anyio.EndOfStream:
                return "no-echo (connection ended)"
            except TimeoutError:
                return "no-echo (nothing arrived)"
            except anyio.ClosedResourceError:
                return "closed"
            except Exception as e:
                return "error:" + repr(e)[:60]

        async def real_connect(creds, msg):
            """a real client from the same address (the transport allocates the same PRUDP port again) -> (handshake completed, talk outcome)"""
            done = False
            try:
                async with prudp.connect(s, SERVER[0], SERVER[1], credentials=creds) as c:
                    done = True
                    out = await talk(c, msg)
                    await anyio.sleep(quant(0.25))
                return True, out
            except BaseException as e:
                if isinstance(e, (KeyboardInterrupt, SystemExit)): raise
                return done, "failed:" + repr(e)[:60]

        async def judge_new(before, pos, ticket_pid, ticket_key, ticket_age, what, completed=None, outcome=None):
            new = inv[before:]
            facts.setdefault("new", []).append(len(new))
            acks = connect_acks_since(pos)
            if ticket_age > 120.5:
                if new:
                    bad.append("%s: the ticket is %g s old (older than 120 s), yet the server created a connection and invoked the handler, which observed user id %r"
                               % (what, ticket_age, [r["pid"] for r in new]))
                if acks:
                    bad.append("%s: the ticket is %g s old (older than 120 s), yet the server acknowledged the CONNECT (%d CONNECT ACK)" % (what, ticket_age, acks))
                if completed:
                    bad.append("%s: the ticket is %g s old (older than 120 s), yet the client's handshake completed" % (what, ticket_age))
            if len(new) > 1:
                bad.append("%s: one connection request, %d handler invocations" % (what, len(new)))
            for r in new:
                if r["pid"] != ticket_pid:
                    bad.append("%s: the handler of the connection it created observes user id %r, the ticket was issued to %r" % (what, r["pid"], ticket_pid))
                if r.get("pid_end", r["pid"]) != r["pid"]:
                    bad.append("%s: the handler's connection changed its user id from %r to %r" % (what, r["pid"], r["pid_end"]))
                if r["key"] is not None and r["key"] != ticket_key:
                    bad.append("%s: the connection it created is keyed with %s, the ticket's session key is %s" % (what, r["key"].hex() or "the empty key", ticket_key.hex()))
            return new

        async def main():
            async with prudp.serve_transport(s, SERVER[0], SERVER[1]) as tr:
                async with tr.serve(handler, 1, 10, SERVER_KEY):
                    ref["stream"] = tr.ports.get(1, 10)
                    state = {}

                    async def phase2():
                        await anyio.sleep(max(0.0, quant(second["at"] - sim.now())))
                        facts["first_handler_busy_at_phase2"] = bool(inv) and inv[0]["returned"] is None
                        facts["table_before"] = tb = table()
                        before, pos = len(inv), len(log)
                        kind = second["kind"]
                        if kind == "replay":
                            age = sim.now()           # the ticket was issued at virtual time 0
                            what = "the byte-identical CONNECT of the %s connection (ended by %s) delivered again from the same endpoint %.1f s after the ticket was issued%s" % (
                                "earlier" if end != "still-alive" else "established", end, age, ", previous handler still busy" if facts["first_handler_busy_at_phase2"] else "")
                            sock = own = None
                            if lite and end == "still-alive":
                                sock = state["c1sock"]          # a stream transport: the replay can only travel over the open stream
                            elif lite:
                                a, b = sim.net.stream_pair(state["caddr"], SERVER)
                                sim.stream_listeners[SERVER](b)
                                sock = own = a
                                await anyio.sleep(0)
                            async def put(data, delay=0.0):
                                if lite:
                                    if delay: await anyio.sleep(quant(delay))
                                    await sock.send(data)
                                else:
                                    sim.net.inject(state["caddr"], SERVER, data, delay)
                            for k in range(second.get("times", 1)):
                                if second.get("with_syn") and state.get("syn"):
                                    await put(state["syn"])
                                await put(state["connect"], 0.02)
                                await anyio.sleep(quant(0.3))
                            # one DATA packet keyed with the ticket's session key, as the original client would send it (packet 2, substream 0)
                            cp = state["connect_pkt"]
                            enc = prudp.PRUDPMessageSelector(s).select(cp.version)
                            pe = prudp.PayloadEncoder(s); pe.set_session_key(sk_a)
                            p = prudp.PRUDPPacket(prudp.TYPE_DATA, prudp.FLAG_RELIABLE | prudp.FLAG_NEED_ACK | prudp.FLAG_HAS_SIZE)
                            p.version, p.source_port, p.source_type, p.dest_port, p.dest_type = cp.version, cp.source_port, cp.source_type, cp.dest_port, cp.dest_type
                            p.session_id, p.packet_id, p.fragment_id, p.substream_id = cp.session_id, 2, 0, 0
                            p.payload = b"probe"
                            p.payload = pe.encode(p)
                            p.signature = enc.calc_packet_signature(p, sk_a, state["remote_signature"])
                            ppos = len(log)
                            if end != "still-alive":
                                await put(enc.encode(p))
                            await anyio.sleep(quant(0.5))
                            echo = None
                            pd = prudp.PayloadEncoder(s); pd.set_session_key(sk_a)
                            for e in log[ppos:]:
                                data = e[5] if e[0] == "tx" and e[3] == SERVER else e[4] if e[0] == "stx" and e[2] == SERVER else None
                                if data is None: continue
                                for q in decode(s, data):
                                    if q.type == prudp.TYPE_DATA and not q.flags & prudp.FLAG_ACK and q.flags & prudp.FLAG_RELIABLE and echo is None:
                                        try:
                                            echo = pd.decode(q)
                                        except Exception as ex:
                                            echo = b"<undecodable: %s>" % repr(ex)[:40].encode()
                            new = await judge_new(before, pos, pid_a, sk_a, age, what)
                            facts["replay_created"] = len(new)
                            facts["probe_echo"] = None if echo is None else echo[:16].decode("latin1")
                            if new and age <= 120.5 and end != "still-alive" and echo != b"echo:probe":
                                bad.append("%s: a connection was created, but a DATA packet keyed with the ticket's session key (signature and stream cipher, as the ticket's holder sends it) "
                                           "was %s" % (what, "not answered" if echo is None else "answered with %r instead of the echo" % echo[:24]))
                            if end == "still-alive":
                                if new:
                                    bad.append("%s: a second handler was started for an established connection" % what)
                            tnew = table() - tb
                            if age > 120.5 and tnew > 0:
                                bad.append("%s: the ticket is older than 120 s, yet the server's client table grew by %d" % (what, tnew))
                            if own is not None:
                                await anyio.sleep(quant(bound + 1))
                                await own.close()
                        else:
                            user_b = second.get("user") == "other"
                            pid2, sk2 = (pid_b, sk_b) if user_b else (pid_a, sk_c)
                            age = second.get("age", 0 if kind == "fresh" else 300)
                            creds2 = make_ticket(s, sk2, pid2, sim.epoch + int(sim.now()) - age)
                            real_age = sim.now() - (int(sim.now()) - age)
                            what = "a CONNECT with a %s ticket (%g s old) of %s from the same endpoint %.1f s after its previous connection ended by %s%s" % (
                                "valid, fresh" if kind == "fresh" else "stale", real_age, "another user" if user_b else "the same user", sim.now() - state.get("ended_at", 0), end,
                                ", while that connection's handler is still busy" if facts["first_handler_busy_at_phase2"] else "")
                            completed, outcome = await real_connect(creds2, b"again")
                            new = await judge_new(before, pos, pid2, sk2, real_age, what, completed, outcome)
                            facts["second_created"], facts["second_completed"], facts["second_outcome"] = len(new), completed, outcome
                            if new and completed and outcome != "ok" and real_age <= 119:
                                bad.append("%s: a connection was created and the client's handshake completed, but the traffic is not keyed with the ticket's session key: "
                                           "the client's message was not echoed (%s)" % (what, outcome))
                            if real_age <= 119 and not facts["first_handler_busy_at_phase2"] and end != "still-alive" and not (new and completed and outcome == "ok"):
                                bad.append("%s: a holder of a valid fresh ticket was not admitted (handler invocations %d, handshake %s, message %s)" % (what, len(new), completed, outcome))
                            if real_age > 120.5 and table() > tb:
                                bad.append("%s: the server's client table grew" % what)

                    # ---- phase 1
                    try:
                        async with prudp.connect(s, SERVER[0], SERVER[1], credentials=creds_a) as c1:
                            state["remote_signature"] = c1.remote_signature
                            state["c1sock"] = c1.transport.socket
                            first = await talk(c1, b"hello")
                            for e in log:
                                data, src, dst = (e[5], e[3], e[4]) if e[0] == "tx" else (e[4], e[2], e[3]) if e[0] == "stx" else (None, None, None)
                                if data is None or dst != SERVER: continue
                                for p in decode(s, data):
                                    if p.type == 0 and not p.flags & 1: state.setdefault("syn", data)
                                    if p.type == 1 and not p.flags & 1 and "connect" not in state:
                                        state["connect"], state["connect_pkt"], state["caddr"] = data, p, src
                            if first != "ok" or "connect" not in state or len(inv) != 1:
                                bad.append("phase 1: the honest session with a fresh valid ticket did not work (message: %s, handler invocations: %d, CONNECT seen: %s)"
                                           % (first, len(inv), "connect" in state))
                                return
                            if inv[0]["pid"] != pid_a:
                                bad.append("phase 1: the handler observed user id %r, the ticket was issued to %r" % (inv[0]["pid"], pid_a))
                            if end == "peer-disconnect":
                                await c1.disconnect()
                            elif end == "close":
                                signal["close"].set()
                                with anyio.move_on_after(quant(bound + 5)):
                                    try:
                                        await c1.recv()
                                    except anyio.EndOfStream:
                                        pass
                            elif end == "handler-returns":
                                signal["return"].set()
                                with anyio.move_on_after(quant(bound + 5)):
                                    try:
                                        await c1.recv()
                                    except anyio.EndOfStream:
                                        pass
                            elif end == "timeout":
                                dark(True)
                                await anyio.sleep(quant(2 * bound + 1))
                                dark(False)
                            elif end == "still-alive":
                                await phase2()
                                again = await talk(c1, b"still there")
                                if again != "ok":
                                    bad.append("the established connection is no longer usable after the replayed CONNECT: %s" % again)
                                if inv[0].get("pid_end", inv[0]["pid"]) != pid_a or (inv[0]["ended"] is None and False):
                                    bad.append("the established connection changed its user id")
                        state["ended_at"] = sim.now()
                    except BaseException as e:
                        if isinstance(e, (KeyboardInterrupt, SystemExit)): raise
                        bad.append("phase 1: the honest session raised %r" % (e,))
                        return
                    if end == "still-alive":
                        return
                    await anyio.sleep(quant(0.5))
                    if inv[0]["ended"] is None:
                        bad.append("phase 1: the server application never saw the end of the connection (%s)" % end)
                        return
                    if not linger and table() != 0:
                        bad.append("phase 1: the connection ended by %s and its handler returned, the server still holds %d table entries" % (end, table()))
                    await phase2()
                    # ---- phase 3: once the busy handler has returned, a valid fresh ticket is admitted
                    if linger and linger <= 1000:
                        await anyio.sleep(max(0.0, quant(inv[0]["ended"] + linger + bound + 3 - sim.now())))
                        before, pos = len(inv), len(log)
                        creds3 = make_ticket(s, sk_b, pid_b, sim.epoch + int(sim.now()))
                        completed, outcome = await real_connect(creds3, b"later")
                        what = "a CONNECT with a valid, fresh ticket from the same endpoint after the busy handler of its previous connection (ended by %s) has returned" % end
                        new = await judge_new(before, pos, pid_b, sk_b, 1.0, what, completed, outcome)
                        if not (len(new) == 1 and completed and outcome == "ok"):
                            bad.append("%s: not admitted (handler invocations %d, handshake %s, message %s)" % (what, len(new), completed, outcome))

        async def guarded():
            with anyio.move_on_after(second["at"] + (linger if linger <= 1000 else 0) + 40 * bound + 120) as scope:
                await main()
            facts["timed_out"] = scope.cancelled_caught

        try:
            sim.run(guarded())
        except Deadlock as e:
            bad.append("the scenario deadlocked: %s" % e)
        if facts.get("timed_out"):
            bad.append("the scenario did not finish in its (virtual) time")
        facts["invocations"] = [(round(r["t"], 3), r["pid"]) for r in inv]
    return bad, facts


def work(spec):
    try:
        bad, facts = run_case(spec)
        return spec, bad, facts, None
    except Exception:
        return spec, [], {}, traceback.format_exc()
    finally:
        os.environ["TZ"] = "UTC0"; time.tzset()


def cases(rng, quick):
    out = []
    encs = ("v1", "v0", "lite")
    def base(enc):
        return dict(enc=enc, pid_size=rng.choice([4, 8]), key_size=rng.choice([16, 32]), ticket_version=rng.choice([0, 1]),
                    tz=rng.choice(["UTC0", "JST-9", "EST5"]), seed=rng.getrandbits(32))
    ages_in, ages_out = [10, 60, 110, 118], [122, 125, 200, 3600, 86400, 3 * 86400 + 17]
    for rep in range(1 if quick else 4):
        jit = (lambda a: a) if rep == 0 else (lambda a: a + rng.choice([-1, 0, 1]) if a < 119 else a + rng.choice([0, 1, 7, 1000]))
        # R. the byte-identical CONNECT after the connection ended (handler returned at once), ticket ages on both sides of 120 s
        for enc in encs:
            for end in ("peer-disconnect", "timeout", "close", "handler-returns"):
                for at in ages_in + ages_out:
                    out.append(dict(base(enc), name="replay-after-end", end=end, linger=0,
                                    second=dict(kind="replay", at=jit(at), with_syn=rng.random() < 0.3, times=rng.choice([1, 1, 2]))))
        # R'. the same while the previous handler is still busy, and on an established connection
        for enc in encs:
            for end in ("peer-disconnect", "timeout", "close"):
                for at in [10, 110, 125, 3600, 86400]:
                    at = jit(at)
                    out.append(dict(base(enc), name="replay-handler-busy", end=end, linger=rng.choice([at + 50, 10 ** 6]),
                                    second=dict(kind="replay", at=at, with_syn=rng.random() < 0.3, times=rng.choice([1, 1, 2]))))
            for at in [10, 60, 110, 125, 180]:
                out.append(dict(base(enc), name="replay-still-alive", end="still-alive", linger=0, second=dict(kind="replay", at=jit(at), times=rng.choice([1, 2]))))
        # W. a real client with a new ticket while the previous handler is still busy (and, control, after it returned at once)
        for enc in encs:
            for end in ("peer-disconnect", "timeout", "close"):
                for user in ("same", "other"):
                    for at in (rng.choice([8, 20]), rng.choice([70, 150, 1000])):
                        linger = rng.choice([at + 30, at + 300, 10 ** 6])
                        out.append(dict(base(enc), name="fresh-ticket-handler-busy", end=end, linger=linger,
                                        second=dict(kind="fresh", at=at, user=user, age=rng.choice([0, 0, 30, 100, 117]))))
                for at in (rng.choice([8, 70]), 400):
                    out.append(dict(base(enc), name="stale-ticket-handler-busy", end=end, linger=rng.choice([at + 30, 10 ** 6]),
                                    second=dict(kind="stale", at=at, user=rng.choice(["same", "other"]), age=rng.choice([122, 130, 600, 86400]))))
            for end in ("peer-disconnect", "timeout", "close", "handler-returns"):
                out.append(dict(base(enc), name="fresh-ticket-after-end", end=end, linger=0,
                                second=dict(kind="fresh", at=rng.choice([8, 150]), user=rng.choice(["same", "other"]), age=rng.choice([0, 60, 117]))))
                out.append(dict(base(enc), name="stale-ticket-after-end", end=end, linger=0,
                                second=dict(kind="stale", at=rng.choice([8, 150]), user=rng.choice(["same", "other"]), age=rng.choice([122, 600]))))
    return out


if __name__ == "__main__":
    import sys, json
    rng = random.Random(int(sys.argv[1]) if len(sys.argv) > 1 else 0)
    cs = cases(rng, True)
    t0 = time.time()
    for c in cs:
        spec, bad, facts, err = work(c)
        print(c["name"], c["enc"], c["end"], c["linger"], c["second"], "->", facts, "BAD" if bad else "", bad[:2], err or "")
    print(len(cs), "cases", time.time() - t0, "s")
