"""C01 — slow links: keep-alive PINGs falling BETWEEN the fragments of one multi-fragment message.

A PING is a reliable packet numbered from substream 0's counter. It is sent from the scheduler's task, which does not take the
substream's send lock, and carries fragment id 0. As long as a socket send takes no time a whole message leaves the endpoint
between two scheduling points of the keep-alive timer; over a link of finite bandwidth (or a socket whose send blocks) a message of
k fragments needs k send times, and when ping_timeout is shorter than that the PINGs are numbered and transmitted in the middle of
the message: DATA(frag 1) DATA(frag 2) PING DATA(frag 3) PING PING DATA(frag 0). No fault is needed for that. The property
(delivered = prefix of sent; everything delivered while the faults are within the budget) must hold all the same: the message
arrives whole, not cut at the PING, and what follows it is intact.

The family (all on the real endpoints, in virtual time; the sockets are the simulation's, wrapped from outside):
  link      'sleep' (every socket send blocks for a fixed time: a congested socket) | 'fifo' (a serial link of finite bandwidth:
            a datagram occupies it for len/bandwidth, later sends queue behind it)
  who       the client's, the server's or both uplinks are slow; the big messages go c->s, s->c or both ways (at once / in turn)
  ping      ping_timeout of the sending side = 0.4 .. 4 fragment send times (several PINGs per gap .. one PING every few fragments)
  message   3..40 fragments (last fragment 1..fragment_size bytes, i.e. exact multiples included), followed by short messages on
            the same substream in the same and in a later phase; a second substream now and then (v1)
  encoding  v0 (8 variants), v1, lite (a slow byte stream)
  faults    none | within the budget (<= resend_limit lost datagrams anywhere in the session, or the n-th PING of the sender lost
            once; duplicates; jitter < 0.2 resend_timeout) | hostile (loss 5..30 %, duplicates, delays up to 2.5 resend_timeout)
Sessions whose parameters overload an endpoint's receive loop (its acknowledgements are sent from the receive loop, through the
same slow socket) are outside the retransmission budget whatever the network does: they are judged for safety only.

Every session is judged by the property oracle (corr_C01.judge) on the real code AND replayed through the Lean L2 channel model:
a message with a PING between its fragments becomes `begin`, then `frag` / `ping` lines in the real order of emission (every wire is
compared byte for byte: ids shifted by the PINGs, fragment ids, RC4 ciphertext), arrivals and checkpoint states as for the other
families. Since a slow socket also delays the acknowledgements, arrivals are matched to acknowledgements in order (abstract(...,
late_acks=True)).
"""
import random, traceback
import anyio, anyio.lowlevel
import prudp_session as ps
from sim import quant

V0_VARIANTS = [(a, b, c) for a in (0, 1) for b in (0, 1) for c in (0, 1)]

PROFILES = ["sleep-one", "fifo-one", "fifo-both", "sleep-both"]
DIRECTIONS = ["c", "s", "both-at-once", "both-in-turn"]
ENCODINGS = ["v1", "v0", "v1", "v0", "lite"]
FAULTS = ["none", "budget-random", "budget-ping", "hostile"]


class Link:
    """the send side of one endpoint's socket"""

    def __init__(self, loop, mode, tau=0.0, bandwidth=0.0):
        self.loop, self.mode, self.tau, self.bandwidth = loop, mode, tau, bandwidth
        self.free_at = 0.0

    def cost(self, nbytes):
        if self.mode == "sleep": return quant(self.tau)
        if self.mode == "fifo": return max(quant(nbytes / self.bandwidth), 2.0 ** -20)
        return 0.0

    async def occupy(self, nbytes):
        if self.mode == "none": return
        now = self.loop.time()
        if self.mode == "sleep":
            # a socket is first in, first out: two sends never complete at the same instant (the order in which the event loop wakes
            # timers of equal deadline is arbitrary), the later one leaves 2^-24 s after the earlier
            t = now + self.cost(nbytes)
            if t <= self.free_at: t = self.free_at + 2.0 ** -24
            self.free_at = t
            await anyio.sleep(t - now); return
        start = max(now, self.free_at)
        self.free_at = start + self.cost(nbytes)
        await anyio.sleep(self.free_at - now)


def install_links(sim, links):
    """links: {'c': Link-args dict or None, 's': ...}. Wraps the sockets the simulated network hands out (no change to sim.py)."""
    net = sim.net
    mk = lambda a: Link(sim.loop, a["mode"], a.get("tau", 0.0), a.get("bandwidth", 0.0)) if a else Link(sim.loop, "none")
    lc, ls = mk(links.get("c")), mk(links.get("s"))
    orig_bind, orig_connect, orig_pair = net.bind, net.connect, net.stream_pair

    def bind(addr):
        s = orig_bind(addr)
        async def send(data, dst):
            await anyio.lowlevel.checkpoint_if_cancelled()
            await ls.occupy(len(data))
            net.transmit(s.addr, dst, data)
        s.send = send
        return s

    def connect(local, remote):
        s = orig_connect(local, remote)
        async def send(data):
            await anyio.lowlevel.checkpoint_if_cancelled()
            await lc.occupy(len(data))
            net.transmit(s.local, s.remote, data)
        s.send = send
        return s

    def stream_pair(a_addr, b_addr):
        a, b = orig_pair(a_addr, b_addr)          # a = the connecting side (client), b = the accepted side (server)
        for st, link in ((a, lc), (b, ls)):
            def wrap(st=st, link=link):
                inner = st.send
                async def send(data):
                    await anyio.lowlevel.checkpoint_if_cancelled()
                    await link.occupy(len(data))
                    await inner(data)
                st.send = send
            wrap()
        return a, b

    net.bind, net.connect, net.stream_pair = bind, connect, stream_pair


def gen_case(n, seed):
    """n enumerates the structured axes (profile x direction x encoding x faults), everything else comes from the seed"""
    rng = random.Random(seed)
    profile = PROFILES[n % 4]
    direction = DIRECTIONS[(n // 4) % 4]
    faults = FAULTS[(n // 16) % 4]                         # 64 consecutive n = the full product profile x direction x faults
    enc = ENCODINGS[n % 5]                                 # 5 is co-prime to 64: 320 consecutive n = the full product with encodings
    kw = {}
    if enc == "lite":
        kw.update(transport="lite", version=1)
    elif enc == "v0":
        kw.update(transport="udp", version=0, v0=V0_VARIANTS[rng.randrange(8)])
    else:
        kw.update(transport="udp", version=1, max_substream=rng.choice([0, 0, 1]))
    fifo = profile.startswith("fifo")
    fs = rng.choice([600, 962, 1300]) if fifo else rng.choice([5, 16, 64, 300, 1300])
    kw["fragment_size"] = fs
    kw["credentials"] = rng.random() < 0.3
    if kw["credentials"]:
        kw["pid_size"] = rng.choice([4, 8]); kw["key_size"] = rng.choice([16, 32])
    kw["resend_limit"] = rng.choice([2, 3])
    kw["resend_timeout"] = 1.0
    if rng.random() < 0.2 and kw["transport"] == "udp":
        kw["start"] = (rng.choice([65533, 65535, 65520, 0, 32760]), rng.choice([65534, 65531, 0, 40000]))
    # who sends big messages
    senders = {"c": "c", "s": "s"}.get(direction, "cs")
    one = profile.endswith("one")
    if one and len(senders) == 2:
        slow = rng.choice("cs")                            # both send, one uplink is slow: the other side's message leaves in one burst
    elif one:
        slow = senders
    else:
        slow = "cs"
    tau_f = rng.choice([0.05, 0.1, 0.2])                   # time one full fragment needs on a slow uplink
    hdr = 48
    links = {}
    for side in "cs":
        if side not in slow: links[side] = None
        elif fifo: links[side] = {"mode": "fifo", "bandwidth": (fs + hdr) / tau_f}
        elif side in senders: links[side] = {"mode": "sleep", "tau": tau_f}
        else: links[side] = {"mode": "sleep", "tau": quant(tau_f * rng.choice([0.1, 0.1, 0.3, 1.0]))}      # the receiving side's socket blocks too
    pt = {}
    for side in "cs":
        if side in senders:
            pt[side] = quant(tau_f * rng.choice([0.4, 0.7, 1.5, 2.5, 4.0]))
        else:
            pt[side] = rng.choice([4.0, 4.0, quant(tau_f * 3)])
    kw["ping_timeout"] = pt["c"]
    kw["slow"] = {"profile": profile, "direction": direction, "faults": faults, "links": links, "ping_timeout_s": pt["s"], "tau_f": tau_f}
    cfg = ps.Cfg(**kw)
    kws = {k: v for k, v in kw.items()}
    kws["ping_timeout"] = pt["s"]
    cfg_s = ps.Cfg(**kws)

    def bigmsg():
        k = rng.choice([3, 4, 5, 8, 13, 21, 40]) if rng.random() < 0.7 else rng.randint(3, 40)
        nbytes = (k - 1) * fs + rng.choice([1, fs, rng.randint(1, fs)])
        return rng.randbytes(nbytes)
    def small():
        return rng.randbytes(rng.choice([1, 3, max(1, fs - 1), fs, fs + 1, 2 * fs]))
    nsub = cfg.max_substream + 1
    script = []
    def phase_for(sides):
        ph = {}
        for side in "cs":
            items = []
            if side in sides:
                items.append((side, 0, bigmsg()))
                for _ in range(rng.randint(1, 3)):
                    items.append((side, 0, small()))
                if rng.random() < 0.3:
                    items.insert(rng.randrange(len(items) + 1), (side, 0, bigmsg()))
                if nsub > 1 and rng.random() < 0.6:
                    items.insert(rng.randrange(len(items) + 1), (side, 1, small() if rng.random() < 0.5 else bigmsg()))
                if rng.random() < 0.2:
                    items.insert(rng.randrange(len(items) + 1), (side, 0, ("u", rng.randbytes(rng.randint(1, min(fs, 64))))))
            elif rng.random() < 0.6:
                items.append((side, 0, small()))
            ph[side] = items
        # interleave the two sides' lists (the order within one side is the order of its sends)
        out = []
        a, b = list(ph["c"]), list(ph["s"])
        while a or b:
            src = a if (a and (not b or rng.random() < 0.5)) else b
            out.append(src.pop(0))
        return out
    if direction == "both-in-turn":
        order = ["c", "s"] if rng.random() < 0.5 else ["s", "c"]
        script = [phase_for(order[0]), phase_for(order[1])]
    else:
        script = [phase_for(senders)]
        if rng.random() < 0.4:
            script.append(phase_for(senders))
    # what follows the big message in a later phase (after the link has drained)
    script.append([(side, 0, small()) for side in "cs"])

    # --- is the session inside the retransmission budget whatever the (budget) network does? (conservative, a priori) ----------
    # An endpoint sends its acknowledgements from its receive loop through its own socket: every datagram that asks for an ack
    # costs the loop one small send time. u_loop = share of the loop's time spent so in the steady state; burst = the backlog a
    # burst from a peer with a fast uplink builds up; u_link = share of a serial uplink taken by PINGs and acks (the message
    # itself is self-clocked: the next fragment is handed over when the previous one has left).
    def t_small(side):
        l = links[side]
        if not l: return 0.0
        return l["tau"] if l["mode"] == "sleep" else 64.0 / l["bandwidth"]
    def t_ack(side):
        # what one acknowledgement costs the receive loop: its own send time, and on a serial uplink the wait behind the
        # fragment that is on the link while this side is sending a message
        l = links[side]
        if not l: return 0.0
        return t_small(side) + (tau_f if (l["mode"] == "fifo" and side in senders) else 0.0)
    ok = True
    for side in "cs":
        peer = "s" if side == "c" else "c"
        rate = 1.0 / pt[peer]
        if peer in senders and links[peer]: rate += 1.0 / tau_f
        burst = 0
        if not links[peer]:
            burst = max(sum((len(m) + fs - 1) // fs if isinstance(m, bytes) else 1 for sd, _, m in ph if sd == peer) for ph in script)
        u_loop = t_ack(side) * rate
        u_link = t_small(side) * (1.0 / pt[side] + rate) if links[side] and links[side]["mode"] == "fifo" else 0.0
        rtt = t_ack(side) + 0.4 * cfg.resend_timeout
        if u_loop > 0.4 or u_link > 0.4 or burst * t_ack(side) > 1.0 * cfg.resend_timeout or rtt > 0.8 * cfg.resend_timeout: ok = False
    regime = "hostile" if faults == "hostile" else ("budget" if ok else "overload")
    return cfg, cfg_s, script, regime, faults, rng.getrandbits(40)


def fate_factory(cfg, regime, faults, senders):
    rt = cfg.resend_timeout
    def make(sim, rng):
        if faults == "none":
            d = rng.choice([0.002, 0.01, 0.04])
            return lambda tx: [d]
        if faults == "hostile":
            return ps.lossy_fate(rng, drop=rng.choice([0.05, 0.15, 0.3]), dup=rng.choice([0, 0.1, 0.3]), delay=rng.choice([0.1, 0.5]),
                                 max_delay=rng.choice([0.1, 1.0, 2.5]) * rt)
        left = [cfg.resend_limit]
        def jitter():
            d = rng.random() * 0.2 * rt if rng.random() < 0.5 else 0.005
            if rng.random() < 0.08: return [d, rng.random() * 0.2 * rt]
            return [d]
        if faults == "budget-random":
            q = rng.choice([0.01, 0.03, 0.1])
            def fate(tx):
                if left[0] and rng.random() < q:
                    left[0] -= 1; return []
                return jitter()
            return fate
        # budget-ping: the n-th (first transmission of a) PING of a big sender is lost once; at most resend_limit losses in all
        obs = ps.Observer(cfg.settings(), cfg)
        target = {s: rng.randint(1, 8) for s in senders}
        count = {s: 0 for s in senders}
        seen = set()
        def fate(tx):
            if cfg.transport != "lite" and left[0]:
                side = "c" if tx.dst == ps.SERVER else "s"
                if side in count:
                    for p in obs.decode(tx.data):
                        if p.type == ps.TYPE_PING and not p.flags & ps.F_ACK and (side, p.packet_id) not in seen:
                            seen.add((side, p.packet_id))
                            count[side] += 1
                            if count[side] == target[side]:
                                left[0] -= 1; return []
            return jitter()
        return fate
    return make


def pings_inside(sess):
    """statistic (not an oracle): per direction, how many PINGs were numbered/emitted between the first and the last fragment of a
    message on substream 0, and the largest number of PINGs inside one message"""
    cfg = sess.cfg
    obs = ps.Observer(sess.settings, cfg)
    saddr = sess.addr["s"]
    seen = set()
    inmsg = {"c": False, "s": False}
    cur = {"c": 0, "s": 0}
    total, most, msgs_hit = 0, 0, 0
    connects = set()
    for e in sess.netlog:
        if e[0] == "tx":
            d = "c" if e[4] == saddr else "s"
            pkts = obs.decode(e[5])
        elif e[0] == "stx":
            d = "c" if e[3] == saddr else "s"
            pkts = obs.decode(e[4], (e[2], e[3]))
        else:
            continue
        for p in pkts:
            if p.type == ps.TYPE_CONNECT and not p.flags & ps.F_ACK: connects.add((d, p.packet_id))
            if p.flags & (ps.F_ACK | ps.F_MULTI) or not p.flags & ps.F_REL or p.substream_id != 0: continue
            key = (d, p.type, p.packet_id, p.fragment_id)
            if key in seen: continue
            seen.add(key)
            if p.type == ps.TYPE_DATA:
                if p.fragment_id != 0:
                    inmsg[d] = True
                else:
                    if cur[d]:
                        msgs_hit += 1; most = max(most, cur[d])
                    inmsg[d] = False; cur[d] = 0
            elif p.type == ps.TYPE_PING and inmsg[d]:
                total += 1; cur[d] += 1
    return total, most, msgs_hit, len(connects)


def work(idx, seed, quick, judge, to_lines):
    """seed = 'slowlink:<n>:<seed>'; same result tuple as corr_C01.work"""
    _, n, s = seed.split(":")
    n, s = int(n), int(s)
    cfg = None
    try:
        cfg, cfg_s, script, regime, faults, sseed = gen_case(n, s)
        senders = {"c": "c", "s": "s"}.get(cfg.slow["direction"], "cs")
        links = cfg.slow["links"]
        def setup(sim, out):
            install_links(sim, links)
        longest = max((len(m) for ph in script for _, _, m in ph if isinstance(m, bytes)), default=0)
        sess = ps.run_session(cfg, sseed, script, fate_factory(cfg, regime, faults, senders), cfg_s=cfg_s, setup=setup, max_time=900.0)
        bad = judge(sess, "budget" if regime == "budget" else "hostile")
        tot, most, hit, nconnect = pings_inside(sess)
        lines, expect = ([], [])
        # (a client whose SYN was retransmitted while its first CONNECT was still inside the slow socket can send a second CONNECT,
        # which takes sequence id 2 of substream 0: the channel then does not start where the model's does — such a session is
        # judged on the real code only)
        if not sess.crash and len(sess.netlog) <= 20000 and nconnect <= 1:
            lines, expect = to_lines(sess, "s%d" % idx, late_acks=True)
        stats = {"tx": sum(1 for e in sess.netlog if e[0] in ("tx", "stx")), "regime": "slowlink-" + regime,
                 "enc": "lite" if cfg.transport == "lite" else "v%d" % cfg.version, "msgs": len(sess.accepted),
                 "connect_error": bool(sess.connect_error), "timed_out": sess.timed_out,
                 "slowlink": {"pings_inside": tot, "most_in_one_message": most, "messages_with_ping_inside": hit,
                              "profile": cfg.slow["profile"], "direction": cfg.slow["direction"], "faults": faults,
                              "longest_fragments": (longest + cfg.fragment_size - 1) // cfg.fragment_size,
                              "delivered": sum(len(g) for g in sess.got.values()), "connect_ids": nconnect}}
        scr = [[(a, b, (c if isinstance(c, bytes) else c[1]).hex() if len(c if isinstance(c, bytes) else c[1]) <= 64 else
                 "(%d bytes, sha1 %s)" % (len(c), __import__("hashlib").sha1(c).hexdigest()), isinstance(c, tuple)) for a, b, c in ph] for ph in script]
        return idx, seed, cfg.describe(), scr, "slowlink-" + regime, sseed, bad, lines, expect, stats, None
    except Exception:
        return idx, seed, cfg.describe() if cfg else {"scenario": seed}, None, "slowlink", 0, [], [], [], {}, traceback.format_exc()
