import NxModel.Nex.Streams
import NxModel.Nex.Common
import NxProofs.Bytes
import NxProofs.Bits
import NxProofs.NexErrors
/-! round-trip lemmas for the NEX stream primitives: `r (w x ++ rest) = ok (x, rest)` -/
namespace Nx.Nex
open Nx

theorem bind_ok {α β : Type} {x : Except Err α} {f : α → Except Err β} {b : β}
    (h : (x >>= f) = .ok b) : ∃ a, x = .ok a ∧ f a = .ok b := by
  cases x with
  | error e => simp [bind, Except.bind] at h
  | ok a => exact ⟨a, rfl, h⟩

/-! ## integers -/

theorem rdU8_wU8 {n : Nat} {b : Bytes} (h : wU8 n = .ok b) (rest : Bytes) : rdU8 (b ++ rest) = .ok (n, rest) := by
  unfold wU8 at h; split at h
  · cases h; exact rdU8_u8 _ _ (by assumption)
  · cases h

theorem rdU16_wU16 {n : Nat} {b : Bytes} (h : wU16 n = .ok b) (rest : Bytes) : rdU16 (b ++ rest) = .ok (n, rest) := by
  unfold wU16 at h; split at h
  · cases h; exact rdU16_u16le _ _ (by assumption)
  · cases h

theorem rdU32_wU32 {n : Nat} {b : Bytes} (h : wU32 n = .ok b) (rest : Bytes) : rdU32 (b ++ rest) = .ok (n, rest) := by
  unfold wU32 at h; split at h
  · cases h; exact rdU32_u32le _ _ (by assumption)
  · cases h

theorem rdU64_wU64 {n : Nat} {b : Bytes} (h : wU64 n = .ok b) (rest : Bytes) : rdU64 (b ++ rest) = .ok (n, rest) := by
  unfold wU64 at h; split at h
  · cases h; exact rdU64_u64le _ _ (by assumption)
  · cases h

theorem wU8_ok_iff (n : Nat) : (∃ b, wU8 n = .ok b) ↔ n < 256 := by
  unfold wU8; split <;> simp [*]
theorem wU16_ok_iff (n : Nat) : (∃ b, wU16 n = .ok b) ↔ n < 65536 := by
  unfold wU16; split <;> simp [*]
theorem wU32_ok_iff (n : Nat) : (∃ b, wU32 n = .ok b) ↔ n < 4294967296 := by
  unfold wU32; split <;> simp [*]
theorem wU64_ok_iff (n : Nat) : (∃ b, wU64 n = .ok b) ↔ n < 18446744073709551616 := by
  unfold wU64; split <;> simp [*]

theorem rS8_wS8 {v : Int} {b : Bytes} (h : wS8 v = .ok b) (rest : Bytes) : rS8 (b ++ rest) = .ok (v, rest) := by
  unfold wS8 at h; split at h
  · rename_i hin
    cases h
    simp only [inS, Bool.and_eq_true, decide_eq_true_eq] at hin
    have hlt : toTwos 8 v < 256 := by unfold toTwos; split <;> omega
    simp only [rS8, bind, Except.bind, rdU8_u8 _ _ hlt, pure, Except.pure, Except.ok.injEq, Prod.mk.injEq, and_true]
    unfold ofTwos toTwos; split <;> split <;> omega
  · cases h

theorem rS16_wS16 {v : Int} {b : Bytes} (h : wS16 v = .ok b) (rest : Bytes) : rS16 (b ++ rest) = .ok (v, rest) := by
  unfold wS16 at h; split at h
  · rename_i hin
    cases h
    simp only [inS, Bool.and_eq_true, decide_eq_true_eq] at hin
    have hlt : toTwos 16 v < 65536 := by unfold toTwos; split <;> omega
    simp only [rS16, bind, Except.bind, rdU16_u16le _ _ hlt, pure, Except.pure, Except.ok.injEq, Prod.mk.injEq, and_true]
    unfold ofTwos toTwos; split <;> split <;> omega
  · cases h

theorem rS32_wS32 {v : Int} {b : Bytes} (h : wS32 v = .ok b) (rest : Bytes) : rS32 (b ++ rest) = .ok (v, rest) := by
  unfold wS32 at h; split at h
  · rename_i hin
    cases h
    simp only [inS, Bool.and_eq_true, decide_eq_true_eq] at hin
    have hlt : toTwos 32 v < 4294967296 := by unfold toTwos; split <;> omega
    simp only [rS32, bind, Except.bind, rdU32_u32le _ _ hlt, pure, Except.pure, Except.ok.injEq, Prod.mk.injEq, and_true]
    unfold ofTwos toTwos; split <;> split <;> omega
  · cases h

theorem rS64_wS64 {v : Int} {b : Bytes} (h : wS64 v = .ok b) (rest : Bytes) : rS64 (b ++ rest) = .ok (v, rest) := by
  unfold wS64 at h; split at h
  · rename_i hin
    cases h
    simp only [inS, Bool.and_eq_true, decide_eq_true_eq] at hin
    have hlt : toTwos 64 v < 18446744073709551616 := by unfold toTwos; split <;> omega
    simp only [rS64, bind, Except.bind, rdU64_u64le _ _ hlt, pure, Except.pure, Except.ok.injEq, Prod.mk.injEq, and_true]
    unfold ofTwos toTwos; split <;> split <;> omega
  · cases h

theorem wS64_ok_iff (v : Int) : (∃ b, wS64 v = .ok b) ↔ (-9223372036854775808 ≤ v ∧ v < 9223372036854775808) := by
  unfold wS64 inS
  by_cases h : (-9223372036854775808 ≤ v ∧ v < 9223372036854775808)
  · have : (decide (-((2 ^ (64 - 1) : Nat) : Int) ≤ v) && decide (v < ((2 ^ (64 - 1) : Nat) : Int))) = true := by
      simp; omega
    simp [h]
  · have : (decide (-((2 ^ (64 - 1) : Nat) : Int) ≤ v) && decide (v < ((2 ^ (64 - 1) : Nat) : Int))) = false := by
      simp; omega
    simp [h]

theorem rBool_wBool {v : Bool} {b : Bytes} (h : wBool v = .ok b) (rest : Bytes) : rBool (b ++ rest) = .ok (v, rest) := by
  unfold wBool at h; cases h
  cases v <;> simp [rBool, rdU8, u8, bind, Except.bind, pure, Except.pure, b8]

theorem rDouble_wDouble {v : Nat} {b : Bytes} (h : wDouble v = .ok b) (rest : Bytes) : rDouble (b ++ rest) = .ok (v, rest) :=
  rdU64_wU64 h rest

theorem rResult_wResult {v : Nat} {b : Bytes} (h : wResult v = .ok b) (rest : Bytes) : rResult (b ++ rest) = .ok (v, rest) :=
  rdU32_wU32 h rest

theorem rDateTime_wDateTime {v : Nat} {b : Bytes} (h : wDateTime v = .ok b) (rest : Bytes) : rDateTime (b ++ rest) = .ok (v, rest) :=
  rdU64_wU64 h rest

theorem rPid_wPid (pidSize : Nat) {v : Nat} {b : Bytes} (h : wPid pidSize v = .ok b) (rest : Bytes) :
    rPid pidSize (b ++ rest) = .ok (v, rest) := by
  unfold wPid at h; unfold rPid
  split at h
  · rename_i h8; rw [if_pos h8]; exact rdU64_wU64 h rest
  · rename_i h8; rw [if_neg h8]; exact rdU32_wU32 h rest

theorem wPid_ok_iff (pidSize v : Nat) :
    (∃ b, wPid pidSize v = .ok b) ↔ v < (if pidSize = 8 then 18446744073709551616 else 4294967296) := by
  unfold wPid; split
  · exact wU64_ok_iff v
  · exact wU32_ok_iff v

/-! ## rd -/

theorem rd_append (d rest : Bytes) : rd d.length (d ++ rest) = .ok (d, rest) := by
  simp [rd]

/-! ## strings -/

theorem utf8Dec_utf8Enc (l : List Char) : utf8Dec (utf8Enc l) = some l := by
  have := @List.utf8Decode?_utf8Encode l
  unfold utf8Dec utf8Enc
  unfold List.utf8Encode at this
  rw [this]; simp

theorem utf8Enc_length_pos (l : List Char) (h : l ≠ []) : 0 < (utf8Enc l).length := by
  cases l with
  | nil => exact absurd rfl h
  | cons c r =>
    simp only [utf8Enc, List.flatMap_cons, List.length_append, String.length_utf8EncodeChar]
    have := c.utf8Size_pos
    omega

theorem rString_wString {s : Option String} {b : Bytes} (h : wString s = .ok b) (rest : Bytes) :
    rString (b ++ rest) = .ok (s, rest) := by
  cases s with
  | none =>
    have := rdU16_wU16 h rest
    simp [rString, this, bind, Except.bind, pure, Except.pure]
  | some s =>
    simp only [wString] at h
    obtain ⟨l, hl, h2⟩ := bind_ok h
    simp only [pure, Except.pure, Except.ok.injEq] at h2
    subst h2
    have hpos : 0 < (utf8Enc (s.toList ++ ['\x00'])).length := utf8Enc_length_pos _ (by simp)
    have hne : ¬ (utf8Enc (s.toList ++ ['\x00'])).length = 0 := by omega
    simp only [rString, List.append_assoc, rdU16_wU16 hl, bind, Except.bind, hne, if_false, rd_append,
      utf8Dec_utf8Enc, pure, Except.pure, List.dropLast_concat, String.ofList_toList]

/-- the exact length condition: the UTF-8 bytes of the string plus the terminator fit a u16 -/
theorem wString_ok_iff (s : String) : (∃ b, wString (some s) = .ok b) ↔ (utf8Enc s.toList).length ≤ 65534 := by
  have hlen : (utf8Enc (s.toList ++ ['\x00'])).length = (utf8Enc s.toList).length + 1 := by
    simp [utf8Enc, String.utf8EncodeChar]
  simp only [wString]
  constructor
  · rintro ⟨b, h⟩
    obtain ⟨l, hl, _⟩ := bind_ok h
    have := (wU16_ok_iff _).mp ⟨l, hl⟩
    omega
  · intro h
    obtain ⟨l, hl⟩ := (wU16_ok_iff (utf8Enc (s.toList ++ ['\x00'])).length).mpr (by omega)
    exact ⟨l ++ utf8Enc (s.toList ++ ['\x00']), by simp [hl, bind, Except.bind, pure, Except.pure]⟩

/-! ## buffers -/

theorem rBuffer_wBuffer {d b : Bytes} (h : wBuffer d = .ok b) (rest : Bytes) : rBuffer (b ++ rest) = .ok (d, rest) := by
  unfold wBuffer at h
  obtain ⟨l, hl, h2⟩ := bind_ok h
  simp only [pure, Except.pure, Except.ok.injEq] at h2
  subst h2
  simp only [rBuffer, List.append_assoc, rdU32_wU32 hl, bind, Except.bind, rd_append]

theorem rQBuffer_wQBuffer {d b : Bytes} (h : wQBuffer d = .ok b) (rest : Bytes) : rQBuffer (b ++ rest) = .ok (d, rest) := by
  unfold wQBuffer at h
  obtain ⟨l, hl, h2⟩ := bind_ok h
  simp only [pure, Except.pure, Except.ok.injEq] at h2
  subst h2
  simp only [rQBuffer, List.append_assoc, rdU16_wU16 hl, bind, Except.bind, rd_append]

theorem wBuffer_ok_iff (d : Bytes) : (∃ b, wBuffer d = .ok b) ↔ d.length < 4294967296 := by
  unfold wBuffer
  constructor
  · rintro ⟨b, h⟩; obtain ⟨l, hl, _⟩ := bind_ok h; exact (wU32_ok_iff _).mp ⟨l, hl⟩
  · intro h; obtain ⟨l, hl⟩ := (wU32_ok_iff _).mpr h
    exact ⟨l ++ d, by simp [hl, bind, Except.bind, pure, Except.pure]⟩

/-! ## lists -/

theorem rRepeat_wRepeat {α : Type} (f : α → Except Err Bytes) (rdr : Bytes → Except Err (α × Bytes)) (l : List α)
    (hrt : ∀ x ∈ l, ∀ b rest, f x = .ok b → rdr (b ++ rest) = .ok (x, rest)) :
    ∀ b rest, wRepeat f l = .ok b → rRepeat rdr l.length (b ++ rest) = .ok (l, rest) := by
  induction l with
  | nil => intro b rest h; simp only [wRepeat, Except.ok.injEq] at h; subst h; rfl
  | cons x xs ih =>
    intro b rest h
    simp only [wRepeat] at h
    obtain ⟨a, ha, h⟩ := bind_ok h
    obtain ⟨r, hr, h⟩ := bind_ok h
    simp only [pure, Except.pure, Except.ok.injEq] at h
    subst h
    have h1 := hrt x (by simp) a (r ++ rest) ha
    have h2 := ih (fun y hy => hrt y (by simp [hy])) r rest hr
    simp only [List.length_cons, rRepeat, List.append_assoc, h1, bind, Except.bind, h2, pure, Except.pure]

theorem rList_wList {α : Type} (f : α → Except Err Bytes) (rdr : Bytes → Except Err (α × Bytes)) (l : List α)
    (hrt : ∀ x ∈ l, ∀ b rest, f x = .ok b → rdr (b ++ rest) = .ok (x, rest))
    {b : Bytes} (h : wList f l = .ok b) (rest : Bytes) : rList rdr (b ++ rest) = .ok (l, rest) := by
  unfold wList at h
  obtain ⟨n, hn, h⟩ := bind_ok h
  obtain ⟨r, hr, h⟩ := bind_ok h
  simp only [pure, Except.pure, Except.ok.injEq] at h
  subst h
  simp only [rList, List.append_assoc, rdU32_wU32 hn, bind, Except.bind]
  exact rRepeat_wRepeat f rdr l hrt r rest hr

/-! ## maps -/

theorem rMapItems_wMapItems {κ ν : Type} [BEq κ] [LawfulBEq κ]
    (kf : κ → Except Err Bytes) (vf : ν → Except Err Bytes)
    (rk : Bytes → Except Err (κ × Bytes)) (rv : Bytes → Except Err (ν × Bytes)) (m : List (κ × ν))
    (hk : ∀ e ∈ m, ∀ b rest, kf e.1 = .ok b → rk (b ++ rest) = .ok (e.1, rest))
    (hv : ∀ e ∈ m, ∀ b rest, vf e.2 = .ok b → rv (b ++ rest) = .ok (e.2, rest))
    (hnd : (m.map (·.1)).Nodup) :
    ∀ (acc : List (κ × ν)) b rest, (∀ e ∈ m, e.1 ∉ acc.map (·.1)) → wMapItems kf vf m = .ok b →
      rMapItems rk rv m.length acc (b ++ rest) = .ok (acc ++ m, rest) := by
  induction m with
  | nil => intro acc b rest _ h; simp only [wMapItems, Except.ok.injEq] at h; subst h; simp [rMapItems]
  | cons e r ih =>
    intro acc b rest hdis h
    obtain ⟨k, v⟩ := e
    simp only [wMapItems] at h
    obtain ⟨a, ha, h⟩ := bind_ok h
    obtain ⟨c, hc, h⟩ := bind_ok h
    obtain ⟨t, ht, h⟩ := bind_ok h
    simp only [pure, Except.pure, Except.ok.injEq] at h
    subst h
    simp only [List.map_cons, List.nodup_cons] at hnd
    have h1 := hk (k, v) (by simp) a (c ++ (t ++ rest)) ha
    have h2 := hv (k, v) (by simp) c (t ++ rest) hc
    have hins : dictInsert k v acc = acc ++ [(k, v)] := dictInsert_of_notMem k v acc (hdis (k, v) (by simp))
    have h3 := ih (fun e he => hk e (by simp [he])) (fun e he => hv e (by simp [he])) hnd.2 (acc ++ [(k, v)]) t rest
      (by
        intro e he
        simp only [List.map_append, List.map_cons, List.map_nil, List.mem_append, List.mem_singleton, not_or]
        refine ⟨hdis e (by simp [he]), ?_⟩
        intro heq
        exact hnd.1 (heq ▸ List.mem_map_of_mem (f := (·.1)) he)) ht
    simp only [List.length_cons, rMapItems, List.append_assoc, h1, bind, Except.bind, h2, hins, h3]
    simp

theorem rMap_wMap {κ ν : Type} [BEq κ] [LawfulBEq κ]
    (kf : κ → Except Err Bytes) (vf : ν → Except Err Bytes)
    (rk : Bytes → Except Err (κ × Bytes)) (rv : Bytes → Except Err (ν × Bytes)) (m : List (κ × ν))
    (hk : ∀ e ∈ m, ∀ b rest, kf e.1 = .ok b → rk (b ++ rest) = .ok (e.1, rest))
    (hv : ∀ e ∈ m, ∀ b rest, vf e.2 = .ok b → rv (b ++ rest) = .ok (e.2, rest))
    (hnd : (m.map (·.1)).Nodup) {b : Bytes} (h : wMap kf vf m = .ok b) (rest : Bytes) :
    rMap rk rv (b ++ rest) = .ok (m, rest) := by
  unfold wMap at h
  obtain ⟨n, hn, h⟩ := bind_ok h
  obtain ⟨r, hr, h⟩ := bind_ok h
  simp only [pure, Except.pure, Except.ok.injEq] at h
  subst h
  simp only [rMap, List.append_assoc, rdU32_wU32 hn, bind, Except.bind]
  have := rMapItems_wMapItems kf vf rk rv m hk hv hnd [] r rest (by simp) hr
  simpa using this

/-! ## variant -/

theorem rVariant_wVariant {v : Variant} {b : Bytes} (h : wVariant v = .ok b) (rest : Bytes) :
    rVariant (b ++ rest) = .ok (v, rest) := by
  cases v with
  | none =>
    simp only [wVariant, Except.ok.injEq] at h; subst h
    simp [rVariant, rdU8, u8, b8, bind, Except.bind, pure, Except.pure]
  | bool x =>
    simp only [wVariant] at h
    obtain ⟨r, hr, h⟩ := bind_ok h
    simp only [pure, Except.pure, Except.ok.injEq] at h; subst h
    have := rBool_wBool hr rest
    simp [rVariant, rdU8, u8, b8, bind, Except.bind, pure, Except.pure, this]
  | int x =>
    simp only [wVariant] at h
    split at h
    · obtain ⟨r, hr, h⟩ := bind_ok h
      simp only [pure, Except.pure, Except.ok.injEq] at h; subst h
      have := rS64_wS64 hr rest
      simp [rVariant, rdU8, u8, b8, bind, Except.bind, pure, Except.pure, this]
    · rename_i hneg
      obtain ⟨r, hr, h⟩ := bind_ok h
      simp only [pure, Except.pure, Except.ok.injEq] at h; subst h
      have := rdU64_wU64 hr rest
      have hx : ((x.toNat : Nat) : Int) = x := Int.toNat_of_nonneg (by omega)
      simp [rVariant, rdU8, u8, b8, bind, Except.bind, pure, Except.pure, this, hx]
  | double x =>
    simp only [wVariant] at h
    obtain ⟨r, hr, h⟩ := bind_ok h
    simp only [pure, Except.pure, Except.ok.injEq] at h; subst h
    have := rDouble_wDouble hr rest
    simp [rVariant, rdU8, u8, b8, bind, Except.bind, pure, Except.pure, this]
  | str x =>
    simp only [wVariant] at h
    obtain ⟨r, hr, h⟩ := bind_ok h
    simp only [pure, Except.pure, Except.ok.injEq] at h; subst h
    have := rString_wString hr rest
    simp [rVariant, rdU8, u8, b8, bind, Except.bind, pure, Except.pure, this]
  | datetime x =>
    simp only [wVariant] at h
    obtain ⟨r, hr, h⟩ := bind_ok h
    simp only [pure, Except.pure, Except.ok.injEq] at h; subst h
    have := rDateTime_wDateTime hr rest
    simp [rVariant, rdU8, u8, b8, bind, Except.bind, pure, Except.pure, this]

/-- the wire tag chosen for each kind of value -/
theorem wVariant_tag {v : Variant} {b : Bytes} (h : wVariant v = .ok b) :
    b.head? = some (match v with
      | .none => 0 | .int x => if x < 0 then 1 else 6 | .double _ => 2 | .bool _ => 3 | .str _ => 4 | .datetime _ => 5) := by
  cases v with
  | none => simp only [wVariant, Except.ok.injEq] at h; subst h; rfl
  | int x =>
    simp only [wVariant] at h
    split at h <;> (obtain ⟨r, hr, h⟩ := bind_ok h; simp only [pure, Except.pure, Except.ok.injEq] at h; subst h; simp [u8, b8, *])
  | bool x => simp only [wVariant] at h; obtain ⟨r, hr, h⟩ := bind_ok h; simp only [pure, Except.pure, Except.ok.injEq] at h; subst h; simp [u8, b8]
  | double x => simp only [wVariant] at h; obtain ⟨r, hr, h⟩ := bind_ok h; simp only [pure, Except.pure, Except.ok.injEq] at h; subst h; simp [u8, b8]
  | str x => simp only [wVariant] at h; obtain ⟨r, hr, h⟩ := bind_ok h; simp only [pure, Except.pure, Except.ok.injEq] at h; subst h; simp [u8, b8]
  | datetime x => simp only [wVariant] at h; obtain ⟨r, hr, h⟩ := bind_ok h; simp only [pure, Except.pure, Except.ok.injEq] at h; subst h; simp [u8, b8]

/-! ## anydata, structure levels -/

theorem rAnyData_wAnyData {name : Option String} {payload b : Bytes} (h : wAnyData name payload = .ok b) (rest : Bytes) :
    rAnyData (b ++ rest) = .ok ((name, payload), rest) := by
  unfold wAnyData at h
  obtain ⟨n, hn, h⟩ := bind_ok h
  obtain ⟨l, hl, h⟩ := bind_ok h
  obtain ⟨p, hp, h⟩ := bind_ok h
  simp only [pure, Except.pure, Except.ok.injEq] at h
  subst h
  have hp' := hp
  unfold wBuffer at hp'
  obtain ⟨l2, hl2, hp'⟩ := bind_ok hp'
  simp only [pure, Except.pure, Except.ok.injEq] at hp'
  have hplen : p.length = payload.length + 4 := by
    subst hp'
    unfold wU32 at hl2; split at hl2
    · cases hl2; simp; omega
    · cases hl2
  have h1 := rString_wString hn (l ++ (p ++ rest))
  -- outer buffer: u32 (len+4) followed by exactly the inner buffer `p`
  have houter : rBuffer (l ++ (p ++ rest)) = .ok (p, rest) := by
    have : wBuffer p = .ok (l ++ p) := by
      unfold wBuffer; rw [hplen, hl]; rfl
    have := rBuffer_wBuffer this rest
    simpa using this
  have hinner : rBuffer p = .ok (payload, []) := by
    have := rBuffer_wBuffer hp []
    simpa using this
  simp only [rAnyData, List.append_assoc, h1, bind, Except.bind, houter, hinner, pure, Except.pure]

theorem rStructLevel_wStructLevel {α : Type} (header : Bool) (version : Nat) (body : Bytes)
    (load : Nat → Bytes → Except Err (α × Bytes)) (x : α)
    (hload : ∀ rest, load (if header then version else 0) (body ++ rest) = .ok (x, rest))
    {b : Bytes} (h : wStructLevel header version body = .ok b) (rest : Bytes) :
    rStructLevel header load (b ++ rest) = .ok (x, rest) := by
  unfold wStructLevel at h
  cases header with
  | false =>
    simp only [Bool.false_eq_true, if_false, Except.ok.injEq] at h
    subst h
    simpa [rStructLevel] using hload rest
  | true =>
    simp only [if_true] at h
    obtain ⟨v, hv, h⟩ := bind_ok h
    obtain ⟨bb, hb, h⟩ := bind_ok h
    simp only [pure, Except.pure, Except.ok.injEq] at h
    subst h
    have h1 := rdU8_wU8 hv (bb ++ rest)
    have h2 := rBuffer_wBuffer hb rest
    have h3 := hload []
    simp only [if_true, List.append_nil] at h3
    simp only [rStructLevel, if_true, List.append_assoc, h1, bind, Except.bind, h2, h3, pure, Except.pure]

end Nx.Nex
