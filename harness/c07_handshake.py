"""C07 — WELL-FORMED HANDSHAKE PACKETS from a third party at every PHASE of a victim connection (set-ups for multi_session.run).

The packets of the PRUDP handshake are not protected by anything secret: the signature of a SYN and of a SYN/ACK depends on the
game's access key only, that of a CONNECT and of a CONNECT/ACK on the access key and on the connection signature of an ADDRESS
(which everybody can compute); their ids are 0 / 1. A third party therefore can produce handshake packets that pass every check
a decoder or a signature test can make, for any virtual port, at any moment, and — on a datagram transport — with any source
address. While a SYN or a CONNECT of the victim is still unanswered such a packet IS the answer (a weakness of the protocol, not
of the code; those moments are left alone). At every later moment of the connection it must have no effect at all:

  towards a CLIENT transport, with the server's address: SYN/ACK (FLAG_ACK alone / with HAS_SIZE / with NEED_ACK; ids 0 or not; the
  negotiated parameters, smaller ones, zero, larger ones; a connection signature that is random / zero / ones / the genuine one),
  CONNECT/ACK (right and wrong signature, any session id, parameters, sequence id 1 or not), SYN and CONNECT without FLAG_ACK;
  for the port of the victim connection and for ports that are not bound;
  towards the SERVER transport: the same packets with the victim's own address and port (they reach the server's connection
  object of the victim), from the victim's address with another UDP port, and from addresses of the third party; in the runs
  with `reflect` also valid SYN and (inside an established session) valid CONNECT requests with the victim's address and port, which
  the server ANSWERS — towards the victim, a genuine late SYN/ACK / CONNECT/ACK whose parameters the third party chose;
  on stream transports: hostile stream connections of their own that send such packets, for the victims' ports, all the time.

Phases (tracked per victim from the genuine traffic, one-way delay PATH in both runs): after the victim's SYN was acknowledged
(CONNECT pending), after its CONNECT was acknowledged, next to every packet of the session (intensity), at long distances from any
traffic (idle, only keep-alives flowing), around and after the DISCONNECT.

`setup(cfg, hostile)` returns the hook for multi_session.run; both runs install the path delay and the observation of the connection
objects (negotiated parameters, peer's connection signature and session id, state — at every genuine transmission and at the end),
only the attacked run the third party. Judged by corr_C07's twin-run oracles plus compare() / judge() below."""
import collections, copy

import anyio

import multi_session as ms
from sim import quant
from nintendo.nex import prudp

PATH = 0.004
ACK, REL, NEED, SIZE = prudp.FLAG_ACK, prudp.FLAG_RELIABLE, prudp.FLAG_NEED_ACK, prudp.FLAG_HAS_SIZE
FUNCS = 0x0F


def prepare(spec):
    """negotiation that is not trivial: every party supports functions 0x0F and minor version 4 (library default), so that 'not
    larger' parameters differ from the negotiated ones"""
    orig = spec.settings
    def settings(version):
        s = orig(version)
        s["prudp.supported_functions"] = FUNCS
        return s
    spec.settings = settings
    return spec


def _decode(out, sel, data):
    n = len(out.decodes)
    try:
        return sel.decode(data)
    except Exception:
        return []
    finally:
        del out.decodes[n:]


def craft(rng, enc, version, lite, kind, sport, dport, neg, sig_addr, consig_addr, server_params):
    """one well-formed handshake packet. neg = (max substream, minor version, functions) the victim negotiated; sig_addr = the
    address whose connection signature the receiver uses when it checks a CONNECT / CONNECT-ACK; consig_addr = the address whose
    connection signature a genuine SYN/ACK would carry. Returns (label, packet, info)."""
    size = enc.signature_size()
    sub, minor, funcs = neg
    pv = rng.choice(["same", "same", "zero", "smaller", "larger"])
    if pv == "zero":
        prm = (0, 0, 0)
    elif pv == "smaller":
        prm = (0, max(0, minor - 1), funcs & 0x05)
    elif pv == "larger":
        prm = rng.choice([(sub + 1, minor, funcs), (sub, minor + 1, funcs), (sub, minor, funcs | 0x10)])
    else:
        prm = neg
    info = dict(kind=kind, prm=pv, params=prm, sig_valid=True, pid=0, consig_zero=True, need_ack=False, ids_zero=True)
    sigmode = "valid" if rng.random() < 0.8 else rng.choice(["random", "zeros", "other-address"])
    payload = b""
    if kind == "synack":
        flags = rng.choice([ACK, ACK, ACK | SIZE, ACK | NEED])
        p = prudp.PRUDPPacket(prudp.TYPE_SYN, flags)
        cs = rng.choice(["random", "zeros", "genuine", "ones"])
        p.connection_signature = {"random": rng.randbytes(size), "zeros": bytes(size), "ones": b"\xff" * size,
                                  "genuine": enc.calc_connection_signature(consig_addr)}[cs]
        if rng.random() < 0.1:
            if rng.random() < 0.5: p.session_id = rng.randrange(1, 256)
            else: p.packet_id = rng.choice([1, 2, 0xFFFF])
            info["ids_zero"] = False
        label = "syn-ack:consig-%s" % cs
    elif kind == "connack":
        flags = rng.choice([ACK | SIZE, ACK | SIZE, ACK])
        p = prudp.PRUDPPacket(prudp.TYPE_CONNECT, flags)
        p.session_id = rng.choice([0x5A, rng.randrange(256)])
        p.packet_id = 1 if rng.random() < 0.85 else rng.choice([0, 2])
        p.connection_signature = bytes(size) if rng.random() < 0.85 else rng.randbytes(size)
        p.initial_unreliable_id = rng.choice([0, 1, rng.randrange(65536)])
        payload = rng.choice([b"", b"", rng.randbytes(8)])
        label = "connect-ack"
    elif kind == "syn":
        flags = rng.choice([NEED, NEED, NEED | SIZE, 0])
        p = prudp.PRUDPPacket(prudp.TYPE_SYN, flags)
        p.connection_signature = bytes(size) if rng.random() < 0.85 else rng.randbytes(size)
        label = "syn"
    else:
        flags = rng.choice([REL | NEED | SIZE, REL | NEED | SIZE, REL | SIZE, NEED])
        p = prudp.PRUDPPacket(prudp.TYPE_CONNECT, flags)
        p.session_id = rng.randrange(256)
        p.packet_id = 1 if rng.random() < 0.85 else rng.choice([0, 2])
        p.connection_signature = rng.choice([rng.randbytes(size), enc.calc_connection_signature(consig_addr), bytes(size)])
        p.initial_unreliable_id = rng.randrange(1, 65536)
        payload = rng.choice([b"", b"", rng.randbytes(24)])
        label = "connect"
    p.version = version
    p.source_type = p.dest_type = 10
    p.source_port, p.dest_port = sport, dport
    p.max_substream_id, p.minor_version, p.supported_functions = prm
    p.payload = payload
    if lite and kind != "synack":
        p.connection_signature = b""
    info.update(pid=p.packet_id, consig_zero=not any(p.connection_signature or b""), need_ack=bool(flags & NEED))
    if p.type == prudp.TYPE_SYN:
        want = enc.calc_packet_signature(p, b"", b"")
    else:
        want = enc.calc_packet_signature(p, b"", enc.calc_connection_signature(sig_addr))
    if sigmode == "valid" or want is None:
        sig = want
    else:
        sig = {"random": rng.randbytes(size), "zeros": bytes(size),
               "other-address": enc.calc_packet_signature(p, b"", enc.calc_connection_signature(ms.ATTACKER))}[sigmode]
        if p.type == prudp.TYPE_SYN and sigmode == "other-address":
            sig = rng.randbytes(size)
        if sig is None or len(sig) != size:
            sig = rng.randbytes(size)
    if lite and p.type == prudp.TYPE_CONNECT and not flags & ACK and sig is None:
        sig = rng.randbytes(16)              # (lite: a CONNECT without NEED_ACK has no valid signature at all)
    p.signature = sig
    info["sig_valid"] = sig == want
    info["label"] = "%s:params-%s:sig-%s" % (label, pv, "valid" if info["sig_valid"] else "wrong")
    # what the receiving side's checks would say
    s_sub, s_minor, s_funcs = server_params
    carried = prm if (version == 1 or lite) else (0, 0, 0)                 # (v0 packets do not carry the parameters)
    if lite: carried = (0,) + tuple(prm[1:])
    info["client_accepts_connack"] = (kind == "connack" and info["sig_valid"] and p.packet_id == 1 and info["consig_zero"]
                                      and carried == (neg if (version == 1 or lite) else (0, 0, 0)))
    info["server_answers_syn"] = kind == "syn" and info["sig_valid"] and info["need_ack"] and info["consig_zero"]
    info["server_admits_connect"] = (kind == "connect" and info["sig_valid"] and info["need_ack"] and p.packet_id == 1
                                     and carried[0] <= s_sub and carried[1] <= s_minor and not carried[2] & ~s_funcs)
    return info["label"], p, info


def snapshot(c):
    return (c.state, c.max_substream_id, c.minor_ver, c.supported_functions, (c.remote_signature or b"").hex(), c.remote_session_id,
            c.local_port, c.remote_port)


def observe(sim, out):
    """both runs: the connection objects that were started (client side: handshake(), server side: serve())"""
    out.hs_conns = []            # (side, object)
    out.hs_snaps = {}            # address of the genuine sender -> [snapshots of its connection objects at each of its transmissions]
    for name, side in (("handshake", "c"), ("serve", "s")):
        orig = getattr(prudp.PRUDPClient, name)
        def make(orig, side):
            async def wrapped(self, *a, **kw):
                out.hs_conns.append((side, self))
                return await orig(self, *a, **kw)
            return wrapped
        sim._patch(prudp.PRUDPClient, name, make(orig, side))


def take_snapshots(out, tx, sel):
    if tx.src == ms.SERVER:
        if sel is not None and _handshake_answer(sel, out, tx.data):
            return          # (the server's handshake answers are stateless; with `reflect` the attacked run has more of them)
        objs = [c for side, c in out.hs_conns if side == "s" and c.remote_addr == tx.dst]
        key = ("s", tx.dst)
    else:
        objs = [c for side, c in out.hs_conns if side == "c" and c.local_addr == tx.src]
        key = ("c", tx.src)
    out.hs_snaps.setdefault(key, []).append(tuple(snapshot(c) for c in objs))


def setup(cfg, hostile):
    """cfg: to = "client" | "server" | "both"; reflect = valid requests with the victim's address and port as well (the server answers
    them towards the victim); intensity = share of the session's packets next to which a batch is injected; idle = also at long
    distances from any traffic; join = share of the injected datagrams that carry two packets"""
    to = cfg.get("to", "both")
    reflect = cfg.get("reflect", False)
    intensity = cfg.get("intensity", 0.5)
    idle = cfg.get("idle", False)
    join = cfg.get("join", 0.2)

    def attack(sim, out, rng):
        net = sim.net
        out.injected = 0
        out.hs_labels = collections.Counter()
        observe(sim, out)
        sel = prudp.PRUDPMessageSelector(out.settings_s)
        third = [(ms.ATTACKER[0], ms.ATTACKER[1] + j) for j in range(3)]
        hostile_addrs = set(third)
        ss = out.settings_s
        server_params = (ss["prudp.max_substream_id"], ss["prudp.minor_version"], ss["prudp.supported_functions"])

        def fate(tx):
            return [0.0] if tx.src in hostile_addrs else [PATH]
        net.fate = fate

        phase = {}           # victim address -> "A" (its SYN was acknowledged, CONNECT pending) | "B" (established) | "C" (closing / closed)
        info_of = {}         # victim address -> dict(version, cport, vport, neg)

        def batch(v, where, ph, trigger_is_victim_data, delays, long_ok=True):
            """inject one datagram (one or two packets) for victim v"""
            vi = info_of[v]
            version = vi["version"]
            enc = sel.select(version)
            n = 2 if rng.random() < join else 1
            pkts, labels = [], []
            d = rng.choice(delays)
            if where == "client":
                src, dst = ms.SERVER, v
            elif where == "as-victim":
                src, dst = v, ms.SERVER
            elif where == "victim-other-port":
                src, dst = (v[0], v[1] + 1000), ms.SERVER
            else:
                src, dst = rng.choice(third), ms.SERVER
            for j in range(n):
                kind = rng.choice(["synack", "synack", "connack", "connack", "syn", "connect"])
                if where == "client":
                    sport = vi["vport"]
                    dport = vi["cport"] if rng.random() < 0.85 else rng.choice([p for p in range(16) if p != vi["cport"]])
                    sig_addr, consig_addr = ms.SERVER, v
                else:
                    sport = vi["cport"] if rng.random() < 0.85 else rng.randrange(16)
                    dport = vi["vport"] if rng.random() < 0.85 else rng.choice([p for p in range(1, 16)])
                    sig_addr, consig_addr = src, ms.SERVER
                label, p, info = craft(rng, enc, version, False, kind, sport, dport, vi["neg"], sig_addr, consig_addr, server_params)
                # the moments at which a well-formed handshake packet IS what the receiver waits for, and requests that create a
                # connection of their own, are not part of this family
                if where == "client" and ph == "A" and info["client_accepts_connack"]:
                    continue
                if where != "client":
                    if info["server_admits_connect"] and not (where == "as-victim" and reflect and ph == "B" and trigger_is_victim_data and d <= 0.03
                                                              and sport == vi["cport"] and dport == vi["vport"]):
                        # (only in the name of the victim's own established connection: the server then answers without creating anything)
                        continue
                    if info["server_answers_syn"] and where == "as-victim" and not reflect:
                        continue
                if version == 0 and n == 2 and j == 0:
                    if not p.flags & SIZE:
                        p.flags |= SIZE           # (v0: another packet can follow only behind an explicit size; the signature does not cover the flags)
                pkts.append(p); labels.append(label)
            if not pkts:
                return
            try:
                data = b"".join(enc.encode(p) for p in pkts)
            except Exception:
                return
            net.inject(src, dst, data, d)
            out.injected += 1
            for label in labels:
                out.hs_labels["%s:phase-%s:%s" % ("to-client" if where == "client" else "to-server-" + where, ph, label)] += 1

        def wheres():
            w = []
            if to in ("client", "both"):
                w += ["client", "client"]
            if to in ("server", "both"):
                w += ["as-victim", "as-victim", "victim-other-port", "third"]
            return w

        def on_tx(tx):
            if tx.src in hostile_addrs:
                return
            take_snapshots(out, tx, sel)
            if not hostile:
                return
            v = tx.dst if tx.src == ms.SERVER else tx.src
            pk = _decode(out, sel, tx.data)
            if len(pk) != 1:
                return
            p = pk[0]
            if tx.src == ms.SERVER and p.type == prudp.TYPE_SYN and p.flags & ACK and v not in phase:
                # the victim's SYN is acknowledged: from the arrival of this packet on its CONNECT is pending
                phase[v] = "A"
                info_of[v] = dict(version=p.version, cport=p.dest_port, vport=p.source_port,
                                  neg=(p.max_substream_id, p.minor_version, p.supported_functions))
                hostile_addrs.add((v[0], v[1] + 1000))
                out.probe_addrs.add((v[0], v[1] + 1000))
                for w in wheres():
                    for k in range(2):
                        if w == "client":
                            batch(v, w, "A", False, [PATH + 0.001, PATH + 0.003, PATH + 0.006])
                        else:
                            batch(v, w, "A", False, [0.0, 0.002, PATH + 0.001, PATH + 0.005])
                return
            if v not in phase:
                return
            if tx.src == ms.SERVER and p.type == prudp.TYPE_CONNECT and p.flags & ACK and phase[v] == "A":
                phase[v] = "B"
                for w in wheres():
                    for k in range(3):
                        batch(v, w, "B", False, [PATH + 0.0005, PATH + 0.002, PATH + 0.01, 0.03] if w == "client" else [0.0005, 0.004, 0.01, 0.03])
                return
            if p.type == prudp.TYPE_DISCONNECT and tx.src == v:
                phase[v] = "C"
            if phase[v] == "A":
                return
            if rng.random() > intensity:
                return
            is_data = tx.src == v and p.type == prudp.TYPE_DATA and not p.flags & ACK
            delays = [0.0, 0.001, PATH + 0.001, 0.01, 0.03]
            for w in rng.sample(wheres(), 2):
                batch(v, w, phase[v], is_data, delays)
            if idle and phase[v] == "B" and not is_data:
                # far from any traffic of the session (the admitting requests never: the session may have ended by then)
                for w in rng.sample(wheres(), 2):
                    batch(v, w, "B-idle", False, [0.12, 0.2, 0.33, 0.45, 0.6])
        net.on_tx = on_tx
        for a in third:
            out.probe_addrs.add(a)
    return attack


def stream_setup(cfg, hostile):
    """stream transports: hostile stream connections of their own, sending well-formed handshake packets for the victims' ports
    for the whole duration of the run"""
    n_conns = cfg.get("conns", 2)
    steps = cfg.get("steps", 40)

    def attack(sim, out, rng):
        out.injected = 0
        out.hs_labels = collections.Counter()
        observe(sim, out)
        if not hostile:
            return
        enc = prudp.PRUDPLiteMessage(out.settings_s)
        ss = out.settings_s
        server_params = (ss["prudp.max_substream_id"], ss["prudp.minor_version"], ss["prudp.supported_functions"])
        neg = (0, ss["prudp.minor_version"], ss["prudp.supported_functions"])
        vports = [vp if isinstance(vp, int) else vp[0] for vp in out.spec.vports]

        async def hostile_conn(j):
            listener = sim.stream_listeners.get(ms.SERVER)
            if listener is None:
                return
            addr = (ms.ATTACKER[0], ms.ATTACKER[1] + j)
            a, b = sim.net.stream_pair(addr, ms.SERVER)
            listener(b)
            for step in range(steps):
                await anyio.sleep(quant(rng.choice([0.01, 0.03, 0.07, 0.11])))
                data = b""
                for k in range(rng.choice([1, 1, 2, 3])):
                    kind = rng.choice(["synack", "synack", "connack", "connack", "syn", "connect"])
                    sport = rng.choice([31, 31, 30, rng.randrange(32)])          # (the ports a client transport hands out first)
                    dport = rng.choice(vports + vports + [rng.randrange(1, 32)])
                    label, p, info = craft(rng, enc, 1, True, kind, sport, dport, neg, addr, addr, server_params)
                    if info["server_admits_connect"]:
                        continue
                    try:
                        data += enc.encode(p)
                    except Exception:
                        continue
                    out.hs_labels["stream-of-its-own:%s" % label] += 1
                if not data:
                    continue
                try:
                    if len(data) > 14 and rng.random() < 0.3:
                        cut = rng.randrange(1, len(data))
                        await a.send(data[:cut]); await anyio.sleep(quant(0.002)); await a.send(data[cut:])
                    else:
                        await a.send(data)
                    out.injected += 1
                except Exception:
                    return
            await anyio.sleep(30)
        for j in range(n_conns):
            out.probe_addrs.add((ms.ATTACKER[0], ms.ATTACKER[1] + j))
            sim.loop.create_task(hostile_conn(j))
    return attack


def _handshake_answer(sel, out, data):
    pk = _decode(out, sel, data)
    return len(pk) == 1 and pk[0].type in (prudp.TYPE_SYN, prudp.TYPE_CONNECT) and bool(pk[0].flags & ACK)


def compare(ref, att, cfg):
    """the victims' view of the two runs. With `reflect` the server's handshake ANSWERS are set apart: those of the reference run must
    all be there, the further ones are its answers to the third party's requests (stateless, by design)"""
    a, b = ms.victim_view(ref), ms.victim_view(att)
    ignore = {ms.ATTACKER, att.flood_addr} | set(att.probe_addrs)
    for k in ("got", "srv_got", "connect_errors"):
        if a[k] != b[k]:
            return k, repr(a[k])[:300], repr(b[k])[:300]
    sel = prudp.PRUDPMessageSelector(att.settings_s) if att.spec.transport == "udp" else None
    for src in sorted(set(a["tx"]) | set(b["tx"])):
        xa = [x for x in a["tx"].get(src, []) if x[1] not in ignore]
        xb = [x for x in b["tx"].get(src, []) if x[1] not in ignore]
        if cfg.get("reflect") and src == ms.SERVER and sel is not None:
            ha = collections.Counter((x[1], x[2]) for x in xa if _handshake_answer(sel, att, x[2]))
            hb = collections.Counter((x[1], x[2]) for x in xb if _handshake_answer(sel, att, x[2]))
            missing = ha - hb
            if missing:
                k = sorted(missing)[0]
                return "server-handshake-answers", repr((k[0], k[1].hex()[:50])), "missing"
            xa = [x for x in xa if not _handshake_answer(sel, att, x[2])]
            xb = [x for x in xb if not _handshake_answer(sel, att, x[2])]
        for i, (x, y) in enumerate(zip(xa, xb)):
            if x[1:] != y[1:] or abs(x[0] - y[0]) > 65536:
                return "tx[%s:%d][%d]" % (src[0], src[1], i), repr((x[0], x[1], x[2].hex()[:50])), repr((y[0], y[1], y[2].hex()[:50]))
        if len(xa) != len(xb):
            return "tx-count[%s:%d]" % src, str(len(xa)), str(len(xb))
    return None


def _final(sess):
    victims = set(sess.client_addr.values())
    rows = []
    for side, c in sess.hs_conns:
        if (side == "c" and c.local_addr in victims) or (side == "s" and c.remote_addr in victims):
            rows.append((side, c.local_addr if side == "c" else c.remote_addr) + snapshot(c))
    return rows


def judge(spec, ref, att, cfg):
    """negotiated parameters, the peer's connection signature and session id, and the state of every victim connection object (both
    sides) — at each genuine transmission of its owner and at the end — are those of the run without the third party"""
    bad = []
    if not getattr(att, "injected", 0):
        bad.append(("handshake-setup", "no handshake packet was injected in this run"))
    names = ("state", "max_substream_id", "minor_version", "supported_functions", "peer's connection signature", "peer's session id", "local port", "remote port")
    done = False
    for key in sorted(set(ref.hs_snaps) | set(att.hs_snaps)):
        if key[1] in att.probe_addrs or key[1] == ms.ATTACKER:
            continue
        ra, aa = ref.hs_snaps.get(key, []), att.hs_snaps.get(key, [])
        for i, (x, y) in enumerate(zip(ra, aa)):
            if x != y:
                what = "?"
                for cx, cy in zip(x, y):
                    for nm, vx, vy in zip(names, cx, cy):
                        if vx != vy:
                            what = "%s is %r instead of %r" % (nm, vy, vx); break
                    if what != "?": break
                if len(x) != len(y):
                    what = "%d connection objects instead of %d" % (len(y), len(x))
                bad.append(("connection-changed", "at the %dth transmission of %s %s:%d its connection is not the one of the run without the injected handshake packets: %s"
                            % (i + 1, "the client transport" if key[0] == "c" else "the server towards", key[1][0], key[1][1], what)))
                done = True
                break
        if done:
            break
    if not done:
        fr, fa = _final(ref), _final(att)
        ref.hs_final, att.hs_final = fr, fa
        if fr != fa:
            d = [(x, y) for x, y in zip(fr, fa) if x != y][:1]
            bad.append(("connection-changed", "at the end of the run the victims' connection objects differ from the run without the injected handshake packets: %r"
                        % (d[0] if d else (len(fr), len(fa)),)))
    return bad


def strip(spec, *sessions):
    """what cannot travel between processes: the wrapped settings function, the connection objects"""
    spec.__dict__.pop("settings", None)
    for se in sessions:
        se.hs_final = _final(se)
        se.hs_conns = []
