import NxModel.Bytes
/-!
# HTTP request encoding as the Switch clients use it — mirrors `anynet.http`

`HTTPRequest` fields the clients touch: method, path, `params` (query string), ordered headers
(a case-insensitive multi dict: assignment replaces in place, else appends), one of `rawform` /
`form` / `json` (or nothing) as the body.  `Req.encode` mirrors `HTTPMessage.encode()`:
`encode_body` fills `Content-Type` if missing, replaces `Content-Length` when the body is non-empty
and `HTTPRequest.encode_body` appends `Expect: 100-continue` when the body exceeds 1024 bytes.

Also: `urllib.parse.quote` (default safe `/`), `formencode`, compact `json.dumps`
(`ensure_ascii` on/off), standard / url-safe base64, `%016x`-style formatting.
No Mathlib imports (linked into the compiled drivers).
-/
namespace Nx.Http
open Nx

/-! ## number formatting -/

def hexDigitL (n : Nat) : Char := if n < 10 then Char.ofNat (48 + n) else Char.ofNat (87 + n)
def hexDigitU (n : Nat) : Char := if n < 10 then Char.ofNat (48 + n) else Char.ofNat (55 + n)

def digitsAux (base : Nat) (dig : Nat → Char) : Nat → Nat → List Char → List Char
  | 0, _, acc => acc
  | fuel + 1, n, acc =>
    if n < base then dig n :: acc else digitsAux base dig fuel (n / base) (dig (n % base) :: acc)

/-- digits of `n` in `base` (2 ≤ base), most significant first -/
def digits (base : Nat) (dig : Nat → Char) (n : Nat) : List Char :=
  if base < 2 then [] else digitsAux base dig (n + 1) n []

def padLeft (w : Nat) (c : Char) (l : List Char) : List Char := List.replicate (w - l.length) c ++ l

/-- `"%0<w>x" % n` for a non-negative int -/
def hexL (w n : Nat) : String := String.ofList (padLeft w '0' (digits 16 hexDigitL n))
/-- `"%0<w>X" % n` -/
def hexU (w n : Nat) : String := String.ofList (padLeft w '0' (digits 16 hexDigitU n))
/-- `"%i" % n` / `str(n)` for a non-negative int -/
def dec (n : Nat) : String := String.ofList (digits 10 hexDigitL n)
def decInt (i : Int) : String := if i < 0 then "-" ++ dec i.natAbs else dec i.toNat

/-! ## urllib.parse.quote / formencode -/

def isUnreserved (b : UInt8) : Bool :=
  let n := b.toNat
  (48 ≤ n && n ≤ 57) || (65 ≤ n && n ≤ 90) || (97 ≤ n && n ≤ 122) ||
  n == 95 || n == 46 || n == 45 || n == 126 || n == 47   -- _ . - ~ and the default safe '/'

def quoteByte (b : UInt8) : List Char :=
  if isUnreserved b then [Char.ofNat b.toNat]
  else ['%', hexDigitU (b.toNat / 16), hexDigitU (b.toNat % 16)]

/-- `urllib.parse.quote(s)` -/
def quote (s : String) : String := String.ofList (s.toUTF8.toList.flatMap quoteByte)

/-- `anynet.http.formencode(data, url)`; a `none` value is a bare key -/
def formencode (url : Bool) (l : List (String × Option String)) : String :=
  "&".intercalate (l.map fun (k, v) =>
    match v with
    | none => if url then quote k else k
    | some v => if url then quote k ++ "=" ++ quote v else k ++ "=" ++ v)

/-! ## JSON values and `json.dumps(separators=(",", ":"))` -/

inductive J where
  | null
  | bool (b : Bool)
  | num (i : Int)
  | str (s : String)
  | arr (l : List J)
  | obj (l : List (String × J))
  deriving Repr, Inhabited

def hex4 (n : Nat) : List Char :=
  [hexDigitL (n / 4096 % 16), hexDigitL (n / 256 % 16), hexDigitL (n / 16 % 16), hexDigitL (n % 16)]

/-- one character inside a JSON string literal, as CPython's encoder writes it -/
def escChar (ascii : Bool) (c : Char) : List Char :=
  let n := c.toNat
  if c = '"' then ['\\', '"']
  else if c = '\\' then ['\\', '\\']
  else if c = '\n' then ['\\', 'n']
  else if c = '\r' then ['\\', 'r']
  else if c = '\t' then ['\\', 't']
  else if n = 8 then ['\\', 'b']
  else if n = 12 then ['\\', 'f']
  else if n < 32 then '\\' :: 'u' :: hex4 n
  else if n < 127 || !ascii then [c]
  else if n < 65536 then '\\' :: 'u' :: hex4 n
  else
    let m := n - 65536
    ('\\' :: 'u' :: hex4 (0xD800 + m / 1024)) ++ ('\\' :: 'u' :: hex4 (0xDC00 + m % 1024))

def escStr (ascii : Bool) (s : String) : String :=
  "\"" ++ String.ofList (s.toList.flatMap (escChar ascii)) ++ "\""

mutual
  def J.render (ascii : Bool) : J → String
    | .null => "null"
    | .bool true => "true"
    | .bool false => "false"
    | .num i => decInt i
    | .str s => escStr ascii s
    | .arr l => "[" ++ ",".intercalate (J.renderList ascii l) ++ "]"
    | .obj l => "{" ++ ",".intercalate (J.renderFields ascii l) ++ "}"
  def J.renderList (ascii : Bool) : List J → List String
    | [] => []
    | x :: r => J.render ascii x :: J.renderList ascii r
  def J.renderFields (ascii : Bool) : List (String × J) → List String
    | [] => []
    | (k, v) :: r => (escStr ascii k ++ ":" ++ J.render ascii v) :: J.renderFields ascii r
end

/-- a Python dict keeps the position of a key that is assigned again -/
def objSet (l : List (String × J)) (k : String) (v : J) : List (String × J) :=
  if l.any (·.1 == k) then l.map (fun p => if p.1 == k then (k, v) else p) else l ++ [(k, v)]

/-! ## base64 -/

def b64Char (urlsafe : Bool) (n : Nat) : Char :=
  if n < 26 then Char.ofNat (65 + n)
  else if n < 52 then Char.ofNat (97 + n - 26)
  else if n < 62 then Char.ofNat (48 + n - 52)
  else if n = 62 then (if urlsafe then '-' else '+')
  else (if urlsafe then '_' else '/')

def b64Aux (u : Bool) : Bytes → List Char
  | a :: b :: c :: r =>
    let n := a.toNat * 65536 + b.toNat * 256 + c.toNat
    b64Char u (n / 262144) :: b64Char u (n / 4096 % 64) :: b64Char u (n / 64 % 64) :: b64Char u (n % 64) :: b64Aux u r
  | [a, b] =>
    let n := a.toNat * 65536 + b.toNat * 256
    [b64Char u (n / 262144), b64Char u (n / 4096 % 64), b64Char u (n / 64 % 64), '=']
  | [a] =>
    let n := a.toNat * 65536
    [b64Char u (n / 262144), b64Char u (n / 4096 % 64), '=', '=']
  | [] => []

/-- `base64.b64encode(data).decode()` -/
def b64 (data : Bytes) : String := String.ofList (b64Aux false data)
/-- `base64.b64encode(data, b"-_").decode().rstrip("=")` -/
def b64url (data : Bytes) : String := String.ofList ((b64Aux true data).filter (· ≠ '='))

/-! ## headers: `CIMultiDict.__setitem__` -/

abbrev Hdrs := List (String × String)

def ciEq (a b : String) : Bool := a.toLower == b.toLower

def Hdrs.has (h : Hdrs) (k : String) : Bool := h.any (fun p => ciEq p.1 k)

/-- `headers[k] = v`: replace the first entry of that name in place and drop later ones, else append -/
def Hdrs.set (h : Hdrs) (k v : String) : Hdrs :=
  match h with
  | [] => [(k, v)]
  | p :: r => if ciEq p.1 k then (k, v) :: r.filter (fun q => !ciEq q.1 k) else p :: Hdrs.set r k v

/-! ## requests -/

inductive Body where
  | empty
  | rawform (l : List (String × Option String))
  | form (l : List (String × Option String))
  | json (j : J) (ensureAscii : Bool)
  deriving Repr, Inhabited

structure Req where
  method : String
  path : String
  params : Option (List (String × Option String)) := none
  headers : Hdrs := []
  body : Body := .empty
  deriving Repr, Inhabited

def Body.text : Body → Option String
  | .empty => none
  | .rawform l => some (formencode false l)
  | .form l => some (formencode true l)
  | .json j a => some (j.render a)

def Body.defaultType : Body → String
  | .json .. => "application/json"
  | _ => "application/x-www-form-urlencoded"

/-- the header list after `encode_body()` ran (what goes on the wire) -/
def Req.wireHeaders (r : Req) : Hdrs :=
  match r.body.text with
  | none => r.headers
  | some t =>
    let h := if r.headers.has "Content-Type" then r.headers else r.headers.set "Content-Type" r.body.defaultType
    let n := t.utf8ByteSize
    let h := if n > 0 then h.set "Content-Length" (dec n) else h
    if n > 1024 then h.set "Expect" "100-continue" else h

def Req.startLine (r : Req) : String :=
  let p := match r.params with
    | none => r.path
    | some l => r.path ++ "?" ++ formencode true l
  r.method ++ " " ++ p ++ " HTTP/1.1"

/-- `HTTPRequest.encode()` as text (the bytes are its UTF-8 encoding) -/
def Req.encode (r : Req) : String :=
  "\r\n".intercalate (r.startLine :: r.wireHeaders.map fun (k, v) => k ++ ": " ++ v) ++ "\r\n\r\n" ++
    (r.body.text.getD "")

/-! ## the *shape* of a request: what `C18` says may change only at version boundaries -/

def Body.keys : Body → List String
  | .empty => []
  | .rawform l => l.map (·.1)
  | .form l => l.map (·.1)
  | .json (.obj l) _ => l.map (·.1)
  | .json (.arr l) _ => l.map fun
      | .obj f => (match f.find? (·.1 == "path") with | some (_, .str p) => p | _ => "?")
      | _ => "?"
  | .json _ _ => []

structure Shape where
  method : String
  headerNames : List String
  paramKeys : List String
  bodyKeys : List String
  deriving DecidableEq, Repr

def Req.shape (r : Req) : Shape :=
  { method := r.method, headerNames := r.headers.map (·.1),
    paramKeys := (r.params.getD []).map (·.1), bodyKeys := r.body.keys }

end Nx.Http
