import NxModel.Nex.SchemaInventory
namespace Nx.Schema.Inv

theorem missing_nil_iff (a b : List Nat) : (missing a b).isEmpty = true ↔ ∀ x ∈ a, x ∈ b := by
  simp [missing, List.isEmpty_iff, List.filter_eq_nil_iff]

theorem inventoryOK_iff (p m d : List Nat) (h : inventoryOK p m d = true) :
    (∀ x, x ∈ p ↔ x ∈ m) ∧ (∀ x, x ∈ p ↔ x ∈ d) := by
  simp only [inventoryOK, Bool.and_eq_true] at h
  obtain ⟨⟨⟨⟨⟨⟨h1, h2⟩, h3⟩, h4⟩, _⟩, _⟩, _⟩ := h
  rw [missing_nil_iff] at h1 h2 h3 h4
  exact ⟨fun x => ⟨h1 x, h2 x⟩, fun x => ⟨h3 x, h4 x⟩⟩

theorem orphan_breaks (p m d : List Nat) (x : Nat) (hx : x ∈ d) (hp : x ∉ p) : inventoryOK p m d = false := by
  cases h : inventoryOK p m d with
  | false => rfl
  | true => exact absurd (((inventoryOK_iff p m d h).2 x).mpr hx) hp

/-- read for ONE generator run into empty output directories (`m`, `d` = names of the modules and pages it wrote):
    every definition got both of its files from this run, and the run wrote nothing else -/
theorem run_complete (p m d : List Nat) (h : inventoryOK p m d = true) :
    (∀ x ∈ p, x ∈ m ∧ x ∈ d) ∧ (∀ x, x ∈ m ∨ x ∈ d → x ∈ p) := by
  obtain ⟨hm, hd⟩ := inventoryOK_iff p m d h
  exact ⟨fun x hx => ⟨(hm x).mp hx, (hd x).mp hx⟩, fun x hx => hx.elim (hm x).mpr (hd x).mpr⟩

/-- a definition for which the run wrote no module, or no page, makes the obligation fail -/
theorem unwritten_breaks (p m d : List Nat) (x : Nat) (hx : x ∈ p) (hw : x ∉ m ∨ x ∉ d) : inventoryOK p m d = false := by
  cases h : inventoryOK p m d with
  | false => rfl
  | true =>
    have := (run_complete p m d h).1 x hx
    exact hw.elim (fun k => absurd this.1 k) (fun k => absurd this.2 k)

end Nx.Schema.Inv
