import NxModel.Api.Wire
/-! lemmas about `NxModel/Api/Wire.lean`: what the RMC layer does to the caller's `nex.*` settings, and that the settings are visible in
the bodies it writes (length arguments: a structure header is 5 bytes per level, a pid 4 or 8 bytes, the server time 8 bytes) -/
namespace Nx.Api.Wire
open Nx Nx.Nex

/-! ## the adjustment of `RMCClient.__init__` -/

theorem rmcSettings_below (m : Nat) (c : NexCfg) (h : m < 3) : rmcSettings m c = c := by
  unfold rmcSettings; rw [if_neg (by omega)]

theorem rmcSettings_from3 (m : Nat) (c : NexCfg) (h : 3 ≤ m) : rmcSettings m c = { c with structHeader := true } := by
  unfold rmcSettings; rw [if_pos h]

theorem rmcSettings_header_kept (m : Nat) (c : NexCfg) (h : c.structHeader = true) : (rmcSettings m c).structHeader = true := by
  unfold rmcSettings; split <;> simp [h]

theorem rmcSettings_others (m : Nat) (c : NexCfg) :
    (rmcSettings m c).pidSize = c.pidSize ∧ (rmcSettings m c).version = c.version ∧ (rmcSettings m c).clientVersion = c.clientVersion := by
  unfold rmcSettings; split <;> simp

theorem negotiatedMinor_v0 (a b : Nat) : negotiatedMinor .v0 a b = 0 := rfl

theorem negotiatedMinor_le (k : Kind) (a b : Nat) : negotiatedMinor k a b ≤ a ∧ negotiatedMinor k a b ≤ b := by
  cases k <;> simp [negotiatedMinor] <;> omega

/-! ## lengths -/

theorem wU8_len {n : Nat} {b : Bytes} (h : wU8 n = .ok b) : b.length = 1 := by
  unfold wU8 at h; split at h <;> simp [u8] at h; subst h; rfl

theorem wU16_len {n : Nat} {b : Bytes} (h : wU16 n = .ok b) : b.length = 2 := by
  unfold wU16 at h; split at h <;> simp [u16le] at h; subst h; rfl

theorem wU32_len {n : Nat} {b : Bytes} (h : wU32 n = .ok b) : b.length = 4 := by
  unfold wU32 at h; split at h <;> simp [u32le] at h; subst h; rfl

theorem wU64_len {n : Nat} {b : Bytes} (h : wU64 n = .ok b) : b.length = 8 := by
  unfold wU64 at h; split at h <;> simp [u64le, u32le] at h; subst h; rfl

theorem wPid_len {s n : Nat} {b : Bytes} (h : wPid s n = .ok b) : b.length = if s = 8 then 8 else 4 := by
  unfold wPid at h
  split at h
  · simp [*, wU64_len h]
  · simp [*, wU32_len h]

theorem bind_ok' {α β : Type} {x : Except Err α} {f : α → Except Err β} {b : β} (h : x >>= f = .ok b) : ∃ a, x = .ok a ∧ f a = .ok b := by
  cases x with
  | error e => simp [bind, Except.bind] at h
  | ok a => exact ⟨a, rfl, h⟩

theorem wBuffer_len {d b : Bytes} (h : wBuffer d = .ok b) : b.length = d.length + 4 := by
  unfold wBuffer at h
  obtain ⟨l, hl, h⟩ := bind_ok' h
  simp [pure, Except.pure] at h; subst h
  simp [wU32_len hl]; omega

/-- a level with a header is 5 bytes longer than its body -/
theorem wStructLevel_true_len {v : Nat} {body b : Bytes} (h : wStructLevel true v body = .ok b) : b.length = body.length + 5 := by
  unfold wStructLevel at h
  simp only [if_true] at h
  obtain ⟨x, hx, h⟩ := bind_ok' h
  obtain ⟨y, hy, h⟩ := bind_ok' h
  simp [pure, Except.pure] at h; subst h
  simp [wU8_len hx, wBuffer_len hy]; omega

theorem wStructLevel_false (v : Nat) (body : Bytes) : wStructLevel false v body = .ok body := by
  simp [wStructLevel]

theorem wAnyData_len {name : Option String} {p b : Bytes} (h : wAnyData name p = .ok b) :
    ∃ n, wString name = .ok n ∧ b.length = n.length + 8 + p.length := by
  unfold wAnyData at h
  obtain ⟨n, hn, h⟩ := bind_ok' h
  obtain ⟨l, hl, h⟩ := bind_ok' h
  obtain ⟨q, hq, h⟩ := bind_ok' h
  simp [pure, Except.pure] at h; subst h
  exact ⟨n, hn, by simp [wU32_len hl, wBuffer_len hq]; omega⟩

theorem cat_nil : cat [] = .ok [] := rfl

theorem cat_cons_ok {x : Except Err Bytes} {xs : List (Except Err Bytes)} {b : Bytes} (h : cat (x :: xs) = .ok b) :
    ∃ a r, x = .ok a ∧ cat xs = .ok r ∧ b = a ++ r := by
  unfold cat at h
  obtain ⟨a, ha, h⟩ := bind_ok' h
  obtain ⟨r, hr, h⟩ := bind_ok' h
  simp [pure, Except.pure] at h
  exact ⟨a, r, ha, hr, h.symm⟩

/-! ## nex.struct_header on the wire -/

/-- `AuthenticationInfo` (two levels): with headers the encoding is 10 bytes longer -/
theorem wAuthInfo_header_len (c : NexCfg) (token : String) (ngs ttype sver : Nat) {x y : Bytes}
    (hx : wAuthInfo { c with structHeader := false } token ngs ttype sver = .ok x)
    (hy : wAuthInfo { c with structHeader := true } token ngs ttype sver = .ok y) : y.length = x.length + 10 := by
  unfold wAuthInfo at hx hy
  obtain ⟨a0, r0, ha0, hr0, rfl⟩ := cat_cons_ok hx
  obtain ⟨b0, s0, hb0, hs0, rfl⟩ := cat_cons_ok hr0
  obtain ⟨a1, r1, ha1, hr1, rfl⟩ := cat_cons_ok hy
  obtain ⟨b1, s1, hb1, hs1, rfl⟩ := cat_cons_ok hr1
  simp only [cat_nil, Except.ok.injEq] at hs0 hs1
  subst hs0 hs1
  -- level 1 (Data): empty body
  simp only [wLevel, bind, Except.bind, wStructLevel_false] at ha0 ha1
  simp only [Except.ok.injEq] at ha0; subst ha0
  have l1 := wStructLevel_true_len ha1
  -- level 2
  simp only [wLevel] at hb0 hb1
  obtain ⟨body, hbody, hb0⟩ := bind_ok' hb0
  rw [hbody] at hb1
  simp only [bind, Except.bind] at hb1
  rw [wStructLevel_false] at hb0
  simp only [Except.ok.injEq] at hb0; subst hb0
  have l2 := wStructLevel_true_len hb1
  simp [l1, l2]; omega

/-- `login_ex(user, AuthenticationInfo)`: the two values of `nex.struct_header` give request bodies of different length -/
theorem reqLoginEx_header_len (c : NexCfg) (user token : String) {x y : Bytes}
    (hx : reqLoginEx { c with structHeader := false } user token = .ok x)
    (hy : reqLoginEx { c with structHeader := true } user token = .ok y) : y.length = x.length + 10 := by
  unfold reqLoginEx at hx hy
  obtain ⟨u0, r0, hu0, hr0, rfl⟩ := cat_cons_ok hx
  obtain ⟨h0, s0, hh0, hs0, rfl⟩ := cat_cons_ok hr0
  obtain ⟨u1, r1, hu1, hr1, rfl⟩ := cat_cons_ok hy
  obtain ⟨h1, s1, hh1, hs1, rfl⟩ := cat_cons_ok hr1
  simp only [cat_nil, Except.ok.injEq] at hs0 hs1
  subst hs0 hs1
  rw [hu0] at hu1; simp only [Except.ok.injEq] at hu1; subst hu1
  unfold wHolder at hh0 hh1
  obtain ⟨p0, hp0, hh0⟩ := bind_ok' hh0
  obtain ⟨p1, hp1, hh1⟩ := bind_ok' hh1
  have hp := wAuthInfo_header_len c token 3 1 0 hp0 hp1
  obtain ⟨n0, hn0, l0⟩ := wAnyData_len hh0
  obtain ⟨n1, hn1, l1⟩ := wAnyData_len hh1
  rw [hn0] at hn1; simp only [Except.ok.injEq] at hn1; subst hn1
  simp [l0, l1, hp]; omega

theorem reqLoginEx_header_ne (c : NexCfg) (user token : String) {x y : Bytes}
    (hx : reqLoginEx { c with structHeader := false } user token = .ok x)
    (hy : reqLoginEx { c with structHeader := true } user token = .ok y) : x ≠ y := by
  intro h
  have := reqLoginEx_header_len c user token hx hy
  rw [h] at this; omega

/-! ## nex.pid_size on the wire -/

theorem reqTicket_len (c : NexCfg) (a b : Nat) {x : Bytes} (h : reqTicket c a b = .ok x) : x.length = if c.pidSize = 8 then 16 else 8 := by
  unfold reqTicket at h
  obtain ⟨p, r, hp, hr, rfl⟩ := cat_cons_ok h
  obtain ⟨q, s, hq, hs, rfl⟩ := cat_cons_ok hr
  simp only [cat_nil, Except.ok.injEq] at hs; subst hs
  have := wPid_len hp; have := wPid_len hq
  split <;> simp_all

/-! ## nex.version on the wire (through `RVConnectionData`) -/

theorem cat_append_ok {l m : List (Except Err Bytes)} {b : Bytes} (h : cat (l ++ m) = .ok b) :
    ∃ a r, cat l = .ok a ∧ cat m = .ok r ∧ b = a ++ r := by
  induction l generalizing b with
  | nil => exact ⟨[], b, rfl, h, rfl⟩
  | cons x xs ih =>
    obtain ⟨a, r, ha, hr, rfl⟩ := cat_cons_ok (by simpa using h)
    obtain ⟨a', r', ha', hr', rfl⟩ := ih hr
    refine ⟨a ++ a', r', ?_, hr', by simp⟩
    unfold cat; rw [ha, ha']; rfl

/-- with structure headers, `RVConnectionData` of NEX >= 3.5.0 carries the server time: 8 bytes more than below 3.5.0 -/
theorem wConnData_version_len (c : NexCfg) (lo hi : Nat) (hlo : lo < 30500) (hhi : 30500 ≤ hi) (main special : String)
    (protocols : List Nat) (time : Nat) {x y : Bytes}
    (hx : wConnData { c with structHeader := true, version := lo } main special protocols time = .ok x)
    (hy : wConnData { c with structHeader := true, version := hi } main special protocols time = .ok y) : y.length = x.length + 8 := by
  unfold wConnData wLevel at hx hy
  have e1 : ¬ lo ≥ 30500 := by omega
  simp only [e1, hhi, ge_iff_le, if_true, if_false, false_and, true_and, Nat.le_refl, List.append_nil] at hx hy
  obtain ⟨bx, hbx, hx⟩ := bind_ok' hx
  obtain ⟨by', hby, hy⟩ := bind_ok' hy
  obtain ⟨a, r, ha, hr, rfl⟩ := cat_append_ok hby
  rw [hbx] at ha; simp only [Except.ok.injEq] at ha; subst ha
  obtain ⟨d, s, hd, hs, rfl⟩ := cat_cons_ok hr
  simp only [cat_nil, Except.ok.injEq] at hs; subst hs
  have := wStructLevel_true_len hx
  have := wStructLevel_true_len hy
  have := wU64_len (show wU64 time = .ok d from hd)
  simp_all

/-- … and without headers `save` is handed version 0, so `nex.version` does not show in `RVConnectionData` (common.py:89) -/
theorem wConnData_version_without_header (c : NexCfg) (v w : Nat) (main special : String) (protocols : List Nat) (time : Nat) :
    wConnData { c with structHeader := false, version := v } main special protocols time =
    wConnData { c with structHeader := false, version := w } main special protocols time := by
  simp [wConnData, wLevel, wStructLevel_false]

/-! ## nex.version / nex.client_version through `BackEndClient.login` -/

theorem reqBackendLogin_method (c : NexCfg) (user token : String) :
    (reqBackendLogin c user token).1 = if c.version < 40400 then 2 else 6 := by
  unfold reqBackendLogin
  split
  · have : c.version < 40400 := by omega
    simp [this]
  · split <;> simp [*]

end Nx.Api.Wire
