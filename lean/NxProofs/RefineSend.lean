import NxProofs.Refine
/-! C01: the send path of the L1 endpoint refines the L2 sender — `send(data, substream)` emits, fragment by fragment, the
wires `wiresOf (cipher) (next id) (encryption position) (split size data)`; an exception or a dead link can only cut the
emission short (a prefix), never alter it. -/
namespace Nx.L1
open Nx Nx.Prudp Nx.Chan Nx.Crypto

/-- the packets handed to the transport by a step -/
def emitted (r : R) : List Packet := r.outs.filterMap (fun o => match o with | .emit _ p _ => some p | _ => none)

/-- the sender-side state of substream `sub` the L2 sender tracks: next sequence id and encryption position -/
structure SRel (c : Conn) (sub : Nat) (nextId encPos : Nat) : Prop where
  ctr : c.counters[sub]? = some nextId
  ciph : ∃ sc, c.relCiphers[sub]? = some sc ∧ (c.cipherOn = true → sc.encPos = encPos)

def dataPacket (sub : Nat) (f : Frag) : Packet :=
  { mkPacket TYPE_DATA (FLAG_RELIABLE + FLAG_NEED_ACK + FLAG_HAS_SIZE) with fragmentId := f.fragId, substreamId := sub, payload := f.data }

theorem cleanup_emits_nothing (c : Conn) : emitted c.cleanup = [] := by
  unfold emitted Conn.cleanup R.ok
  simp only []
  cases c.eof <;> cases c.waitingHandshake <;> rfl

/-- `transport.send` + timer arming: what is emitted, and that the sender-side bookkeeping is untouched -/
theorem transmit_emit (env : Env) (now : Time) (c : Conn) (p : Packet) :
    ((emitted (c.transmit env now p) = [] ∧ ((c.transmit env now p).err.isSome ∨ c.linkUp = false)) ∨
     (emitted (c.transmit env now p) = [p] ∧ (c.transmit env now p).err = none ∧ c.linkUp = true)) ∧
    (c.transmit env now p).c.counters = c.counters ∧ (c.transmit env now p).c.relCiphers = c.relCiphers ∧
    (c.transmit env now p).c.cipherOn = c.cipherOn ∧ (c.transmit env now p).c.linkUp = c.linkUp := by
  unfold Conn.transmit
  cases hl : c.linkUp with
  | false =>
    simp only [Bool.not_false, if_true]
    exact ⟨Or.inl ⟨cleanup_emits_nothing c, Or.inr trivial⟩, rfl, rfl, rfl, hl⟩
  | true =>
    simp only [Bool.not_true, Bool.false_eq_true, if_false]
    cases encodeChecked env.cfg p with
    | error e => exact ⟨Or.inl ⟨rfl, Or.inl rfl⟩, rfl, rfl, rfl, hl⟩
    | ok data =>
      simp only []
      refine ⟨Or.inr ⟨rfl, rfl, trivial⟩, ?_, ?_, ?_, ?_⟩ <;>
      · split
        · unfold Conn.arm; cases c.sched <;> simp [R.ok, hl]
        · simp [R.ok, hl]

/-- `send_packet` of a DATA fragment, decomposed: id from the substream's counter, payload through the substream's cipher at its
    position (not for an empty payload), then `transmit` -/
theorem sendPacket_fragment_eq (env : Env) (now : Time) (sub : Nat) (c : Conn) (f : Frag)
    (n pos : Nat) (hs : SRel c sub n pos) :
    ∃ (q : Packet) (c2 : Conn), c.sendPacket env now (dataPacket sub f) = c2.transmit env now q ∧
      wireOf q = ⟨n, .data f.fragId, if f.data.isEmpty then f.data else (wrap env (cipherOf c sub)).enc pos f.data⟩ ∧
      SRel c2 sub (seqNext n) (pos + (if f.data.isEmpty then f.data else (wrap env (cipherOf c sub)).enc pos f.data).length) ∧
      cipherOf c2 sub = cipherOf c sub ∧ c2.linkUp = c.linkUp := by
  obtain ⟨hctr, sc, hsc, hpos⟩ := hs
  have hrel : hasReliable (FLAG_RELIABLE + FLAG_NEED_ACK + FLAG_HAS_SIZE) = true := by decide
  have hack : (hasAck (FLAG_RELIABLE + FLAG_NEED_ACK + FLAG_HAS_SIZE) || hasMultiAck (FLAG_RELIABLE + FLAG_NEED_ACK + FLAG_HAS_SIZE)) = false := by decide
  have hne : TYPE_DATA ≠ TYPE_SYN := by decide
  have hlt : sub < c.counters.length := by
    cases h : c.counters[sub]? with
    | none => rw [h] at hctr; cases hctr
    | some x => exact (List.getElem?_eq_some_iff.mp h).1
  have hlt2 : sub < c.relCiphers.length := by
    cases h : c.relCiphers[sub]? with
    | none => rw [h] at hsc; cases hsc
    | some x => exact (List.getElem?_eq_some_iff.mp h).1
  simp only [Conn.sendPacket, dataPacket, mkPacket, hack, Conn.assignIf, Bool.false_eq_true, if_false, Conn.assign, hrel, if_true, hctr,
    hne, ne_eq, not_false_eq_true, Conn.encodeIf, Bool.not_false, and_true, Conn.encodePayload]
  by_cases hemp : f.data.isEmpty = true
  · simp only [hemp, Bool.not_true, Bool.false_eq_true, and_false, if_false, if_true]
    have hlen : f.data.length = 0 := by simpa using hemp
    refine ⟨_, _, rfl, ?_, ⟨get_set_self _ _ _ hlt, sc, hsc, fun h => by rw [hlen]; exact hpos h⟩, rfl, rfl⟩
    simp [wireOf, kindOf]
  · have hemp' : f.data.isEmpty = false := by simpa using hemp
    simp only [hemp', Bool.not_false, and_self, if_true, Bool.false_eq_true, if_false, hsc]
    cases hon : c.cipherOn with
    | true =>
      simp only [if_true]
      have hp := hpos hon
      refine ⟨_, _, rfl, ?_, ⟨get_set_self _ _ _ hlt, _, get_set_self _ _ _ hlt2, fun _ => ?_⟩, ?_, rfl⟩
      · simp [wireOf, kindOf, wrap, cipherOf, hsc, hon, hp]
      · simp only [wrap, cipherOf, hsc, hon, if_true, Option.map, Option.getD]
        rw [rc4At_length, hp]
      · simp only [cipherOf, setAt, List.getElem?_set, hlt2, hsc, hon, if_true, Option.map]
    | false =>
      simp only [Bool.false_eq_true, if_false]
      refine ⟨_, _, rfl, ?_, ⟨get_set_self _ _ _ hlt, sc, hsc, fun h => by cases h⟩, by simp only [cipherOf, hon], rfl⟩
      simp [wireOf, kindOf, wrap, cipherOf, hon]

theorem emitted_append (a b : List Out) :
    (a ++ b).filterMap (fun o => match o with | .emit _ p _ => some p | _ => none) =
    a.filterMap (fun o => match o with | .emit _ p _ => some p | _ => none) ++ b.filterMap (fun o => match o with | .emit _ p _ => some p | _ => none) :=
  List.filterMap_append

theorem emitted_bind_ok (r : R) (f : Conn → R) (h : r.err = none) : emitted (r.bind f) = emitted r ++ emitted (f r.c) := by
  unfold R.bind emitted; rw [h]; simp only []; exact emitted_append _ _

theorem emitted_bind_err (r : R) (f : Conn → R) (e : Err) (h : r.err = some e) : emitted (r.bind f) = emitted r := by
  unfold R.bind; rw [h]

theorem bind_err_of_err (r : R) (f : Conn → R) (e : Err) (h : r.err = some e) : (r.bind f).err = some e := by
  unfold R.bind; rw [h]; exact h

theorem bind_ok (r : R) (f : Conn → R) (h : r.err = none) : (r.bind f).err = (f r.c).err ∧ (r.bind f).c = (f r.c).c := by
  unfold R.bind; rw [h]; exact ⟨rfl, rfl⟩

theorem srel_transmit (env : Env) (now : Time) (c : Conn) (q : Packet) (sub n pos : Nat) (h : SRel c sub n pos) :
    SRel (c.transmit env now q).c sub n pos ∧ cipherOf (c.transmit env now q).c sub = cipherOf c sub := by
  have hf := (transmit_emit env now c q).2
  refine ⟨⟨by rw [hf.1]; exact h.ctr, ?_⟩, by simp only [cipherOf]; rw [hf.2.1, hf.2.2.1]⟩
  obtain ⟨sc, h1, h2⟩ := h.ciph
  exact ⟨sc, by rw [hf.2.1]; exact h1, by rw [hf.2.2.1]; exact h2⟩

theorem sendFrags_cons (env : Env) (now : Time) (sub : Nat) (f : Frag) (fs : List Frag) (c : Conn) :
    Conn.sendFrags env now sub (f :: fs) c = (c.sendPacket env now (dataPacket sub f)).bind (Conn.sendFrags env now sub fs) := rfl

/-- with the link down nothing is emitted any more -/
theorem sendFrags_linkdown (env : Env) (now : Time) (sub : Nat) :
    ∀ (fs : List Frag) (c : Conn) (n pos : Nat), SRel c sub n pos → c.linkUp = false →
      emitted (Conn.sendFrags env now sub fs c) = [] ∧ (Conn.sendFrags env now sub fs c).c.linkUp = false := by
  intro fs
  induction fs with
  | nil => intro c n pos _ hl; exact ⟨rfl, hl⟩
  | cons f fs ih =>
    intro c n pos hs hl
    obtain ⟨q, c2, heq, _, hs2, _, hl2⟩ := sendPacket_fragment_eq env now sub c f n pos hs
    rw [sendFrags_cons, heq]
    have ht := transmit_emit env now c2 q
    have hl2' : c2.linkUp = false := by rw [hl2]; exact hl
    have hem : emitted (c2.transmit env now q) = [] := by
      rcases ht.1 with h | h
      · exact h.1
      · rw [hl2'] at h; cases h.2.2
    have hlr : (c2.transmit env now q).c.linkUp = false := by rw [ht.2.2.2.2]; exact hl2'
    cases he : (c2.transmit env now q).err with
    | some e => rw [emitted_bind_err _ _ e he]; unfold R.bind; rw [he]; exact ⟨hem, hlr⟩
    | none =>
      rw [emitted_bind_ok _ _ he, hem, (bind_ok _ _ he).2]
      have := ih _ _ _ (srel_transmit env now c2 q sub _ _ hs2).1 hlr
      exact ⟨by simpa using this.1, this.2⟩

/-- **the fragment loop of `send` refines the L2 sender**: what is handed to the transport projects to a prefix of
    `wiresOf cipher nextId encPos frags`, and to all of it when no exception occurred and the link is still up -/
theorem sendFrags_refines (env : Env) (now : Time) (sub : Nat) :
    ∀ (fs : List Frag) (c : Conn) (n pos : Nat), SRel c sub n pos →
      (emitted (Conn.sendFrags env now sub fs c)).map wireOf <+: wiresOf (wrap env (cipherOf c sub)) n pos fs ∧
      ((Conn.sendFrags env now sub fs c).err = none → (Conn.sendFrags env now sub fs c).c.linkUp = true →
        (emitted (Conn.sendFrags env now sub fs c)).map wireOf = wiresOf (wrap env (cipherOf c sub)) n pos fs ∧
        SRel (Conn.sendFrags env now sub fs c).c sub (iterSeq fs.length n) (pos + wiresLen (wiresOf (wrap env (cipherOf c sub)) n pos fs))) := by
  intro fs
  induction fs with
  | nil =>
    intro c n pos hs
    exact ⟨by simp [Conn.sendFrags, emitted, R.ok, wiresOf], fun _ _ => ⟨by simp [Conn.sendFrags, emitted, R.ok, wiresOf], by simpa [iterSeq, wiresOf, wiresLen, Conn.sendFrags, R.ok] using hs⟩⟩
  | cons f fs ih =>
    intro c n pos hs
    obtain ⟨q, c2, heq, hwire, hs2, hc2, hl2⟩ := sendPacket_fragment_eq env now sub c f n pos hs
    rw [sendFrags_cons, heq]
    have ht := transmit_emit env now c2 q
    have hst := srel_transmit env now c2 q sub _ _ hs2
    simp only [wiresOf]
    cases he : (c2.transmit env now q).err with
    | some e =>
      rw [emitted_bind_err _ _ e he]
      have hem : emitted (c2.transmit env now q) = [] := by
        rcases ht.1 with h | h
        · exact h.1
        · rw [he] at h; cases h.2.1
      rw [hem]
      exact ⟨by simp, fun hn => by rw [bind_err_of_err _ _ e he] at hn; cases hn⟩
    | none =>
      rw [emitted_bind_ok _ _ he, (bind_ok _ _ he).1, (bind_ok _ _ he).2]
      rcases ht.1 with h | h
      · -- nothing emitted without an exception: the link is down
        have hld : c2.linkUp = false := by
          rcases h.2 with h' | h'
          · rw [he] at h'; cases h'
          · exact h'
        have hlr : (c2.transmit env now q).c.linkUp = false := by rw [ht.2.2.2.2]; exact hld
        have hd := sendFrags_linkdown env now sub fs _ _ _ hst.1 hlr
        rw [h.1, hd.1]
        exact ⟨by simp, fun _ hup => by rw [hd.2] at hup; cases hup⟩
      · have hih := ih (c2.transmit env now q).c (seqNext n) _ hst.1
        rw [hst.2, hc2] at hih
        rw [h.1]
        simp only [List.cons_append, List.nil_append, List.map_cons, hwire]
        refine ⟨?_, fun hn hup => ?_⟩
        · exact List.prefix_cons_inj _ |>.mpr hih.1
        · have := hih.2 hn hup
          refine ⟨by rw [this.1], ?_⟩
          simpa [iterSeq, wiresLen, Nat.add_assoc] using this.2

/-- **`send(data, substream)` refines `Sender.send`**: the emitted packets project to (a prefix of) exactly the wires the L2 sender
    appends to its log for this message — same ids, same fragment ids, same ciphertext at the same cipher positions -/
theorem send_refines (env : Env) (now : Time) (c : Conn) (data : Bytes) (sub n pos : Nat)
    (hs : SRel c sub n pos) :
    (emitted (c.send env now data sub)).map wireOf <+: wiresOf (wrap env (cipherOf c sub)) n pos (split c.fragmentSize data) ∧
    ((c.send env now data sub).err = none → (c.send env now data sub).c.linkUp = true →
      (emitted (c.send env now data sub)).map wireOf = wiresOf (wrap env (cipherOf c sub)) n pos (split c.fragmentSize data) ∧
      SRel (c.send env now data sub).c sub (iterSeq (split c.fragmentSize data).length n)
        (pos + wiresLen (wiresOf (wrap env (cipherOf c sub)) n pos (split c.fragmentSize data)))) := by
  unfold Conn.send
  split
  · exact ⟨by simp [emitted, R.fail], fun h => by simp [R.fail] at h⟩
  · split
    · exact ⟨by simp [emitted, R.fail], fun h => by simp [R.fail] at h⟩
    · exact sendFrags_refines env now sub _ c n pos hs

end Nx.L1
