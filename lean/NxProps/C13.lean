import NxProofs.Schema
namespace Nx.C13
open Nx Nx.Schema
theorem placeholder : builtins.length = 3 := rfl
end Nx.C13
