"""C20 translator (code side): what the modules of the library really define.

Two independent views of the same thing:
  * ast view      parse <repo>/nintendo/... with `ast`: module-level functions / classes, methods of every
                  class (own and inherited through bases defined in the repo), decorators, parameters.
  * inspect view  importlib.import_module + inspect.signature on the imported objects.
`self_check` compares them; any disagreement means the translator (or an exotic construct in the code)
can no longer be trusted and is reported by the harness as a broken correspondence.

A callable is described by
  {module, cls, kind, name, decorator, params:[{name, has_default, kwonly}], varargs, varkw, line, origin}
kind: "def" | "async def" | "async with" (contextlib.asynccontextmanager) | "class" | "property"
`self`/`cls` are dropped for methods / classmethods.
"""
import ast, importlib, inspect, os, sys

REPO_DEFAULT = os.environ.get("NX_REPO", "/repo")


# ------------------------------------------------------------------ ast view

def module_file(repo, module):
    base = os.path.join(repo, *module.split("."))
    for cand in (base + ".py", os.path.join(base, "__init__.py")):
        if os.path.isfile(cand):
            return cand
    return None


def _dotted(node):
    if isinstance(node, ast.Name):
        return node.id
    if isinstance(node, ast.Attribute):
        b = _dotted(node.value)
        return None if b is None else b + "." + node.attr
    return None


def _func_info(node, in_class):
    decorator, kind = "", ("async def" if isinstance(node, ast.AsyncFunctionDef) else "def")
    extra = []
    for d in node.decorator_list:
        dn = _dotted(d.func if isinstance(d, ast.Call) else d) or "?"
        if dn in ("classmethod", "staticmethod"):
            decorator = dn
        elif dn == "property" or dn.endswith(".setter") or dn.endswith(".getter") or dn.endswith(".deleter"):
            kind = "property"
        elif dn in ("contextlib.asynccontextmanager", "asynccontextmanager"):
            kind = "async with"
        elif dn in ("contextlib.contextmanager", "contextmanager"):
            kind = "with"
        else:
            extra.append(dn)
    a = node.args
    pos = list(a.posonlyargs) + list(a.args)
    ndef = len(a.defaults)
    params = []
    for i, p in enumerate(pos):
        params.append({"name": p.arg, "has_default": i >= len(pos) - ndef, "kwonly": False})
    if in_class and decorator != "staticmethod" and params:
        params = params[1:]        # self / cls
    for p, d in zip(a.kwonlyargs, a.kw_defaults):
        params.append({"name": p.arg, "has_default": d is not None, "kwonly": True})
    return {"kind": kind, "raw_kind": kind, "via": None, "decorator": decorator, "params": params,
            "varargs": a.vararg is not None, "varkw": a.kwarg is not None, "line": node.lineno,
            "other_decorators": extra, "posonly": len(a.posonlyargs),
            "delegates_to": _delegation(node, in_class and decorator != "staticmethod")}


def _delegation(node, bound):
    """name N when the whole body of a plain `def` is `return self.N(...)` (method) / `return N(...)` (function):
    such a function returns whatever N returns, e.g. the async context manager of an `async with` method."""
    if not isinstance(node, ast.FunctionDef):
        return None
    body = [n for n in node.body
            if not (isinstance(n, ast.Expr) and isinstance(n.value, ast.Constant) and isinstance(n.value.value, str))]
    if len(body) != 1 or not isinstance(body[0], ast.Return) or not isinstance(body[0].value, ast.Call):
        return None
    f = body[0].value.func
    if bound:
        if node.args.args and isinstance(f, ast.Attribute) and isinstance(f.value, ast.Name) and f.value.id == node.args.args[0].arg:
            return f.attr
        return None
    return f.id if isinstance(f, ast.Name) else None


def _apply_delegation(table):
    """a plain def that only forwards to an `async with` / `async def` callable of the same scope is awaited /
    entered exactly like its target: give it the target's kind (raw_kind keeps what the source says)"""
    for name, fi in table.items():
        t = fi.get("delegates_to")
        if fi["kind"] == "def" and t and t != name and t in table and table[t]["raw_kind"] in ("async with", "async def"):
            fi["kind"], fi["via"] = table[t]["raw_kind"], t


def _walk_defs(body):
    """definitions at this level, looking through if/try/with blocks (conditional definitions)"""
    for n in body:
        if isinstance(n, (ast.FunctionDef, ast.AsyncFunctionDef, ast.ClassDef, ast.Import, ast.ImportFrom, ast.Assign, ast.AnnAssign, ast.AugAssign)):
            yield n
        elif isinstance(n, ast.If):
            yield from _walk_defs(n.body); yield from _walk_defs(n.orelse)
        elif isinstance(n, ast.Try):
            yield from _walk_defs(n.body)
            for h in n.handlers: yield from _walk_defs(h.body)
            yield from _walk_defs(n.orelse); yield from _walk_defs(n.finalbody)
        elif isinstance(n, (ast.With, ast.For, ast.While)):
            yield from _walk_defs(n.body)


def _targets(n):
    ts = n.targets if isinstance(n, ast.Assign) else [n.target]
    for t in ts:
        if isinstance(t, ast.Name):
            yield t.id
        elif isinstance(t, (ast.Tuple, ast.List)):
            for e in t.elts:
                if isinstance(e, ast.Name):
                    yield e.id


def _self_attrs(fn):
    res = set()
    if not fn.args.args:
        return res
    me = fn.args.args[0].arg
    for n in ast.walk(fn):
        if isinstance(n, (ast.Assign, ast.AnnAssign, ast.AugAssign)):
            ts = n.targets if isinstance(n, ast.Assign) else [n.target]
            for t in ts:
                for e in (t.elts if isinstance(t, (ast.Tuple, ast.List)) else [t]):
                    if isinstance(e, ast.Attribute) and isinstance(e.value, ast.Name) and e.value.id == me:
                        res.add(e.attr)
    return res


class ModuleAst:
    def __init__(self, repo, module):
        self.repo, self.module = repo, module
        self.file = module_file(repo, module)
        self.funcs, self.classes, self.imports, self.consts = {}, {}, {}, set()
        self.error = None
        if self.file is None:
            self.error = "no source file for %s under %s" % (module, repo)
            return
        try:
            tree = ast.parse(open(self.file, encoding="utf-8").read(), self.file)
        except SyntaxError as e:
            self.error = "syntax error: %s" % e
            return
        is_pkg = os.path.basename(self.file) == "__init__.py"
        pkg = module if is_pkg else module.rpartition(".")[0]
        for n in _walk_defs(tree.body):
            if isinstance(n, ast.Import):
                for al in n.names:
                    if al.asname:
                        self.imports[al.asname] = ("module", al.name)
                    else:
                        self.imports[al.name.split(".")[0]] = ("module", al.name.split(".")[0])
            elif isinstance(n, ast.ImportFrom):
                src = n.module or ""
                if n.level:
                    parts = pkg.split(".")
                    parts = parts[:len(parts) - (n.level - 1)]
                    src = ".".join(parts + ([src] if src else []))
                for al in n.names:
                    self.imports[al.asname or al.name] = ("from", src, al.name)
            elif isinstance(n, (ast.FunctionDef, ast.AsyncFunctionDef)):
                self.funcs[n.name] = _func_info(n, False)
            elif isinstance(n, ast.ClassDef):
                self.classes[n.name] = self._class(n)
            else:
                self.consts.update(_targets(n))

    def _class(self, node):
        methods, attrs = {}, set()
        for n in _walk_defs(node.body):
            if isinstance(n, (ast.FunctionDef, ast.AsyncFunctionDef)):
                fi = _func_info(n, True)
                if n.name in methods and fi["kind"] == "property":
                    pass                      # @x.setter after @property: keep the property
                else:
                    methods[n.name] = fi
                attrs |= _self_attrs(n)
            elif isinstance(n, (ast.Assign, ast.AnnAssign, ast.AugAssign)):
                attrs.update(_targets(n))
            elif isinstance(n, ast.ClassDef):
                attrs.add(n.name)
        return {"bases": [_dotted(b) or ast.dump(b) for b in node.bases], "methods": methods, "attrs": attrs,
                "line": node.lineno, "keywords": [k.arg for k in node.keywords]}


class AstView:
    """ast view over a repo root with base-class resolution across repo modules"""

    def __init__(self, repo=None):
        self.repo = repo or REPO_DEFAULT
        self.mods = {}

    def mod(self, module):
        if module not in self.mods:
            self.mods[module] = ModuleAst(self.repo, module)
        return self.mods[module]

    def resolve_base(self, module, expr):
        """-> ("repo", module, class) | ("external", dotted-name)"""
        m = self.mod(module)
        parts = expr.split(".")
        if len(parts) == 1:
            if expr in m.classes:
                return ("repo", module, expr)
            imp = m.imports.get(expr)
            if imp and imp[0] == "from":
                tm = self.mod(imp[1])
                if tm.file and imp[2] in tm.classes:
                    return ("repo", imp[1], imp[2])
                return ("external", imp[1] + "." + imp[2])
            return ("external", "builtins." + expr)
        head, cls = parts[:-1], parts[-1]
        imp = m.imports.get(head[0])
        if imp:
            if imp[0] == "module":
                target = ".".join([imp[1]] + head[1:])
            else:
                target = ".".join([imp[1], imp[2]] + head[1:])
            tm = self.mod(target)
            if tm.file and cls in tm.classes:
                return ("repo", target, cls)
            return ("external", target + "." + cls)
        return ("external", expr)

    def linearize(self, module, cls, _seen=None):
        """depth-first left-to-right base order (repo classes), plus the external bases met on the way.
        (Identical to the C3 MRO for the single-inheritance chains used in this library; the inspect
        cross-check would expose a difference.)"""
        order, external = [], []
        seen = _seen if _seen is not None else set()
        if (module, cls) in seen:
            return order, external
        seen.add((module, cls))
        order.append((module, cls))
        ci = self.mod(module).classes[cls]
        for b in ci["bases"]:
            r = self.resolve_base(module, b)
            if r[0] == "repo":
                o, e = self.linearize(r[1], r[2], seen)
                order += o; external += e
            else:
                external.append(r[1])
        return order, external

    def class_members(self, module, cls):
        """-> (methods {name: info+origin}, attrs set, external bases)"""
        order, external = self.linearize(module, cls)
        methods, attrs = {}, set()
        for (m, c) in order:
            ci = self.mod(m).classes[c]
            for name, fi in ci["methods"].items():
                if name not in methods:
                    d = dict(fi); d["origin"] = "%s.%s" % (m, c)
                    methods[name] = d
            attrs |= ci["attrs"]
        for ext in external:
            for name, d in external_members(ext).items():
                if name not in methods:
                    methods[name] = d
        if "__init__" not in methods:
            # nothing in the chain defines it: object.__init__, which takes no arguments
            methods["__init__"] = {"kind": "def", "raw_kind": "def", "via": None, "decorator": "", "params": [],
                                   "varargs": False, "varkw": False, "line": self.mod(module).classes[cls]["line"],
                                   "origin": "builtins.object", "delegates_to": None}
        _apply_delegation(methods)
        return methods, attrs, external

    def module_sigs(self, module):
        """every callable of a module as a flat list (see module docstring); [] and .error when missing"""
        m = self.mod(module)
        res = []
        if m.error:
            return res
        for name, fi in m.funcs.items():     # (the forwarding rule is applied to methods only: it is confirmed dynamically there)
            res.append(_entry(module, "", name, fi, module))
        for cname in m.classes:
            methods, attrs, external = self.class_members(module, cname)
            init = methods.get("__init__")
            res.append({"module": module, "cls": "", "kind": "class", "name": cname, "decorator": "",
                        "params": list(init["params"]) if init else [], "varargs": init["varargs"] if init else bool(external),
                        "varkw": init["varkw"] if init else bool(external), "line": m.classes[cname]["line"],
                        "origin": module, "external_bases": external})
            for name, fi in methods.items():
                res.append(_entry(module, cname, name, fi, fi["origin"]))
        return res

    def module_attrs(self, module):
        """{"": module-level names, cls: attribute names}"""
        m = self.mod(module)
        if m.error:
            return {}
        res = {"": set(m.consts) | set(m.funcs) | set(m.classes) | set(m.imports)}
        for cname in m.classes:
            methods, attrs, external = self.class_members(module, cname)
            res[cname] = set(attrs) | set(methods)
        return res


def _entry(module, cls, name, fi, origin):
    return {"module": module, "cls": cls, "kind": fi["kind"], "name": name, "decorator": fi["decorator"],
            "params": [dict(p) for p in fi["params"]], "varargs": fi["varargs"], "varkw": fi["varkw"],
            "line": fi["line"], "origin": origin, "raw_kind": fi.get("raw_kind", fi["kind"]), "via": fi.get("via")}


_EXT_CACHE = {}

def external_class(dotted):
    """import a base class that lives outside the repo (builtins.Exception, anynet.streams.StreamOut, …)"""
    parts = dotted.split(".")
    for i in range(len(parts) - 1, 0, -1):
        try:
            obj = importlib.import_module(".".join(parts[:i]))
        except ImportError:
            continue
        try:
            for a in parts[i:]:
                obj = getattr(obj, a)
        except AttributeError:
            return None
        return obj if inspect.isclass(obj) else None
    return None


def external_members(dotted):
    """public routines (and __init__) a class inherits from a base outside the repo, described through inspect"""
    if dotted in _EXT_CACHE:
        return _EXT_CACHE[dotted]
    res = {}
    c = external_class(dotted)
    if c is not None:
        for name in dir(c):
            if name.startswith("__") and name != "__init__":
                continue
            d = inspect_callable(c, name)
            if d is None or d["kind"] in ("value", "class") or d["params"] is None:
                continue
            d.update({"raw_kind": d["kind"], "via": None, "line": 0, "origin": "external:" + dotted, "delegates_to": None})
            res[name] = d
    _EXT_CACHE[dotted] = res
    return res


# -------------------------------------------------------------- inspect view

def import_module(module):
    """-> (module object | None, error text | None)"""
    try:
        return importlib.import_module(module), None
    except BaseException as e:      # a module of the library may fail in any way while importing
        if isinstance(e, (KeyboardInterrupt, SystemExit)):
            raise
        return None, "%s: %s" % (type(e).__name__, e)


def _sig_params(sig, drop_first):
    params, varargs, varkw = [], False, False
    ps = list(sig.parameters.values())
    if drop_first and ps and ps[0].kind in (ps[0].POSITIONAL_ONLY, ps[0].POSITIONAL_OR_KEYWORD):
        ps = ps[1:]
    for p in ps:
        if p.kind == p.VAR_POSITIONAL:
            varargs = True
        elif p.kind == p.VAR_KEYWORD:
            varkw = True
        else:
            params.append({"name": p.name, "has_default": p.default is not p.empty, "kwonly": p.kind == p.KEYWORD_ONLY})
    return params, varargs, varkw


def inspect_callable(owner, name):
    """describe attribute `name` of a module or class the way the ast view does; None if absent"""
    try:
        static = inspect.getattr_static(owner, name)
    except AttributeError:
        return None
    is_class_owner = inspect.isclass(owner)
    decorator, drop = "", False
    obj = static
    if isinstance(static, classmethod):
        decorator, obj, drop = "classmethod", static.__func__, True
    elif isinstance(static, staticmethod):
        decorator, obj = "staticmethod", static.__func__
    elif isinstance(static, property):
        return {"kind": "property", "decorator": "", "params": [], "varargs": False, "varkw": False}
    elif is_class_owner and inspect.isroutine(static):
        drop = True          # plain functions, and the slot wrappers / method descriptors of C-level bases
    if inspect.isclass(obj):
        return {"kind": "class", "decorator": "", "params": [], "varargs": False, "varkw": False}
    if not callable(obj):
        return {"kind": "value", "decorator": "", "params": [], "varargs": False, "varkw": False}
    kind = "def"
    wrapped = getattr(obj, "__wrapped__", None)
    if wrapped is not None and inspect.isasyncgenfunction(wrapped):
        kind = "async with"
    elif wrapped is not None and inspect.isgeneratorfunction(wrapped) and not inspect.isgeneratorfunction(obj):
        kind = "with"
    elif inspect.iscoroutinefunction(obj):
        kind = "async def"
    try:
        sig = inspect.signature(obj)
    except (TypeError, ValueError) as e:
        return {"kind": kind, "decorator": decorator, "params": None, "varargs": True, "varkw": True, "nosig": str(e)}
    params, va, vk = _sig_params(sig, drop)
    return {"kind": kind, "decorator": decorator, "params": params, "varargs": va, "varkw": vk}


def self_check(view, module, modobj):
    """compare the ast view of `module` with the imported module. -> list of disagreement strings"""
    out = []
    m = view.mod(module)
    if m.error:
        return ["ast: " + m.error]
    def cmp(where, a, b):
        if b is None:
            out.append("%s: in the source (line %s) but not on the imported object" % (where, a.get("line")))
            return
        for k in ("kind", "decorator", "varargs", "varkw"):
            av = a.get("raw_kind", a["kind"]) if k == "kind" else a[k]
            if av != b[k]:
                out.append("%s: %s differs: ast %r / inspect %r" % (where, k, av, b[k]))
        if b["params"] is not None and a["kind"] != "property":
            pa = [(p["name"], p["has_default"], p["kwonly"]) for p in a["params"]]
            pb = [(p["name"], p["has_default"], p["kwonly"]) for p in b["params"]]
            if pa != pb:
                out.append("%s: parameters differ: ast %r / inspect %r" % (where, pa, pb))
    for name, fi in m.funcs.items():
        cmp("%s.%s" % (module, name), fi, inspect_callable(modobj, name))
    for cname in m.classes:
        cobj = getattr(modobj, cname, None)
        if not inspect.isclass(cobj):
            out.append("%s.%s: class in the source but %r on the imported module" % (module, cname, type(cobj).__name__))
            continue
        methods, attrs, external = view.class_members(module, cname)
        for name, fi in methods.items():
            if fi.get("origin") == "builtins.object":
                if cobj.__init__ is not object.__init__:
                    out.append("%s.%s.__init__: no __init__ in the source chain but the imported class has %r" % (module, cname, cobj.__init__))
                continue
            cmp("%s.%s.%s" % (module, cname, name), fi, inspect_callable(cobj, name))
            if fi.get("via"):
                why = _check_delegation(cobj, name, fi)
                if why:
                    out.append("%s.%s.%s: %s" % (module, cname, name, why))
        # reverse direction: functions defined on the class (or its repo bases) that the ast view does not know
        for klass in cobj.__mro__:
            if not getattr(klass, "__module__", "").startswith("nintendo"):
                continue
            for name, v in vars(klass).items():
                if isinstance(v, (classmethod, staticmethod, property)) or inspect.isfunction(v):
                    if name not in methods:
                        out.append("%s.%s.%s: on the imported class (from %s) but not found in the source" % (module, cname, name, klass.__qualname__))
    # reverse direction at module level
    for name, v in vars(modobj).items():
        if getattr(v, "__module__", None) == module and (inspect.isfunction(v) or inspect.isclass(v)):
            if getattr(v, "__name__", name) == name and name not in m.funcs and name not in m.classes:
                out.append("%s.%s: on the imported module but not found in the source" % (module, name))
    return out


def _check_delegation(cobj, name, fi):
    """the ast view says `name` only forwards to fi["via"]: run it on a mock instance and see that it returns
    exactly what the target returned"""
    from unittest import mock
    me = mock.MagicMock()
    try:
        fn = inspect.getattr_static(cobj, name)
        fn = getattr(fn, "__func__", fn)
        args = [object() for p in fi["params"] if not p["has_default"] and not p["kwonly"]]
        ret = fn(me, *args)
    except Exception as e:
        return "delegation to %s could not be confirmed: %r" % (fi["via"], e)
    target = getattr(me, fi["via"])
    if not target.called or ret is not target.return_value:
        return "source looks like a pure forward to %s but running it did not return the target's result" % fi["via"]
    return None


def collect(repo, modules):
    """ast view + import + self-check for the given modules.
    -> {"sigs": [...], "attrs": {module: {cls: set}}, "missing": {module: why}, "disagreements": [...], "objects": {module: modobj}}"""
    view = AstView(repo)
    sigs, attrs, missing, dis, objs = [], {}, {}, [], {}
    for module in modules:
        m = view.mod(module)
        modobj, err = import_module(module)
        if m.error or modobj is None:
            missing[module] = "; ".join(x for x in [m.error, ("import failed: " + err) if err else None] if x)
            if m.error is None and modobj is None:
                pass
            if m.error and modobj is not None:
                dis.append("%s: importable (%s) but no source under %s" % (module, getattr(modobj, "__file__", "?"), repo))
            continue
        f = getattr(modobj, "__file__", None)
        if f is None or os.path.realpath(f) != os.path.realpath(m.file):
            dis.append("%s: imported from %s, source parsed from %s" % (module, f, m.file))
        objs[module] = modobj
        sigs += view.module_sigs(module)
        attrs[module] = view.module_attrs(module)
        dis += self_check(view, module, modobj)
    return {"sigs": sigs, "attrs": attrs, "missing": missing, "disagreements": dis, "objects": objs, "view": view}


if __name__ == "__main__":
    repo = sys.argv[1] if len(sys.argv) > 1 else REPO_DEFAULT
    sys.path.insert(0, repo)
    sys.path.insert(0, os.path.dirname(os.path.abspath(__file__)))
    import api_docs
    d = api_docs.parse_all(repo)
    mods = sorted({s["module"] for s in d["sigs"] if s["module"]} | {p["module"] for p in d["pages"] if p["module"]})
    r = collect(repo, mods)
    print("modules %d  actual signatures %d  missing %r  disagreements %d" % (len(mods), len(r["sigs"]), r["missing"], len(r["disagreements"])))
    for x in r["disagreements"][:40]:
        print("  " + x)
