"""C02: a peer that RETURNS from exactly the same (address, PRUDP port, stream type) while the server still holds the record of
its PREVIOUS connection - a connection that has already ended but whose application handler has not returned yet (a handler that
lingers after end-of-stream: slow logout; or a call that is still in progress when the connection ends).

run(cfg, seed, spec, tcp=False)
    one server (`prudp.serve_transport` + `transport.serve(handler, 1, 10, key)`), one client application at ONE address that uses
    either ONE long-lived `PRUDPClientTransport` for all its sessions (the port table hands out the same local port again) or a new
    transport per session bound to the same UDP source port. spec:
        end1     how the FIRST session ends: 'graceful' (block left normally) | 'close' (client.close()) | 'kick' (the handler closes)
                 | 'cancel' (the client's block is cancelled: nothing is sent) | 'silence' (the link dies, both sides time out)
        kind     'eos'  the old handler reads until end-of-stream, then lingers
                 'busy' the old handler is inside a slow request when the connection ends (it notices nothing until it is released)
        linger   the old handler is released `linger` seconds after the first session ended AT THE CLIENT (it returns at the later
                 of that instant and the end-of-stream it has to see first)
        exit     'return' | 'raise' : how the old handler ends
        gap      pause between the end of the first session at the client and the first new attempt
        pause    pause between attempts (the client retries until a session works)
        end2     how a working new session ends: 'graceful' | 'close' | 'kick' | 'silence'
        newt     a new client transport (same UDP source address) per session instead of one long-lived transport
    A new session: connect, echo, 0.3 s, echo, idle past a keep-alive, echo, end. After a working session (or a time-out of the
    retry loop) the old handler is awaited, the server gets ping_timeout+(resend_limit+1)*resend_timeout+0.25 s, then the same
    address and ANOTHER address must each establish a working connection and the server's table must be empty.

judge(cfg, spec, se) -> [(key, what)] property failures on the real code.
build_server_trace(se) / l1_compare(drv, se): the SERVER transport replayed through the Lean L1 model (datagram transports): every
datagram it receives at its instant, the handler's sends / close / return; every datagram the server writes must agree tick for tick
(an in-window CONNECT is acknowledged from the OLD record and starts nothing; `done` forgets the record)."""
import contextlib, random, hashlib
import anyio

from sim import Sim, quant, ticks
import prudp_session as ps
import l1_trace
from nintendo.nex import prudp
from c02_closing import flatten

SERVER = ps.SERVER
LOCAL = ("10.0.0.2", 50001)
OTHER = ("10.0.0.3", 50007)
MARGIN = 0.06
IDLE = 1.25


def _names(e):
    return [type(x).__name__ for x in flatten(e)]


class _ObjRand:
    """the library's random draws: every PRUDPClient object draws (initial unreliable id, connection check, session id) in this
    order; session ids are distinct for the first 256 objects (a chance collision of session ids between the old and the new
    connection is not what this family is about); the draws are logged with their instant so that the server's can be replayed"""

    def __init__(self, sim, seed):
        self.sim, self.seed = sim, seed
        self.n = 0
        self.at = {}          # tick -> [ur, cc, sid] of the object created at that instant

    def randint(self, a, b):
        k = self.n                        # index of the object being constructed (the session id is its last draw)
        if b == 0xFF:
            self.n += 1
            v = (self.seed * 7 + 101 * k + 13) % 256
        else:
            v = a + int.from_bytes(hashlib.sha256(b"%d:%d:%d" % (self.seed, k, b)).digest()[:8], "big") % (b - a + 1)
        self.at.setdefault(self.sim.now(), {}).setdefault(b, v)
        return v

    def __getattr__(self, name):
        return getattr(random, name)


class _Table(dict):
    """put in place of `stream.clients`: the instants at which records come and go (observation only)"""

    def __init__(self, sim, log):
        super().__init__()
        self._sim, self._log = sim, log

    def __setitem__(self, k, v):
        self._log.append(("set", self._sim.now(), k, id(v)))
        super().__setitem__(k, v)

    def __delitem__(self, k):
        self._log.append(("del", self._sim.now(), k, id(self.get(k))))
        super().__delitem__(k)

    def pop(self, k, *d):
        self._log.append(("pop", self._sim.now(), k, id(self.get(k))))
        return super().pop(k, *d)


def run(cfg, seed, spec, tcp=False):
    rng = random.Random(seed)
    out = ps.Session()
    out.cfg, out.seed, out.spec, out.tcp = cfg, seed, dict(spec), tcp
    bound = cfg.ping_timeout + (cfg.resend_limit + 1) * cfg.resend_timeout
    out.bound = bound
    out.attempts, out.handlers, out.table_log, out.finals = [], [], [], {}
    out.serve_error = None
    out.old_send_after = None
    out.t_c_end = None
    out.target = None
    out.table_before_finals = None
    out.table_end = None
    with Sim(seed) as sim:
        s = cfg.settings()
        if tcp and cfg.transport == "lite":
            s["prudp.transport"] = s.TRANSPORT_TCP
        out.settings_s = s
        out.epoch = sim.epoch
        sim.install_factories(fixed_client_addr=True)
        log = sim.net.log
        rnd = _ObjRand(sim, seed)
        sim._patch(prudp, "random", rnd)
        local = [LOCAL]

        @contextlib.asynccontextmanager
        async def connect_transport_socket(settings, host, port, context):
            loc = local[0]
            if settings["prudp.transport"] == settings.TRANSPORT_UDP:
                sock = sim.net.connect(loc, (host, port))
                try:
                    yield sock
                finally:
                    await sock.close()
            else:
                listener = sim.stream_listeners.get((host, port))
                if listener is None:
                    raise ConnectionRefusedError((host, port))
                a, b = sim.net.stream_pair(loc, (host, port))
                listener(b)
                try:
                    yield a
                finally:
                    await a.close()
        sim._patch(prudp, "connect_transport_socket", connect_transport_socket)

        st = {"dead": False, "dead_at": None}
        sim.net.fate = lambda tx: [] if st["dead"] else [0.01]
        sim.net.stream_fate = lambda src, dst, n, chunk: "drop" if st["dead"] else "deliver"

        creds = None
        if cfg.credentials:
            creds, _ = ps.make_credentials(s, random.Random(rng.random()), cfg.key_size)
        out.server_key = b"server key" if cfg.credentials else None

        release = anyio.Event()
        target_known = anyio.Event()
        holder = {}

        async def releaser():
            await target_known.wait()
            d = out.target - sim.now()
            if d > 0:
                await anyio.sleep(d)
            release.set()

        async def handler(client):
            n = len(out.handlers)
            key = (client.remote_address(), client.remote_sid(), 10)
            rec = {"n": n, "t0": sim.now(), "t1": None, "eos_at": None, "outcome": None, "peer": key, "late_send": None, "got": 0}
            out.handlers.append(rec)
            first = n == 0

            def app(op, data=b""):
                log.append(("app", sim.now(), "s", op, key, 0, data))
            try:
                while True:
                    try:
                        d = await client.recv()
                    except anyio.EndOfStream:
                        rec["eos_at"] = sim.now()
                        break
                    rec["got"] += 1
                    if d == b"kick":
                        app("close")
                        await client.close()
                        continue
                    if d.startswith(b"slow") and first:
                        if b"kick" in d:
                            app("close")
                            await client.close()              # the handler ends the connection, then is busy with the rest of the call
                        await release.wait()                  # a call that is still in progress when the connection ends
                    app("send", b"echo:" + d)
                    try:
                        await client.send(b"echo:" + d)
                    except anyio.ClosedResourceError:
                        if first:
                            rec["late_send"] = "closed"
                if first:
                    await release.wait()                      # a handler that lingers after end-of-stream (slow logout)
                    app("send", b"goodbye")
                    try:
                        await client.send(b"goodbye")
                        rec["late_send"] = "ok"
                    except anyio.ClosedResourceError:
                        rec["late_send"] = "closed"
                    except Exception as e:
                        rec["late_send"] = "error:" + type(e).__name__
                    if spec["exit"] == "raise":
                        rec["outcome"] = "raised"
                        app("raised")
                        raise KeyError("logout failed")
                rec["outcome"] = "returned"
                app("done")
            finally:
                rec["t1"] = sim.now()

        async def echo(client, rec, tag):
            t0 = sim.now()
            o = [tag, t0, None, None]
            rec["ops"].append(o)
            msg = ("%s %s" % (tag, rec["i"])).encode()
            try:
                await client.send(msg)
                with anyio.fail_after(quant(bound + 5)):
                    d = await client.recv()
                o[3] = "ok" if d == b"echo:" + msg else "wrong:%r" % d[:24]
            except anyio.EndOfStream:
                o[3] = "eof"
            except anyio.ClosedResourceError:
                o[3] = "closed"
            except TimeoutError:
                o[3] = "BLOCKED"
            finally:
                o[2] = sim.now()
            return o[3] == "ok"

        @contextlib.asynccontextmanager
        async def transport_for(shared):
            if shared is not None:
                yield shared
            else:
                async with prudp.connect_transport(s, SERVER[0], SERVER[1]) as t:
                    yield t

        async def first_session(shared):
            end1, kind = spec["end1"], spec["kind"]
            rec = {"i": "old", "t0": sim.now(), "connected": False, "ended": None, "error": None, "ops": []}
            out.first = rec
            try:
                with anyio.move_on_after(None) as scope:
                    async with transport_for(shared) as transport:
                        async with transport.connect(1, 10, creds) as client:
                            rec["connected"] = True
                            rec["local_port"] = client.local_sid()
                            rec["echo"] = await echo(client, rec, "hello")
                            if kind == "busy":
                                await client.send(b"slow kick" if end1 == "kick" else b"slow logout request")
                                await anyio.sleep(quant(0.05))
                            if end1 == "close":
                                await client.close()
                            elif end1 == "kick":
                                if kind != "busy":
                                    await client.send(b"kick")
                                try:
                                    with anyio.fail_after(quant(bound + 5)):
                                        await client.recv()
                                except anyio.EndOfStream:
                                    pass
                            elif end1 == "cancel":
                                scope.cancel()
                                await anyio.sleep(1000.0)
                            elif end1 == "silence":
                                st["dead"] = True; st["dead_at"] = sim.now()
                                try:
                                    with anyio.fail_after(quant(2 * bound + 5)):
                                        await client.recv()
                                except anyio.EndOfStream:
                                    pass
                rec["ended"] = "cancelled" if scope.cancelled_caught else "returned"
            except BaseException as e:
                if not all(isinstance(x, Exception) for x in flatten(e)):
                    raise
                rec["ended"] = "raised:" + ",".join(sorted(set(_names(e))))
                rec["error"] = repr(flatten(e)[0])[:120]
            rec["t1"] = sim.now()
            rec["dead_at"] = st["dead_at"]
            st["dead"], st["dead_at"] = False, None

        async def attempt(shared, i, end2, short=False):
            rec = {"i": i, "t0": sim.now(), "connected": False, "t_connected": None, "ended": None, "error": None, "ops": [], "end2": end2,
                   "dead_at": None, "complete": False, "t_end_start": None}
            out.attempts.append(rec)
            try:
                async with transport_for(shared) as transport:
                    async with transport.connect(1, 10, creds) as client:
                        rec["connected"] = True
                        rec["t_connected"] = sim.now()
                        rec["local_port"] = client.local_sid()
                        ok = await echo(client, rec, "one")
                        if ok and not short:
                            await anyio.sleep(quant(0.3))
                            ok = await echo(client, rec, "two")
                        if ok and not short:
                            await anyio.sleep(quant(IDLE))
                            ok = await echo(client, rec, "three")
                        rec["echoes_ok"] = ok
                        rec["t_end_start"] = sim.now()
                        if ok:
                            if end2 == "close":
                                await client.close()
                            elif end2 == "kick":
                                await client.send(b"kick")
                                with anyio.fail_after(quant(bound + 5)):
                                    await client.recv()              # EndOfStream leaves the block
                            elif end2 == "silence":
                                st["dead"] = True; st["dead_at"] = sim.now()
                                rec["dead_at"] = sim.now()
                                with anyio.fail_after(quant(2 * bound + 5)):
                                    await client.recv()              # EndOfStream leaves the block
                rec["ended"] = "returned"
            except BaseException as e:
                if not all(isinstance(x, Exception) for x in flatten(e)):
                    rec["ended"] = "outer-cancel"
                    raise
                rec["ended"] = "raised:" + ",".join(sorted(set(_names(e))))
                rec["error"] = repr(flatten(e)[0])[:120]
            finally:
                rec["t1"] = sim.now()
                st["dead"], st["dead_at"] = False, None
            want = "raised:EndOfStream" if end2 in ("kick", "silence") else "returned"
            rec["complete"] = bool(rec["connected"] and rec.get("echoes_ok") and rec["ended"] == want)
            return rec

        async def client_script(shared):
            await first_session(shared)
            out.t_c_end = sim.now()
            out.target = sim.now() + quant(spec["linger"])
            target_known.set()
            await anyio.sleep(quant(spec["gap"]))
            deadline = out.target + 3 * bound + 4
            i = 0
            while i < 60 and sim.now() < deadline:
                rec = await attempt(shared, i, spec["end2"])
                i += 1
                if rec["complete"]:
                    break
                await anyio.sleep(quant(spec["pause"]))
            # the old handler has to return; then everybody gets the time the property allows
            with anyio.move_on_after(quant(max(0.0, out.target - sim.now()) + 2 * bound + 5)):
                while not out.handlers or out.handlers[0]["t1"] is None:
                    await anyio.sleep(quant(0.05))
            await anyio.sleep(quant(bound + 0.25))
            out.table_before_finals = len(holder["sstream"].clients)
            r = await attempt(shared, "final-same-address", "graceful", short=True)
            out.finals["same"] = r
            local[0] = OTHER
            try:
                r = await attempt(None, "final-other-address", "graceful", short=True)
            finally:
                local[0] = LOCAL
            out.finals["other"] = r
            await anyio.sleep(quant(bound + 0.25))
            out.table_end = len(holder["sstream"].clients)

        async def main():
            try:
                async with prudp.serve_transport(s, SERVER[0], SERVER[1]) as stransport:
                    async with stransport.serve(handler, 1, 10, out.server_key):
                        stream = stransport.ports.get(1, 10)
                        stream.clients = _Table(sim, out.table_log)
                        holder["sstream"] = stream
                        async with anyio.create_task_group() as tg:
                            tg.start_soon(releaser)
                            if spec.get("newt"):
                                await client_script(None)
                            else:
                                async with prudp.connect_transport(s, SERVER[0], SERVER[1]) as transport:
                                    await client_script(transport)
                            tg.cancel_scope.cancel()
            except BaseException as e:
                out.serve_error = (_names(e), repr(e)[:300], sim.now())
                if not all(isinstance(x, Exception) for x in flatten(e)):
                    raise

        async def guarded():
            with anyio.move_on_after(spec["linger"] + 60 * (bound + 3) + 120) as scope:
                await main()
            out.timed_out = scope.cancelled_caught
        try:
            sim.run(guarded()); out.crash = None
        except BaseException as e:
            out.crash = repr(e)[:300]; out.timed_out = False
        out.netlog = log
        out.rnd_at = rnd.at
        out.end_time = sim.now()
    return out


# ------------------------------------------------------------------------------------------------------------------- oracle

def story(spec, se):
    h0 = se.handlers[0] if se.handlers else None
    return ("first session from %s:%d ended by '%s' at %s (client side); its handler (%s) was released %.4f s later and %s at %s; "
            "new attempts from the same (address, port, type) start %.3f s after the end, %.3f s apart, %s" % (
                LOCAL[0], LOCAL[1], spec["end1"], None if se.t_c_end is None else "%.4f" % se.t_c_end,
                "busy with a slow request" if spec["kind"] == "busy" else "lingering after end-of-stream", spec["linger"],
                "raised" if spec["exit"] == "raise" else "returned", None if not h0 or h0["t1"] is None else "%.4f" % h0["t1"],
                spec["gap"], spec["pause"], "each over a new transport bound to the same UDP source port" if spec.get("newt") else "all over ONE long-lived client transport"))


def accepted_by(se, rec):
    """the server's handler invocation that belongs to this attempt (started while its connect() was running), if any"""
    t_hi = rec["t_connected"] if rec["t_connected"] is not None else rec["t1"]
    for h in se.handlers[1:] if se.handlers else []:
        if rec["t0"] <= h["t0"] <= t_hi + 1e-9:
            return h
    return None


def judge(cfg, spec, se):
    bad = []
    rt, lim, bound = cfg.resend_timeout, cfg.resend_limit, se.bound
    what = story(spec, se)
    if se.crash:
        bad.append(("crash", "%s: the run ended abnormally: %s" % (what, se.crash)))
    if se.timed_out:
        bad.append(("hang", "%s: the run did not finish: some operation blocked beyond every bound" % what))
    if se.serve_error:
        bad.append(("serve-block", "%s: the server's serve() block did not survive: it ended with %s at %.4f (%s)" % (what, se.serve_error[0], se.serve_error[2], se.serve_error[1])))
    first = getattr(se, "first", None)
    if first is None or not first["connected"] or not first.get("echo"):
        bad.append(("reference", "%s: the first session was not established: %r" % (what, first)))
        return bad
    h0 = se.handlers[0] if se.handlers else None
    if h0 is None:
        bad.append(("reference", "%s: no handler was started for the first session" % what))
        return bad
    if h0["t1"] is None:
        if not se.serve_error and not se.crash:
            bad.append(("hang", "%s: the old handler never returned although it was released" % what))
    else:
        if h0["late_send"] not in ("closed",) and h0["eos_at"] is not None:
            bad.append(("closed-send", "%s: the old handler's send on its ended connection (end-of-stream seen at %.4f) gave %r instead of the closed-connection error" % (what, h0["eos_at"], h0["late_send"])))
    dead1 = first.get("dead_at")
    if spec["end1"] == "silence" and dead1 is not None and first["t1"] > dead1 + bound + MARGIN:
        bad.append(("late", "%s: the first session's recv was released at %.4f, the link died at %.4f (bound %.3f)" % (what, first["t1"], dead1, bound)))
    if h0["eos_at"] is not None and spec["end1"] in ("silence", "cancel"):
        ref = dead1 if spec["end1"] == "silence" else se.t_c_end
        if ref is not None and h0["eos_at"] > ref + bound + MARGIN and spec["kind"] == "eos":
            bad.append(("late", "%s: the old handler saw end-of-stream at %.4f, the peer fell silent at %.4f (bound %.3f)" % (what, h0["eos_at"], ref, bound)))
    # the instant at which the server forgot the old record
    old_gone = None
    for ev, t, k, ident in se.table_log:
        if ev in ("del", "pop") and k == h0["peer"]:
            old_gone = t
            break
    t_ret = h0["t1"]
    for rec in se.attempts:
        i = rec["i"]
        final = isinstance(i, str)
        who = "attempt %s (started %.4f)" % ("#%d" % i if not final else i, rec["t0"])
        if rec["ended"] is None or rec.get("t1") is None or rec["ended"] == "outer-cancel":
            if not se.timed_out and not se.crash and not se.serve_error:
                bad.append(("hang", "%s: %s never finished" % (what, who)))
            continue
        # every operation terminates within its bound
        if not rec["connected"]:
            if rec["t1"] - rec["t0"] > (lim + 1) * rt + 0.02 + MARGIN:
                bad.append(("connect-bound", "%s: %s: connect ended %s after %.3f s, later than (resend_limit+1)*resend_timeout" % (what, who, rec["ended"], rec["t1"] - rec["t0"])))
        elif rec["t_connected"] - rec["t0"] > (lim + 1) * rt + 0.02 + MARGIN:
            bad.append(("connect-bound", "%s: %s: connect returned after %.3f s, later than (resend_limit+1)*resend_timeout" % (what, who, rec["t_connected"] - rec["t0"])))
        for name, t0, t1, outcome in rec["ops"]:
            if outcome == "BLOCKED" or t1 is None:
                bad.append(("hang", "%s: %s: '%s' sent at %.4f got neither its answer nor end-of-stream (%s)" % (what, who, name, t0, outcome)))
            elif outcome != "ok" and t1 - t0 > bound + MARGIN:
                bad.append(("late", "%s: %s: '%s' sent at %.4f ended with %s at %.4f, later than ping_timeout+(resend_limit+1)*resend_timeout" % (what, who, name, t0, outcome, t1)))
        if rec["t_end_start"] is not None:
            ref = rec["dead_at"] if rec["dead_at"] is not None else rec["t_end_start"]
            if rec["t1"] > ref + bound + MARGIN:
                bad.append(("late", "%s: %s: leaving the connection block took from %.4f to %.4f (bound %.3f)" % (what, who, ref, rec["t1"], bound)))
        h = accepted_by(se, rec) if not final else (se.handlers[-1] if False else accepted_by(se, rec))
        if h is not None and not rec["complete"]:
            # the server started a handler for this session and the link was healthy: nothing but the session's own end may end it
            ops = ", ".join("%s@%.4f->%s@%s" % (o[0], o[1], o[3], None if o[2] is None else "%.4f" % o[2]) for o in rec["ops"])
            rel = ""
            if t_ret is not None:
                rel = " (the OLD handler %s at %.4f, i.e. %.4f s after this session's connect() started)" % ("raised" if spec["exit"] == "raise" else "returned", t_ret, t_ret - rec["t0"])
            bad.append(("new-session-damaged", "%s: %s was accepted by the server (its handler started at %.4f) over a healthy link, yet the session did not work until its own end (%s): connected=%s, %s, block ended %s%s"
                        % (what, who, h["t0"], rec["end2"], rec["connected"], ops or "no echo", rec["ended"], rel)))
        if not final and old_gone is not None and rec["t0"] > old_gone + 1e-3 and not rec["complete"]:
            bad.append(("reconnect", "%s: %s began after the server had forgotten the old record (%.4f) and still did not give a working session: connected=%s, ended %s (%s)"
                        % (what, who, old_gone, rec["connected"], rec["ended"], rec["error"])))
    if not se.timed_out and not se.crash and not se.serve_error:
        if not any(r["complete"] for r in se.attempts if not isinstance(r["i"], str)):
            bad.append(("reconnect", "%s: none of %d attempts from the same address gave a working session" % (what, len([r for r in se.attempts if not isinstance(r["i"], str)]))))
        for nm, label in (("same", "the same address"), ("other", "another address (%s:%d)" % OTHER)):
            r = se.finals.get(nm)
            if r is None or not r["complete"]:
                bad.append(("reconnect", "%s: afterwards a connect from %s did not give a working connection: %s" % (
                    what, label, None if r is None else "connected=%s ended %s (%s) %r" % (r["connected"], r["ended"], r["error"], [o[3] for o in r["ops"]]))))
        if se.table_before_finals not in (0,):
            bad.append(("server-forgets", "%s: ping_timeout+(resend_limit+1)*resend_timeout+0.25 s after every session had ended and the old handler had returned the server still holds %s record(s)" % (what, se.table_before_finals)))
        if se.table_end not in (0,):
            bad.append(("server-forgets", "%s: at the end the server still holds %s record(s)" % (what, se.table_end)))
        for h in se.handlers:
            if h["t1"] is None:
                bad.append(("server-forgets", "%s: the handler started at %.4f for %r was never released" % (what, h["t0"], h["peer"])))
    return bad


# -------------------------------------------------------------------------------------------------- the server through L1

def build_server_trace(se, name="r"):
    cfg = se.cfg
    if cfg.transport != "udp":
        return None
    l1_trace.sess_epoch[0] = se.epoch
    saddr = SERVER
    ES, S = name + "envs", name + "s"
    lines = [l1_trace.env_line(ES, cfg, se.settings_s), "srv %s %s %s %d 0" % (S, ES, saddr[0], saddr[1]),
             "bind %s 1 10 %s" % (S, se.server_key.hex() if se.server_key else "none")]
    kinds = [("setup", None)] * len(lines)
    real = {"c": [], "s": []}

    def add(line, kind):
        lines.append(line); kinds.append(kind)

    for e in se.netlog:
        k = e[0]
        if k == "tx":
            _, n, t, src, dst, data, delays = e
            if src == saddr:
                real["s"].append((ticks(t), "%s:%d" % dst, l1_trace.hx(data)))
        elif k == "rx":
            _, n, t, src, dst, data, alive = e
            if alive and dst == saddr:
                d = se.rnd_at.get(t) or {}
                r = [d.get(0xFFFF, 1), d.get(0xFFFFFFFF, 0), d.get(0xFF, 0)]
                add("advance %s %d" % (S, ticks(t) - 1), ("advance", "s"))
                add("dgram %s %d %s %d %s %d %d %d" % (S, ticks(t), src[0], src[1], l1_trace.hx(data), r[0], r[1], r[2]), ("op", "s", ticks(t)))
        elif k == "app" and e[2] == "s":
            _, t, side, op, key, sub, data = e
            tk = ticks(t)
            conn = "%s:%d:%d:%d" % (key[0][0], key[0][1], key[1], key[2])
            add("advance %s %d" % (S, tk), ("advance", "s"))
            if op == "send":
                add("send %s %d %s %d %s" % (S, tk, conn, sub, l1_trace.hx(data)), ("op", "s", tk))
            elif op == "close":
                add("close %s %d %s" % (S, tk, conn), ("op", "s", tk))
            elif op == "done":
                add("done %s %d %s" % (S, tk, conn), ("op", "s", tk))
            elif op == "raised":
                add("aexit %s %d %s" % (S, tk, conn), ("op", "s", tk))
                add("done %s %d %s" % (S, tk, conn), ("op", "s", tk))
    add("advance %s %d" % (S, ticks(se.end_time)), ("advance", "s"))
    return lines, kinds, real


def l1_compare(drv, se):
    b = build_server_trace(se)
    if b is None:
        return {"ok": True, "skipped": True, "diffs": [], "lines": 0}
    lines, kinds, real = b
    outs = drv.batch(lines)
    tx, other, errs = l1_trace.model_stream(lines, kinds, outs)
    diffs = [{"kind": "driver", "line": l[:160], "model": o} for l, o in errs if o != "no-conn"]
    r, m = real["s"], tx["s"]
    for i, (x, y) in enumerate(zip(r, m)):
        if x != y:
            diffs.append({"kind": "tx", "endpoint": "s", "index": i, "real": x, "model": y}); break
    else:
        if len(r) != len(m):
            diffs.append({"kind": "tx-count", "endpoint": "s", "real_n": len(r), "model_n": len(m), "first_extra": (r[len(m):] or m[len(r):])[0]})
    started = sum(1 for side in "s" for tk, rest in other[side] if rest.startswith("started"))
    removed = sum(1 for side in "s" for tk, rest in other[side] if rest.startswith("removed"))
    if not diffs and started != len(se.handlers):
        diffs.append({"kind": "handlers-started", "real": len(se.handlers), "model": started})
    return {"ok": not diffs, "diffs": diffs, "lines": len(lines), "started": started, "removed": removed}
