"""C17 end-to-end runs of the real back-end login in the lead's deterministic simulation (harness/sim.py).

run_case(case) drives, unchanged:  backend.connect(...)  ->  BackEndClient.login(...)  ->  a real generated
Authentication(NX)Server subclass whose answers are scripted by `case`  ->  a real secure rmc.serve(...,
key=...) server,  all over the simulated datagram / stream network, and returns what was observed:
which authentication methods were called with what, which connection the client tried to open (host, port,
stream id, credentials), what the secure server accepted (pid) and what its handler saw, or the exception.
Substituted from outside (no repo hooks): the socket factories (Sim.install_factories), clocks, randomness,
`rmc.connect` as seen from backend.py is wrapped only to *record* its arguments, and the transports' `serve`
is wrapped only to *record* accepted connections.
"""
import contextlib, logging, struct
logging.disable(logging.CRITICAL)
import anyio
from sim import Sim, ticks
from nintendo.nex import backend, rmc, common, authentication, kerberos, settings as nexsettings, prudp, streams

AUTH_HOST, AUTH_PORT = "10.0.0.1", 60000
SECURE_HOST, SECURE_PORT = "10.0.0.9", 60010
SECURE_KEY = b"secure-server-key"
OTHER_KEY = b"another-server-key"
SECURE_PID = 2
PROBE_PROTOCOL = 0x71


# bound on event-loop turns per simulated session (a login session takes a few thousand; see sim.VLoop.max_turns)
MAX_TURNS = 2_000_000

def exc_name(e):
    if isinstance(e, common.RMCError): return "rmc %d" % e.code()
    if isinstance(e, struct.error): return "exc StructError"
    if isinstance(e, OverflowError): return "exc OverflowError"
    if isinstance(e, ValueError): return "exc ValueError"
    if isinstance(e, TypeError): return "exc TypeError"
    if isinstance(e, KeyError): return "exc KeyError"
    if isinstance(e, BaseExceptionGroup):
        subs = sorted({exc_name(x) for x in e.exceptions})
        return subs[0] if len(subs) == 1 else "group[" + ",".join(subs) + "]"
    return "exc Other:" + type(e).__name__


def exc_text(e):
    """the exception's own message, for reports only (never compared with the model)"""
    if isinstance(e, BaseExceptionGroup):
        return "; ".join(sorted({exc_text(x) for x in e.exceptions}))[:300]
    return ("%s: %s" % (type(e).__name__, e))[:200]


def make_settings(c):
    s = nexsettings.default()
    s["nex.version"] = c["version"]
    s["nex.client_version"] = c.get("client_version", 7)
    s["nex.pid_size"] = c["pid_size"]
    s["kerberos.key_derivation"] = c["kd"]
    s["kerberos.key_size"] = c["key_size"]
    s["kerberos.ticket_version"] = c["ticket_version"]
    s["prudp.access_key"] = "feedc0de"
    t = c["transport"]
    if t == "v0": s["prudp.version"] = 0; s["prudp.transport"] = s.TRANSPORT_UDP
    elif t == "v1": s["prudp.version"] = 1; s["prudp.transport"] = s.TRANSPORT_UDP
    else: s["prudp.transport"] = s.TRANSPORT_TCP
    return s


# ---------------------------------------------------------------------------------------------------------------
# the library's own random draws.  A login makes several: every PRUDP endpoint object (the client's connection to the
# authentication server, the client's connection to the secure server, and the two server-side peers) draws a 32-bit
# connection check, an 8-bit session id and, on PRUDP v1, a 16-bit initial unreliable sequence id; the Kerberos side
# draws a 16-byte ticket key (ticket version 1).  The property quantifies over all of them ("logging in ... yields"),
# so their boundary values are inputs like any other.  `draws` = {"check": [...], "session": [...], "unrel": [...],
# "token": "00"|"ff"}: the k-th draw of a kind gets values[k % len(values)] (one value = every endpoint draws it; two
# values = the endpoints alternate, so client and server side differ); a kind that is absent stays random.
DRAW_BOUNDS = {"check": 0xFFFFFFFF, "session": 0xFF, "unrel": 0xFFFF}


class DrawPins:
    """what sim.prudp_rand.force expects ({upper bound: value}), with one value per successive draw"""
    def __init__(self, draws):
        self.values = {DRAW_BOUNDS[k]: list(v) for k, v in draws.items() if k in DRAW_BOUNDS and v}
        self.count = {b: 0 for b in self.values}
    def __bool__(self): return bool(self.values)
    def __contains__(self, bound): return bound in self.values
    def __getitem__(self, bound):
        vs = self.values[bound]
        v = vs[self.count[bound] % len(vs)]
        self.count[bound] += 1
        return v


class _ConstSecrets:
    def __init__(self, byte): self.byte = byte
    def token_bytes(self, n): return bytes([self.byte]) * n


def apply_draws(sim, draws):
    if not draws: return
    pins = DrawPins(draws)
    if pins: sim.prudp_rand.force = pins
    if draws.get("token") is not None:
        sim._patch(kerberos, "secrets", _ConstSecrets(int(draws["token"], 16)))      # undone by Sim.__exit__


def draws_made(sim):
    """the values the library actually drew, in order: [kind, value]"""
    names = {b: k for k, b in DRAW_BOUNDS.items()}
    return [[names.get(b, str(b)), v] for a, b, v in sim.prudp_rand.log]


class Probe:
    """a one-method RMC server living on the secure server: reports the pid its handler observes"""
    PROTOCOL_ID = PROBE_PROTOCOL
    def __init__(self, obs): self.obs = obs
    async def logout(self, client): pass
    async def handle(self, client, method_id, input, output):
        self.obs["handler_pids"].append(client.pid())
        output.u64(client.pid() if client.pid() is not None else 0xFFFFFFFFFFFFFFFF)


# ---------------------------------------------------------------------------------------------------------------
# the advertised station answered by a DIFFERENT server.  The authentication server follows the protocol (its tickets are
# for the secure server, under the secure server's key), but whoever listens at the station it advertises is not the
# secure server: a server without any Kerberos key (the library's own keyless server acknowledges the CONNECT with an
# empty response), a server with another key (cannot read the ticket: the library's own server stays silent), a keyless
# server that answers something anyway (it cannot know the connection check), or a server that reads the request but
# echoes a wrong / wrongly shaped check value.  None of them proves knowledge of the session key with `check + 1`, so the
# login must not yield a connection.  `case["station"]` names the variant; the genuine secure server keeps running at
# GENUINE_HOST (nobody is sent there).
GENUINE_HOST, GENUINE_PORT = "10.0.0.7", 60020
STATION_KEYLESS = ["no-key", "other-key", "keyless-zeros8", "keyless-guess", "keyless-echo-request", "keyless-4-bytes"]
STATION_KEYED = ["echo-check", "check+2", "check-inverted", "check-high-bit", "len-field-8", "len-field-0", "only-check",
                 "trailing-bytes", "swapped-fields", "truncated-7", "keyed-empty", "big-endian"]
STATION_VARIANTS = STATION_KEYLESS + STATION_KEYED


class RogueKey(bytes):
    """marks the PRUDPServerStream of the server that answers in the secure server's place (empty = it holds no key)"""


def station_key(variant):
    if variant == "no-key": return None                       # the library's own keyless server
    if variant == "other-key": return OTHER_KEY               # the library's own server under another key
    return RogueKey(b"" if variant in STATION_KEYLESS else SECURE_KEY)


def rogue_answer(variant, right, request, rng):
    """the CONNECT/ACK payload of the rogue; `right` = what the genuine server would answer (keyed rogues only)"""
    M = 0xFFFFFFFF
    if variant == "keyless-zeros8": return bytes(8)
    if variant == "keyless-guess": return struct.pack("<II", 4, rng.getrandbits(32))
    if variant == "keyless-echo-request": return bytes(request[:8])
    if variant == "keyless-4-bytes": return struct.pack("<I", 4)
    n = struct.unpack("<II", right)[1]                        # check + 1
    ans = {"echo-check": struct.pack("<II", 4, (n - 1) & M), "check+2": struct.pack("<II", 4, (n + 1) & M),
           "check-inverted": struct.pack("<II", 4, n ^ M), "check-high-bit": struct.pack("<II", 4, n ^ 0x80000000),
           "len-field-8": struct.pack("<II", 8, n), "len-field-0": struct.pack("<II", 0, n), "only-check": struct.pack("<I", n),
           "trailing-bytes": right + bytes(4), "swapped-fields": struct.pack("<II", n, 4), "truncated-7": right[:7],
           "keyed-empty": b"", "big-endian": struct.pack("<I", 4) + struct.pack(">I", n)}[variant]
    if ans == right: ans = ans[:4] + bytes([ans[4] ^ 1]) + ans[5:]      # (a palindrome / check + 1 = 4): still a wrong value
    return ans


def install_rogue(obs, variant, rng):
    """wrap PRUDPServerStream.process_login_request for the stream servers marked by a RogueKey; returns the undo function"""
    orig = prudp.PRUDPServerStream.process_login_request
    def plr(self, data, client, login=True):
        if not isinstance(self.key, RogueKey): return orig(self, data, client, login)
        right = orig(self, data, client, login) if len(self.key) else b""
        ans = rogue_answer(variant, right, data, rng)
        obs["rogue_answers"].append(ans.hex())
        return ans
    prudp.PRUDPServerStream.process_login_request = plr
    def undo(): prudp.PRUDPServerStream.process_login_request = orig
    return undo


def install_response_recorder(obs):
    """record every call of PRUDPClient.check_connection_response (the client's verdict on a CONNECT/ACK payload)"""
    orig = prudp.PRUDPClient.check_connection_response
    def ccr(self, data):
        rec = {"cred": self.credentials is not None, "check": self.connection_check, "data": bytes(data).hex()}
        obs["responses"].append(rec)
        try:
            r = orig(self, data)
        except Exception as e:
            rec["result"] = "err " + exc_name(e)[4:]
            raise
        rec["result"] = "ok"
        return r
    prudp.PRUDPClient.check_connection_response = ccr
    def undo(): prudp.PRUDPClient.check_connection_response = orig
    return undo


def build_tickets(c, s, rng, now, secure_key=None):
    """the authentication server's side of Kerberos for this case (`secure_key`: the key of the secure server the tickets are
    for, default SECURE_KEY — several deployments in one process have one each, see c17_multi.py)"""
    if secure_key is None: secure_key = SECURE_KEY
    pid = c["pid"]
    if c["kd"] == 0: kd = kerberos.KeyDerivationOld(65000, 1024)
    else: kd = kerberos.KeyDerivationNew(1, 1)
    source_key = c.get("source_key")           # bytes or None
    user_key = source_key if source_key else kd.derive_key(c["server_password"].encode(), pid)

    def server_ticket(key, stale=False, source=None):
        t = kerberos.ServerTicket()
        t.timestamp = common.DateTime.fromtimestamp(now - (600 if stale else 0))
        t.source = pid if source is None else source
        t.session_key = c["session_key"]
        return t.encrypt(key, s)

    def client_ticket(target, internal, skey=None):
        t = kerberos.ClientTicket()
        t.session_key = c["session_key"] if skey is None else skey
        t.target = target
        t.internal = internal
        return t.encrypt(user_key, s)

    fault = c.get("fault")
    good_internal = server_ticket(OTHER_KEY if fault == "wrong-server-key" else secure_key,
                                  stale=(fault == "stale"), source=(pid + 1 if fault == "wrong-source" else None))
    if c["first_for_secure"]:
        first = client_ticket(SECURE_PID, good_internal)
        second = client_ticket(SECURE_PID, good_internal)      # never requested
    else:
        first = client_ticket(c.get("first_target", 1), server_ticket(OTHER_KEY))
        second = client_ticket(c.get("second_target", SECURE_PID), good_internal)
    if fault == "garbled-ticket":
        first = first[:-1] + bytes([first[-1] ^ 1])
    if fault == "garbled-second":
        second = second[:5] + bytes([second[5] ^ 0x10]) + second[6:]
    return first, second


class _Rec:
    """what the scripted authentication server needs to answer one login: the case, where to record, its tickets, its station"""
    def __init__(self, c, obs, first_ticket, second_ticket, station):
        self.c, self.obs, self.first_ticket, self.second_ticket, self.station = c, obs, first_ticket, second_ticket, station


def make_auth_server(c, s, obs, first_ticket, second_ticket, station):
    rec = _Rec(c, obs, first_ticket, second_ticket, station)
    return make_auth_server_dyn(c["version"], lambda username=None, pid=None: rec)


def make_auth_server_dyn(version, resolve):
    """the scripted authentication server; `resolve(username=…)` / `resolve(pid=…)` names the login (a _Rec) a call belongs to
    (one constant record for a single run, the current / the named step for a session); None = nobody the server knows"""
    def lookup(**kw):
        rec = resolve(**kw)
        if rec is None: raise common.RMCError("RendezVous::InvalidUsername")
        return rec
    def conn_data(rec):
        d = authentication.RVConnectionData()
        d.main_station = rec.station
        d.special_protocols = []
        d.special_station = common.StationURL()
        d.server_time = common.DateTime(0)
        return d
    def first_response(rec, with_source_key):
        fault = rec.c.get("fault")
        if fault == "first-rmc-error":
            raise common.RMCError("Authentication::UnderMaintenance")
        r = rmc.RMCResponse()
        r.result = common.Result.error("Authentication::ValidationFailed") if fault == "first-error-result" else common.Result.success()
        r.pid = rec.c["pid"]
        r.ticket = rec.first_ticket
        r.connection_data = conn_data(rec)
        r.server_name = "srv"
        if with_source_key: r.source_key = rec.c["source_key_text"]
        return r
    def ticket_response(source, target):
        rec = lookup(pid=source)
        fault = rec.c.get("fault")
        rec.obs["calls"].append("requestTicket %d %d" % (source, target))
        if fault == "second-rmc-error":
            raise common.RMCError("Authentication::TokenExpired")
        r = rmc.RMCResponse()
        r.result = common.Result.error("Authentication::InvalidParam") if fault == "second-error-result" else common.Result.success()
        r.ticket = rec.second_ticket
        r.key = ""
        return r

    if version < 40000:
        class Srv(authentication.AuthenticationServer):
            async def login(self, client, username):
                rec = lookup(username=username)
                rec.obs["calls"].append("login " + username); return first_response(rec, False)
            async def login_ex(self, client, username, extra):
                rec = lookup(username=username)
                rec.obs["calls"].append("loginEx " + username); rec.obs["extra"].append(type(extra).__name__); return first_response(rec, False)
            async def request_ticket(self, client, source, target):
                return ticket_response(source, target)
    else:
        class Srv(authentication.AuthenticationServerNX):
            # like a real server of its generation, it only implements the login method of its own version band
            async def validate_and_request_ticket(self, client, username):
                rec = lookup(username=username)
                rec.obs["calls"].append("validateAndRequestTicket " + username)
                if version >= 40400: raise common.RMCError("Core::NotImplemented")
                return first_response(rec, False)
            async def validate_and_request_ticket_with_custom_data(self, client, username, extra):
                rec = lookup(username=username)
                rec.obs["calls"].append("validateAndRequestTicketWithCustomData " + username); rec.obs["extra"].append(type(extra).__name__)
                if version >= 40400: raise common.RMCError("Core::NotImplemented")
                return first_response(rec, True)
            async def request_ticket(self, client, source, target):
                return ticket_response(source, target)
            async def validate_and_request_ticket_with_param(self, client, param):
                rec = lookup(username=param.username)
                fault = rec.c.get("fault")
                has = not isinstance(param.data, common.NullData)
                rec.obs["calls"].append("validateAndRequestTicketWithParam %s %d %d %d" % (param.username, 1 if has else 0, param.nex_version, param.client_version))
                rec.obs["extra"].append(type(param.data).__name__)
                if version < 40400: raise common.RMCError("Core::NotImplemented")
                if fault == "first-rmc-error" or fault == "first-error-result":
                    raise common.RMCError("Authentication::ValidationFailed" if fault == "first-error-result" else "Authentication::UnderMaintenance")
                r = authentication.ValidateAndRequestTicketResult()
                r.pid = rec.c["pid"]; r.ticket = rec.first_ticket; r.server_url = rec.station
                r.server_time = common.DateTime(0); r.server_name = "srv"; r.source_key = rec.c["source_key_text"]
                return r
    return Srv()


def run_case(c):
    """returns the observation dict for one configuration"""
    obs = {"calls": [], "extra": [], "attempts": [], "accepts": [], "handler_pids": [], "client_pid": None, "probe": None, "error": None, "keys": [],
           "entered": False, "responses": [], "rogue_accepts": [], "rogue_answers": []}
    variant = c.get("station")             # the advertised station is answered by a different server (see STATION_VARIANTS)
    with Sim(c.get("seed", 0)) as sim:
        sim.install_factories()
        apply_draws(sim, c.get("draws"))
        s = make_settings(c)
        if c.get("loss"):
            seen = set()
            def fate(tx):
                if tx.data in seen: return [0.01]
                seen.add(tx.data); return []          # the first copy of every distinct datagram is lost
            sim.net.fate = fate
        now = sim.clock.time()
        first_ticket, second_ticket = build_tickets(c, s, sim.rng, now)
        obs["tickets"] = (first_ticket.hex(), second_ticket.hex())
        placeholder = c["placeholder"]
        sid = c.get("sid", 2 if placeholder else 1)
        adv_host, adv_port = ("0.0.0.1", 1) if placeholder else (SECURE_HOST, SECURE_PORT)
        station = common.StationURL(address=adv_host, port=adv_port, PID=SECURE_PID, CID=c.get("cid", 0), sid=sid, stream=10, type=2)
        auth = make_auth_server(c, s, obs, first_ticket, second_ticket, station)
        probe = Probe(obs)

        # record accepted connections on any transport's serve()
        saved = []
        for cls in (prudp.PRUDPDatagramTransport, prudp.PRUDPSocketTransport):
            orig = cls.serve
            def wrapped(self, handler, port, type=10, key=None, _orig=orig, **kw):
                async def h(client):
                    if key is not None:
                        obs["rogue_accepts" if isinstance(key, RogueKey) else "accepts"].append((self.local_address() if hasattr(self, "local_address") else None, port, client.pid()))
                    await handler(client)
                return _orig(self, h, port, type, key, **kw)
            saved.append((cls, orig)); cls.serve = wrapped
        # record what backend.py asks rmc.connect for
        orig_connect = backend.rmc.connect
        def connect_rec(settings, host, port, vport=1, context=None, credentials=None, servers=[]):
            if credentials is not None:
                obs["attempts"].append((host, port, vport, credentials.pid, credentials.cid,
                                        credentials.ticket.session_key.hex(), credentials.ticket.internal.hex()))
            return orig_connect(settings, host, port, vport, context, credentials, servers)

        async def main():
            async with contextlib.AsyncExitStack() as stack:
                # who listens at the advertised station: the secure server, or (case["station"]) somebody else while the secure server lives elsewhere
                there = dict(key=SECURE_KEY) if variant is None else ({} if station_key(variant) is None else dict(key=station_key(variant)))
                if variant is not None:
                    await stack.enter_async_context(rmc.serve(s, [probe], GENUINE_HOST, GENUINE_PORT, vport=1, key=SECURE_KEY))
                if placeholder:
                    transport = await stack.enter_async_context(prudp.serve_transport(s, AUTH_HOST, AUTH_PORT))
                    await stack.enter_async_context(rmc.serve_on_transport(s, [auth], transport, 1))
                    await stack.enter_async_context(rmc.serve_on_transport(s, [probe], transport, sid, **there))
                else:
                    await stack.enter_async_context(rmc.serve(s, [auth], AUTH_HOST, AUTH_PORT))
                    await stack.enter_async_context(rmc.serve(s, [probe], SECURE_HOST, SECURE_PORT, vport=sid, **there))
                async with backend.connect(s, AUTH_HOST, AUTH_PORT) as be:
                    kwargs = {}
                    if c.get("password") is not None: kwargs["password"] = c["password"]
                    if c["extra"]:
                        info = authentication.AuthenticationInfo()
                        info.token = "tok"; info.ngs_version = 3; info.token_type = 1; info.server_version = 0
                        kwargs["auth_info"] = info
                    async with be.login(c["username"], **kwargs) as sc:
                        obs["entered"] = True            # login yielded a connection
                        obs["yielded_at"] = sim.now()
                        obs["client_pid"] = sc.pid()
                        data = await sc.request(PROBE_PROTOCOL, 1, b"")
                        obs["probe"] = struct.unpack("<Q", data)[0]

        backend.rmc.connect = connect_rec
        orig_decrypt = kerberos.ClientTicket.decrypt.__func__
        def decrypt_rec(cls, data, key, settings):
            obs["keys"].append(bytes(key).hex())
            return orig_decrypt(cls, data, key, settings)
        kerberos.ClientTicket.decrypt = classmethod(decrypt_rec)
        undo = [install_response_recorder(obs)]
        if variant is not None: undo.append(install_rogue(obs, variant, sim.rng))
        try:
            (setattr(sim.loop, "max_turns", MAX_TURNS), sim.run(main()))[1]
        except BaseException as e:
            if isinstance(e, (KeyboardInterrupt, SystemExit)): raise
            obs["error"] = exc_name(e)
            obs["error_text"] = exc_text(e)
        finally:
            backend.rmc.connect = orig_connect
            kerberos.ClientTicket.decrypt = classmethod(orig_decrypt)
            for cls, orig in saved: cls.serve = orig
            for u in reversed(undo): u()
        obs["vtime"] = sim.now()
        if c.get("draws"): obs["draws_made"] = draws_made(sim)
    return obs


# ---------------------------------------------------------------------------------------------------------------
# sessions: SEQUENCES of logins through one BackEndClient (one connection to the authentication server) and one
# Settings object.  The property quantifies over every login, not over every freshly made client: the k-th login
# through a client that has already logged in other accounts (or failed to) must behave exactly like that login
# on a fresh client.
import contextvars
_STEP = contextvars.ContextVar("c17_step", default=None)      # which step the running client-side task belongs to

SESSION_KEYS = ("version", "client_version", "kd", "key_size", "ticket_version", "pid_size", "transport", "seed")
GUEST_PASSWORD = "MMQea3n!fsik"      # what BackEndClient.login_guest supplies (a fact about the protocol's guest account)


def new_obs():
    return {"calls": [], "extra": [], "attempts": [], "accepts": [], "handler_pids": [], "client_pid": None, "probe": None, "error": None, "keys": []}


def step_case(sess, k):
    c = {key: sess[key] for key in SESSION_KEYS if key in sess}
    c.update(sess["steps"][k])
    return c


class SessionProbe:
    """like Probe, but the request names the step it belongs to, so that several open secure connections can be told apart"""
    PROTOCOL_ID = PROBE_PROTOCOL
    def __init__(self, out): self.out = out
    async def logout(self, client): pass
    async def handle(self, client, method_id, input, output):
        k = input.u32()
        (self.out["steps"][k] if k < len(self.out["steps"]) else self.out["stray"])["handler_pids"].append(client.pid())
        output.u64(client.pid() if client.pid() is not None else 0xFFFFFFFFFFFFFFFF)


def run_session(sess):
    """one Settings object, `nclients` BackEndClients on one authentication server, the steps of `sess` logged in through
    them: mode 'seq' = one after the other (each secure connection closed before the next login), 'hold' = one after the
    other while the earlier secure connections stay open, 'conc' = all logins in flight at the same time (user names and
    pids are distinct then).  Returns {"steps": [observation per step, same fields as run_case], "stray": {...}, "error"}.

    Time passing (modes 'seq' / 'hold'): a step may carry `at` = the virtual instant (seconds since the start of the session)
    at which its login begins (the simulation sleeps until then: minutes or days cost nothing), `group` = the name of a ticket
    group: the authentication server issues the tickets of a group ONCE (stamped `stamp` seconds after the start of the
    session — negative = before it —, default: the instant of the first login of the group) and hands the byte-identical
    tickets out to every later login of the group, and `reconnect` ('seq' only) = the BackEndClients of the session are closed
    before the pause and new ones are connected after it.  The secure servers live as long as the session.  Every step reports `timing` = {t0, t1:
    the virtual instants at which the login call began and returned / raised, stamp: the epoch second inside its ticket
    relative to the session's epoch}, and out["presentations"] lists every call of a keyed server's process_login_request:
    which server object, the CONNECT payload, the instant (ticks of 2^-30 s), the step, and what it returned or raised."""
    n = len(sess["steps"])
    mode = sess.get("mode", "seq")
    out = {"steps": [new_obs() for _ in range(n)], "stray": new_obs(), "error": None}
    cases = [step_case(sess, k) for k in range(n)]
    with Sim(sess.get("seed", 0)) as sim:
        sim.install_factories()
        apply_draws(sim, sess.get("draws"))
        s = make_settings(cases[0])                  # the ONE Settings object of the session
        if sess.get("loss"):
            seen = set()
            def fate(tx):
                if tx.data in seen: return [0.01]
                seen.add(tx.data); return []
            sim.net.fate = fate
        recs = [None] * n
        current = [None]                             # the step whose login is running (seq / hold)

        groups = {}                                  # ticket group -> (first, second, stamp): issued once, handed out again as they are
        def issue(k):
            """the authentication server's account data and tickets for step k: freshly issued, or the ones its group already has"""
            c = cases[k]
            g = c.get("group")
            if g is not None and g in groups:
                first, second, stamp = groups[g]
            else:
                stamp = sim.clock.time() if c.get("stamp") is None else sim.epoch + c["stamp"]
                first, second = build_tickets(c, s, sim.rng, stamp)
                if g is not None: groups[g] = (first, second, stamp)
            out["steps"][k]["tickets"] = (first.hex(), second.hex())
            out["steps"][k]["timing"] = {"stamp": int(stamp // 1) - int(sim.epoch)}
            placeholder = c["placeholder"]
            sid = c.get("sid", 2 if placeholder else 1)
            adv_host, adv_port = ("0.0.0.1", 1) if placeholder else (SECURE_HOST, SECURE_PORT)
            station = common.StationURL(address=adv_host, port=adv_port, PID=SECURE_PID, CID=c.get("cid", 0), sid=sid, stream=10, type=2)
            recs[k] = _Rec(c, out["steps"][k], first, second, station)

        def resolve(username=None, pid=None):
            if mode != "conc":
                k = current[0]
                if k is None or recs[k] is None: return None
                c = cases[k]
                # a protocol-following server knows its accounts: a call for somebody else is not answered with this account's data
                if username is not None and username != c["username"]:
                    out["stray"]["calls"].append("step %d: call for user %r while %r logs in" % (k, username, c["username"])); return None
                if pid is not None and pid != c["pid"]:
                    out["stray"]["calls"].append("step %d: requestTicket for pid %r while %r logs in" % (k, pid, c["pid"])); return None
                return recs[k]
            for k, c in enumerate(cases):
                if recs[k] is not None and ((username is not None and c["username"] == username) or (pid is not None and c["pid"] == pid)):
                    return recs[k]
            out["stray"]["calls"].append("call for unknown user=%r pid=%r" % (username, pid))
            return None

        auth = make_auth_server_dyn(sess["version"], resolve)
        probe = SessionProbe(out)

        def owner_of_accept(pid):
            if mode != "conc":
                return out["steps"][current[0]] if current[0] is not None else out["stray"]
            for k, c in enumerate(cases):
                if c["pid"] == pid and not out["steps"][k]["accepts"]: return out["steps"][k]
            return out["stray"]

        saved = []
        for cls in (prudp.PRUDPDatagramTransport, prudp.PRUDPSocketTransport):
            orig = cls.serve
            def wrapped(self, handler, port, type=10, key=None, _orig=orig, **kw):
                async def h(client):
                    if key is not None:
                        owner_of_accept(client.pid())["accepts"].append((self.local_address() if hasattr(self, "local_address") else None, port, client.pid()))
                    await handler(client)
                return _orig(self, h, port, type, key, **kw)
            saved.append((cls, orig)); cls.serve = wrapped
        orig_connect = backend.rmc.connect
        def connect_rec(settings, host, port, vport=1, context=None, credentials=None, servers=[]):
            if credentials is not None:
                k = _STEP.get()
                (out["steps"][k] if k is not None else out["stray"])["attempts"].append(
                    (host, port, vport, credentials.pid, credentials.cid, credentials.ticket.session_key.hex(), credentials.ticket.internal.hex()))
            return orig_connect(settings, host, port, vport, context, credentials, servers)
        orig_decrypt = kerberos.ClientTicket.decrypt.__func__
        def decrypt_rec(cls, data, key, settings):
            k = _STEP.get()
            (out["steps"][k] if k is not None else out["stray"])["keys"].append(bytes(key).hex())
            return orig_decrypt(cls, data, key, settings)

        out["presentations"] = []
        orig_plr = prudp.PRUDPServerStream.process_login_request
        def plr_rec(self, data, client, login=True):
            if self.key is None: return orig_plr(self, data, client, login)
            rec = {"server": "%s:%s/%s" % (tuple(self.addr) + (self.port,)) if isinstance(self.addr, (tuple, list)) else "%s/%s" % (self.addr, self.port),
                   "data": bytes(data).hex(), "now": ticks(sim.now()), "login": bool(login), "step": current[0] if mode != "conc" else None}
            out["presentations"].append(rec)
            try:
                r = orig_plr(self, data, client, login)
            except Exception as e:
                name = exc_name(e)
                rec["result"] = "err " + (name[4:] if name.startswith("exc ") else name)
                raise
            rec["result"] = ("accept %d %d %s" % (client.user_pid, client.user_cid, bytes(r).hex())) if login else ("again " + bytes(r).hex())
            return r

        def login_cm(be, c):
            if c.get("guest"): return be.login_guest()
            kwargs = {}
            if c.get("password") is not None: kwargs["password"] = c["password"]
            if c["extra"]:
                info = authentication.AuthenticationInfo()
                info.token = "tok"; info.ngs_version = 3; info.token_type = 1; info.server_version = 0
                kwargs["auth_info"] = info
            return be.login(c["username"], **kwargs)

        client_stacks, clients = [], []
        async def reconnect(i):
            """connect a new BackEndClient in the place of the closed client i"""
            clients[i] = await client_stacks[i].enter_async_context(backend.connect(s, AUTH_HOST, AUTH_PORT))

        async def one_step(k, clients, stack=None, gate=None):
            """log step k in; `stack` given = leave the secure connection open on it"""
            c, o = cases[k], out["steps"][k]
            recon = c.get("reconnect") and mode == "seq"
            if recon:
                for cs in reversed(client_stacks): await cs.aclose()      # the BackEndClients go away before the pause (last opened first) ...
            if c.get("at") is not None and c["at"] > sim.now():
                await anyio.sleep(c["at"] - sim.now())            # virtual time: the servers (and the open connections) live on
            if recon:
                for i in range(len(clients)): await reconnect(i)          # ... and new ones are connected after it
            _STEP.set(k)
            be = clients[c.get("client", 0) % len(clients)]
            try:
                if mode != "conc": current[0] = k
                issue(k)
                o["timing"]["t0"] = sim.now()
                if stack is not None:
                    sc = await stack.enter_async_context(login_cm(be, c))
                    o["timing"]["t1"] = sim.now()
                    o["client_pid"] = sc.pid()
                    o["probe"] = struct.unpack("<Q", await sc.request(PROBE_PROTOCOL, 1, struct.pack("<I", k)))[0]
                else:
                    async with login_cm(be, c) as sc:
                        o["timing"]["t1"] = sim.now()
                        o["client_pid"] = sc.pid()
                        o["probe"] = struct.unpack("<Q", await sc.request(PROBE_PROTOCOL, 1, struct.pack("<I", k)))[0]
                        if gate is not None:
                            await gate()
            except Exception as e:            # a failed login must leave the client usable: go on with the next step
                o["error"] = exc_name(e)
                o["error_text"] = exc_text(e)
                if "timing" in o: o["timing"].setdefault("t1", sim.now())
            finally:
                _STEP.set(None)

        async def main():
            async with contextlib.AsyncExitStack() as stack:
                transport = await stack.enter_async_context(prudp.serve_transport(s, AUTH_HOST, AUTH_PORT))
                await stack.enter_async_context(rmc.serve_on_transport(s, [auth], transport, 1))
                await stack.enter_async_context(rmc.serve_on_transport(s, [probe], transport, 2, key=SECURE_KEY))
                await stack.enter_async_context(rmc.serve(s, [probe], SECURE_HOST, SECURE_PORT, vport=1, key=SECURE_KEY))
                for _ in range(sess.get("nclients", 1)):
                    cs = contextlib.AsyncExitStack()
                    await stack.enter_async_context(cs)
                    client_stacks.append(cs)
                    clients.append(await cs.enter_async_context(backend.connect(s, AUTH_HOST, AUTH_PORT)))
                if mode == "seq":
                    for k in range(n): await one_step(k, clients)
                elif mode == "hold":
                    async with contextlib.AsyncExitStack() as held:
                        for k in range(n): await one_step(k, clients, stack=held)
                else:
                    # all logins in flight together; every secure connection stays open until all are through
                    waiting = [0]; pending = [n]; ev = anyio.Event()
                    def settle():
                        if waiting[0] >= pending[0]: ev.set()
                    async def gate():
                        waiting[0] += 1; settle()
                        await ev.wait()
                    async def task(k):
                        await one_step(k, clients, gate=gate)
                        if out["steps"][k]["probe"] is None:      # failed before it reached the gate
                            pending[0] -= 1; settle()
                    async with anyio.create_task_group() as tg:
                        for k in range(n): tg.start_soon(task, k)
                current[0] = None

        backend.rmc.connect = connect_rec
        kerberos.ClientTicket.decrypt = classmethod(decrypt_rec)
        prudp.PRUDPServerStream.process_login_request = plr_rec
        try:
            (setattr(sim.loop, "max_turns", MAX_TURNS), sim.run(main()))[1]
        except BaseException as e:
            if isinstance(e, (KeyboardInterrupt, SystemExit)): raise
            out["error"] = exc_name(e)
        finally:
            backend.rmc.connect = orig_connect
            kerberos.ClientTicket.decrypt = classmethod(orig_decrypt)
            prudp.PRUDPServerStream.process_login_request = orig_plr
            for cls, orig in saved: cls.serve = orig
        out["vtime"] = sim.now()
        if sess.get("draws"): out["draws_made"] = draws_made(sim)
    return out
