import NxModel.Nex.Rmc
import NxModel.DriverUtil
/-! line-protocol driver for the RMC framing model
  enc <mode> <protocol> <method|none> <callid> <error> <bodyhex>  ->  ok <hex> | err <Name>
  dec <hex>                                                     ->  ok <mode> <protocol> <method|none> <callid> <error> <bodyhex> | err <Name>
-/
open Nx Nx.Rmc

def showMsg (m : Msg) : String :=
  s!"ok {m.mode} {m.protocol} {match m.method with | some x => toString x | none => "none"} {m.callId} {m.error} {hexOut m.body}"

def step (line : String) : String :=
  match line.splitOn " " with
  | ["enc", mode, proto, meth, cid, err, body] =>
    match mode.toNat?, proto.toNat?, cid.toNat?, err.toInt?, fromHex body with
    | some mode, some protocol, some callId, some error, some body =>
      let method := if meth = "none" then none else meth.toNat?
      if meth ≠ "none" ∧ method.isNone then "bad-op" else
      match encode { mode, protocol, method, callId, error, body } with
      | .ok b => "ok " ++ hexOut b
      | .error e => "err " ++ e.name
    | _, _, _, _, _ => "bad-op"
  | ["spec", form, proto, cid, m, body] =>
    match proto.toNat?, cid.toNat?, m.toNat?, fromHex body with
    | some p, some c, some m, some body =>
      let sp : Option Spec := match form with
        | "req" => some (.request p c m body)
        | "ok" => some (.success p c m body)
        | "err" => some (.failure p c m)
        | _ => none
      match sp with
      | some sp => if sp.WF then "ok " ++ hexOut (specEncode sp) else "err NotWF"
      | none => "bad-op"
    | _, _, _, _ => "bad-op"
  | ["dec", data] =>
    match fromHex data with
    | some d => match decode d with
      | .ok m => showMsg m
      | .error e => "err " ++ e.name
    | none => "bad-op"
  | _ => "bad-op"

def main : IO Unit := runLines step
