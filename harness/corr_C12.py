"""C12 — checked-in protocol stubs and docs are exactly the generator's output.

 (a) the repository's generator is re-run in a scratch copy (generate_protocols.py + nintendo/files/proto, empty
     output directories, outside /repo and /verif) and every produced module/page is byte-compared with the
     working tree — exhaustive over the finite set of programs;
 (b) inventory bijection, kernel-checked on Nat-coded name lists collected from the working tree: every
     definition has its module and page, every *generated* module (generator's header comment) and every
     *generated* page ("generated automatically from" sentence) has its definition — the generator never
     deletes, so (a) cannot see an orphan;
 (c) S_py = S_proto: tables recovered by `ast` from the checked-in modules (classes, parents, DataHolder
     registrations, __init__ defaults, load/save bodies with gates, protocol ids, method ids, NORESPONSE,
     client request/response layouts) equal those of the definitions — kernel-checked equalities.
"""
import concurrent.futures, os, re, shutil, subprocess
import vf
from schema_proto2lean import my_ast, cross_check, code, uncode
import schema_py2tables as PT

LEVEL = "translation_validation"
PAGE_SENTENCE = re.compile(r"This page was generated automatically from `([^`]*)\.proto`")


def first_diff(a, b):
    la, lb = a.split(b"\n"), b.split(b"\n")
    for i, (x, y) in enumerate(zip(la, lb)):
        if x != y:
            return i + 1, x[:200].decode("utf8", "replace"), y[:200].decode("utf8", "replace")
    return min(len(la), len(lb)) + 1, "<end of file>" if len(la) <= len(lb) else la[len(lb)][:200].decode("utf8", "replace"), \
        "<end of file>" if len(lb) <= len(la) else lb[len(la)][:200].decode("utf8", "replace")


def run(ctx):
    repo = vf.REPO
    protodir = os.path.join(repo, "nintendo/files/proto")
    moddir = os.path.join(repo, "nintendo/nex")
    pagedir = os.path.join(repo, "docs/reference/nex")
    protos = sorted(f[:-6] for f in os.listdir(protodir) if f.endswith(".proto"))
    stray = sorted(f for f in os.listdir(protodir) if not f.endswith(".proto"))
    ctx.rule = ("programs = the generated module and the generated page of every definition file (2 per .proto): the repository's generator is re-run "
                "in a scratch copy and each output is byte-compared with the working tree (exhaustive), and re-run with the directory of definitions listed in sorted, reversed and shuffled order (same bytes required); plus kernel-checked obligations: inventory bijection "
                "(definitions <-> generated modules <-> generated pages) and S_py = S_proto (tables recovered by ast from each checked-in module). "
                "distinct non-trivial = files compared byte for byte that are non-empty")
    # ---------------- (a) re-generation
    gen = os.path.join(ctx.scratch, "regen")
    os.makedirs(os.path.join(gen, "nintendo/files"))
    os.makedirs(os.path.join(gen, "nintendo/nex"))
    os.makedirs(os.path.join(gen, "docs/reference/nex"))
    shutil.copy(os.path.join(repo, "generate_protocols.py"), gen)
    shutil.copytree(protodir, os.path.join(gen, "nintendo/files/proto"))
    p = subprocess.run([vf.PY, "-W", "ignore", "generate_protocols.py"], cwd=gen, stdout=subprocess.PIPE, stderr=subprocess.STDOUT, text=True, timeout=600)
    produced_m = sorted(os.listdir(os.path.join(gen, "nintendo/nex")))
    produced_d = sorted(os.listdir(os.path.join(gen, "docs/reference/nex")))
    if p.returncode != 0:
        ctx.violation("regen:generator-fails", "generate_protocols.py fails on the working tree's definitions: %s" % p.stdout[-400:].strip(),
                      {"output": p.stdout[-3000:], "how": "copy generate_protocols.py and nintendo/files/proto to an empty directory with nintendo/nex and docs/reference/nex, run it"})
    ndiff = 0
    for sub, tree_dir, files in (("nintendo/nex", moddir, produced_m), ("docs/reference/nex", pagedir, produced_d)):
        for f in files:
            new = open(os.path.join(gen, sub, f), "rb").read()
            path = os.path.join(tree_dir, f)
            rel = sub + "/" + f
            if not os.path.exists(path):
                ndiff += 1
                ctx.case(key=rel, nontrivial=True, tag="missing")
                ctx.violation("regen:" + rel, "the generator produces %s but the working tree has no such file" % rel, {"file": rel})
                continue
            old = open(path, "rb").read()
            same = old == new
            ctx.case(key=rel, nontrivial=len(new) > 0, tag="same" if same else "differs",
                     sample={"file": rel, "bytes": len(new), "equal": same} if len(ctx.samples) < 3 else None)
            if not same:
                ndiff += 1
                ln, a, b = first_diff(old, new)
                ctx.violation("regen:" + rel, "%s differs from the generator's output at line %d: tree %r, generator %r" % (rel, ln, a[:80], b[:80]),
                              {"file": rel, "line": ln, "working_tree": a, "generator": b,
                               "how": "re-run generate_protocols.py on nintendo/files/proto in a scratch copy and compare bytes"})
    # ---------------- (a') the order in which the directory of definitions is listed is arbitrary (os.listdir): the generator's
    # output must not depend on it — re-run with the listing sorted, reversed and shuffled
    orders = ["sorted", "reversed"] + ["shuffle:%d" % ctx.rng.getrandbits(16) for _ in range(2 if ctx.tier == "quick" else 10)]
    WRAP = ("import os, sys, random, runpy\n"
            "order = sys.argv[1]\n"
            "_ld = os.listdir\n"
            "def listdir(path='.'):\n"
            "    l = sorted(_ld(path))\n"
            "    if order == 'reversed': l.reverse()\n"
            "    elif order.startswith('shuffle:'): random.Random(int(order[8:])).shuffle(l)\n"
            "    return l\n"
            "os.listdir = listdir\n"
            "sys.argv = ['generate_protocols.py']\n"
            "runpy.run_path('generate_protocols.py', run_name='__main__')\n")
    def regen_in_order(order):
        g = os.path.join(ctx.scratch, "regen_" + order.replace(":", "_"))
        os.makedirs(os.path.join(g, "nintendo/files")); os.makedirs(os.path.join(g, "nintendo/nex")); os.makedirs(os.path.join(g, "docs/reference/nex"))
        shutil.copy(os.path.join(repo, "generate_protocols.py"), g)
        shutil.copytree(protodir, os.path.join(g, "nintendo/files/proto"))
        open(os.path.join(g, "_ordered.py"), "w").write(WRAP)
        q = subprocess.run([vf.PY, "-W", "ignore", "_ordered.py", order], cwd=g, stdout=subprocess.PIPE, stderr=subprocess.STDOUT, text=True, timeout=600)
        return order, g, q
    with concurrent.futures.ThreadPoolExecutor(max_workers=6) as ex:
        for order, g, q in ex.map(regen_in_order, orders):
            if q.returncode != 0:
                if p.returncode == 0:
                    ctx.violation("regen:order:" + order.split(":")[0], "generate_protocols.py fails when the definitions are listed in %s order: %s" % (order, q.stdout[-300:].strip()),
                                  {"order": order, "output": q.stdout[-3000:]})
                continue
            for sub, files in (("nintendo/nex", produced_m), ("docs/reference/nex", produced_d)):
                got = sorted(os.listdir(os.path.join(g, sub)))
                for f in sorted(set(files) | set(got)):
                    a = open(os.path.join(gen, sub, f), "rb").read() if f in files else None
                    b = open(os.path.join(g, sub, f), "rb").read() if f in got else None
                    ctx.case(key=("order", order, sub + "/" + f), nontrivial=bool(b), tag="order:" + order.split(":")[0] + (":same" if a == b else ":differs"))
                    if a != b:
                        ln, x, y = first_diff(a or b"", b or b"")
                        ctx.violation("regen:order-dependent:%s/%s" % (sub, f), "the generator's output for %s/%s depends on the order in which nintendo/files/proto is listed "
                                      "(%s order vs file-system order; first difference at line %d: %r / %r)" % (sub, f, order, ln, x[:80], y[:80]),
                                      {"file": sub + "/" + f, "order": order, "line": ln,
                                       "how": "run generate_protocols.py with os.listdir returning the definitions in the given order (harness/corr_C12.py regen_in_order)"})
    ctx.programs = len(produced_m) + len(produced_d)
    ctx.exhaustive = True
    ctx.extra["listing_orders"] = orders
    ctx.extra["regenerated_files"] = ctx.programs
    ctx.extra["byte_differences"] = ndiff
    # ---------------- (b) inventory
    gen_modules = []
    for f in sorted(os.listdir(moddir)):
        if f.endswith(".py"):
            head = open(os.path.join(moddir, f), errors="replace").read(400)
            if PT.HEADER in head.split("\n")[:4]:
                gen_modules.append(f[:-3])
    gen_pages, page_claims = [], {}
    for f in sorted(os.listdir(pagedir)):
        if f.endswith(".md"):
            m = PAGE_SENTENCE.search(open(os.path.join(pagedir, f), errors="replace").read(3000))
            if m:
                gen_pages.append(f[:-3]); page_claims[f[:-3]] = m.group(1)
    P, M, D = [code(x) for x in protos], [code(x) for x in gen_modules], [code(x) for x in gen_pages]
    lst = lambda l: "[" + ", ".join(map(str, l)) + "]"
    src = ["import NxProofs.SchemaInventory", "open Nx.Schema.Inv",
           "-- inventory collected from the working tree by harness/corr_C12.py",
           "def protos : List Nat := " + lst(P), "def modules : List Nat := " + lst(M), "def pages : List Nat := " + lst(D),
           "theorem inventory : inventoryOK protos modules pages = true := by decide +kernel",
           "theorem bijection : (∀ x, x ∈ protos ↔ x ∈ modules) ∧ (∀ x, x ∈ protos ↔ x ∈ pages) := inventoryOK_iff _ _ _ inventory"]
    ok, out = ctx.lean_check("Inventory", "\n".join(src) + "\n")
    ctx.obligation(ok); ctx.obligation(ok)
    cs = lambda l: ",".join(map(str, l)) if l else "-"
    inv = ctx.driver().batch(["inv %s %s %s" % (cs(P), cs(M), cs(D))])[0]
    parts = [x.strip() for x in inv.split("|")]
    model_ok = parts[0] == "ok 1"
    names = lambda s: [] if s == "-" else [uncode(int(x)) for x in s.split(",")]
    ctx.extra["inventory"] = {"definitions": len(P), "generated_modules": len(M), "generated_pages": len(D)}
    if model_ok != ok:
        ctx.corr_break("inventory-kernel-vs-driver", "kernel says %s, compiled checker says %s" % (ok, inv), {"lean_output": out[-800:]})
    if not ok or not model_ok:
        found = False
        for kind, what, items in (("proto-without-module", "definition %s.proto has no generated module nintendo/nex/%s.py", names(parts[1])),
                                  ("module", "generated module nintendo/nex/%s.py has no definition %s.proto", names(parts[2])),
                                  ("proto-without-page", "definition %s.proto has no generated page docs/reference/nex/%s.md", names(parts[3])),
                                  ("page", "generated page docs/reference/nex/%s.md has no definition %s.proto (the generator never deletes: stale output)", names(parts[4]))):
            for n in items:
                found = True
                ctx.violation("inventory:%s:%s" % (kind, n), what % (n, n),
                              {"item": n, "kind": kind, "definitions": protos, "generated_modules": gen_modules, "generated_pages": gen_pages,
                               "how": "ls nintendo/files/proto; grep -l 'generated automatically' nintendo/nex/*.py docs/reference/nex/*.md"})
        if not found:
            ctx.corr_break("inventory", "inventory obligation fails but no orphan was isolated", {"driver": inv, "lean_output": out[-800:]})
    for page, claim in page_claims.items():
        ctx.case(key="claim:" + page, nontrivial=True, tag="page-claim")
        if claim != page:
            ctx.violation("inventory:page-claims:%s" % page, "page %s.md says it was generated from %s.proto" % (page, claim), {"page": page, "claims": claim})
    if stray:
        ctx.extra["non_proto_files_in_proto_dir"] = stray
    # ---------------- (c) S_py = S_proto
    prepared = {}
    for n in protos:          # serial: the repository's parser prints and chdirs (not thread-safe)
        try:
            past, problem = cross_check(protodir, repo, n)
            if past is None:
                prepared[n] = (None, "definition unreadable: %s" % problem); continue
            path = os.path.join(moddir, n + ".py")
            if not os.path.exists(path):
                prepared[n] = (None, "module missing"); continue
            prepared[n] = PT.lean_tables(n, past, PT.module_tables(path))
        except Exception as e:
            prepared[n] = (None, "ast extraction failed: %r" % (e,))
    def one(n):
        src, names = prepared[n]
        if src is None: return n, None, names, []
        ok, out = ctx.lean_check("Tables_" + n, src)
        failed = set()
        if not ok:
            lines = src.split("\n")
            for m in re.finditer(r"\.lean:(\d+):\d+: error", out):
                for i in range(int(m.group(1)) - 1, -1, -1):
                    if i < len(lines) and lines[i].startswith("theorem "):
                        failed.add(lines[i].split()[1]); break
            if not failed: failed = set(names)
        return n, [(t, t not in failed) for t in names], out, names
    with concurrent.futures.ThreadPoolExecutor(max_workers=8) as ex:
        for n, res, out, names in ex.map(one, protos):
            if res is None:
                ctx.obligation(False)
                if not ctx.violations:
                    ctx.corr_break("tables:" + n, "S_py for %s could not be recovered: %s" % (n, out), {"module": n})
                continue
            for t, ok in res:
                ctx.obligation(ok)
                ctx.case(key="tables:%s:%s" % (n, t), nontrivial=True, tag="S_py=S_proto:" + ("ok" if ok else "FAILS"))
                if not ok:
                    # the property's own oracle is the byte comparison of (a); it names the file and line
                    if not any(v[0] in ("regen:nintendo/nex/%s.py" % n,) for v in ctx.violations) and "regen:generator-fails" not in [v[0] for v in ctx.violations]:
                        ctx.corr_break("tables:%s:%s" % (n, t), "semantic obligation %s (module %s.py vs %s.proto) does not check although the module is byte-identical to the generator's output" % (t, n, n),
                                       {"module": n, "theorem": t, "lean_output": out[-1200:]})
    ctx.assumptions.append("byte equality is established by re-running the repository's own generator (exhaustive over the 54 outputs), not by a Lean theorem")
    ctx.assumptions.append("a module counts as generated iff it carries the generator's header comment, a page iff it carries the 'generated automatically from' sentence")
