"""C14, the NotImplemented clause with NON-EMPTY parameter bodies.

`methods the definition marks unsupported, or a server leaves unimplemented, yield NotImplemented` quantifies over every
request a caller may send, not only over requests with an empty parameter stream.  One worker = one generated module
under a list of configurations (nex.version, structure header via the transport's minor version, pid size); per
configuration and protocol (response-less protocols have no answer to judge and are skipped) ONE connection
real RMCClient -> in-memory pair -> real RMCClient -> the generated server class *as generated* (every method at its
stub), and next to it a twin connection to the same class with a recording implementation behind every supported method.

Targets and parameter bodies:
  U  every method the definition marks unsupported (`method name;`): no client method is generated, so raw RMC requests;
  K  method ids the server does not know (0 / 1 if free, max+1, max+1000, 2^32-1, one drawn);
  P  a protocol id nobody registered (one-byte and extended form);
     bodies for U, K, P: one byte, a u32, a plausible hand-made stream (u32 + string + list), the definition's own encoding
     of the arguments of a supported method of the same module (captured from the generated client), the library's encoding
     of a structure of the module, and arbitrary bytes of several lengths (1 .. 2048);
  S  every supported method, left at the generated stub:
     (a) through the generated client with schema-directed arguments (the definition's own encoding);
     (b) raw: that encoding followed by 1..16 more bytes (a request decoder does not check for left-over input);
     (c) raw: the encoding truncated / with a byte changed / arbitrary bytes.
Oracle (on the real code):
  U, K, P, S(a): the answer is Core::NotImplemented, whatever the body is;
  S(b), S(c): the same body is sent to the twin: if it reaches the recording implementation (i.e. the generated handler
     could extract its parameters) the stub server must answer Core::NotImplemented; if it does not (the parameters are
     not decodable: the handler fails before it gets to the stub) the answer must at least not be a success.
Model: `dispatch` (NxModel/Nex/Schema.lean; not_supported / supported_runs of NxProps/C14.lean) has no parameter-body
argument at all - the line is replayed per target; `sreq` (serverRequest) is replayed for the bodies of S(b) / S(c) and
its verdict (decodable or not) compared with what the twin showed (a difference on S(b) is a broken correspondence; on
arbitrary bytes it is only counted: malformed input is C13's business).

Re-run one request:  NX_REPO=<tree> /venv/bin/python harness/c14_notimpl.py <replay.json>"""
import asyncio, json, os, random, struct, sys, traceback

NI = "Core::NotImplemented"
RAND_LENS = (1, 2, 3, 5, 8, 13, 16, 33, 64, 255, 256, 1024, 2048)


def task(args):
    repo, name, cfgs, seed, exe, deep = args
    res = {"module": name, "cases": 0, "lines": 0, "tags": {}, "diffs": [], "keys": [], "samples": [], "error": None,
           "methods": 0, "fc_cases": 0}
    try:
        _task(repo, name, cfgs, seed, exe, deep, res)
    except Exception:
        res["error"] = traceback.format_exc()
        res["error_in_library"] = os.path.join(os.path.abspath(repo), "nintendo") + os.sep in res["error"]
    return res


def _short(x, n=1500):
    x = str(x)
    return x if len(x) <= n else x[:n] + "...(%d more)" % (len(x) - n)


class Pipe:
    """in-memory transport between two RMCClient objects"""
    def __init__(self, minor):
        self.q = asyncio.Queue(); self.peer = None; self.minor = minor
    def minor_version(self): return self.minor
    async def send(self, data): await self.peer.q.put(bytes(data))
    async def recv(self):
        import anyio
        d = await self.q.get()
        if d is None: raise anyio.EndOfStream
        return d
    async def close(self):
        await self.peer.q.put(None); await self.q.put(None)
    disconnect = close
    def pid(self): return 1
    def local_address(self): return ("127.0.0.1", 1)
    def remote_address(self): return ("127.0.0.1", 2)
    def local_sid(self): return 1
    def remote_sid(self): return 1


class World:
    """the module under test, its schema and generator"""
    def __init__(self, repo, name, rng):
        sys.path.insert(0, repo)
        import importlib, logging
        logging.disable(logging.CRITICAL)
        from schema_proto2lean import load_env
        import schema_values as SV
        import c14_values as V14
        from nintendo.nex import common, streams, rmc, settings as nexsettings, notification
        self.common, self.streams, self.rmc, self.nexsettings = common, streams, rmc, nexsettings
        self.mod = importlib.import_module("nintendo.nex." + name)
        if not os.path.abspath(self.mod.__file__).startswith(os.path.abspath(repo)):
            raise RuntimeError("module %s imported from %s" % (name, self.mod.__file__))
        self.env, problem = load_env(os.path.join(repo, "nintendo/files/proto"), repo, name)
        if self.env is None: raise RuntimeError(problem)
        self.name = name
        self.gen = V14.Gen14(self.env, rng)
        self.real = SV.Real(self.gen, self.mod, common, notification)
        self.SV = SV

    def settings(self, cfg):
        s = self.nexsettings.default()
        s["nex.version"] = cfg[0]; s["nex.struct_header"] = 0; s["nex.pid_size"] = cfg[2]
        return s

    def server_class(self, pname):
        from schema_tie import make_class_name
        return getattr(self.mod, make_class_name(pname, "Server"))

    def client_class(self, pname):
        from schema_tie import make_class_name
        return getattr(self.mod, make_class_name(pname, "Client"))


async def ask(W, client, protocol, method, body):
    """one raw request -> the name of the answer"""
    import anyio
    try:
        with anyio.fail_after(10):
            await client.request(protocol, method, body)
        return "returned"
    except W.common.RMCError as e:
        try: return e.name()
        except Exception: return "error 0x%08X" % (e.code() & 0xFFFFFFFF)
    except TimeoutError:
        return "no-answer"


def unknown_ids(p, rng):
    known = {m["id"] for m in p["methods"]}
    top = max(known | {0})
    cand = [0, 1, top + 1, top + 1000, 0xFFFFFFFF, rng.randrange(top + 2, 1 << 32)]
    out = []
    for c in cand:
        if c not in known and c not in out: out.append(c)
    return out


def unknown_protocols(W, p):
    ids = {q["id"] for q in W.env.protos}
    small = next(i for i in range(1, 0x7F) if i not in ids and i != p["id"])
    return [small, 0x7E00 + len(W.name)]


async def open_pair(W, tg, cfg, minor, servers):
    a, b = Pipe(minor), Pipe(minor); a.peer = b; b.peer = a
    st = W.settings(cfg)
    rc, rs = W.rmc.RMCClient(st, a), W.rmc.RMCClient(st, b)
    tg.start_soon(rc.start, [])
    tg.start_soon(rs.start, servers)
    return rc, rs, st


async def session(W, cfg, p, rng, deep, first, record, doing):
    """one protocol under one configuration: stub server and recording twin; `record(kind, key, payload, lines)`"""
    import anyio
    from schema_proto2lean import code
    from schema_tie import FUEL
    SV, gen, real = W.SV, W.gen, W.real
    pname = p["name"]
    minor = rng.choice([3, 4, 5]) if cfg[1] else rng.choice([0, 1, 2])
    cs = "%d %d %d %d" % (cfg[0], cfg[1], cfg[2], FUEL)
    base = {"module": W.name, "protocol": pname, "protocol_id": p["id"], "cfg": list(cfg), "minor_version": minor}
    async with anyio.create_task_group() as tg:
        stub = W.server_class(pname)()
        twin = W.server_class(pname)()
        reached = []
        for m in p["methods"]:
            if not m["supported"]: continue
            async def impl(client, *a, _n=m["name"]):
                reached.append(_n)
                raise W.common.RMCError("Core::AccessDenied")
            setattr(twin, m["name"], impl)
        rc, rs, st = await open_pair(W, tg, cfg, minor, [stub])
        rc2, rs2, _ = await open_pair(W, tg, cfg, minor, [twin])
        try:
            last = {}
            orig = rc.request
            async def request(protocol, method, body, noresponse=False):
                last["body"] = bytes(body); last["pm"] = (protocol, method)
                return await orig(protocol, method, body, noresponse)
            rc.request = request
            cli = W.client_class(pname)(rc)

            # ---------- S: every supported method left at the generated stub
            encodings = []                  # the definition's own encodings seen on this connection (for U / K / P)
            for m in p["methods"]:
                if not m["supported"]: continue
                mref = "%d %d" % (code(pname), code(m["name"]))
                args = [gen.gen(v["type"], cfg, 0, False) for v in m["request"]]
                rargs = [real.build_typed(v["type"], t) for v, t in zip(m["request"], args)]
                doing.clear(); doing.update(base, op="call of a method left at the generated stub, through the generated client", method=m["name"], args=_short(SV.vals(args), 3000))
                last.clear()
                try:
                    with anyio.fail_after(10):
                        await getattr(cli, m["name"])(*rargs)
                    r = "returned"
                except W.common.RMCError as e:
                    r = e.name()
                except TimeoutError:
                    r = "no-answer"
                except Exception as e:
                    r = "exc %s: %s" % (type(e).__name__, _short(e, 120))
                if "body" not in last:
                    record("skip", "%s:%s.%s:stub-client:%r" % (W.name, pname, m["name"], cfg), {"why": "client-side encoding failed: " + r}, [])
                    continue
                body = last["body"]
                if body: encodings.append((m["name"], body))
                record("ni", "%s:%s.%s:stub-client:%r" % (W.name, pname, m["name"], cfg),
                       dict(base, target="unimplemented", method=m["name"], method_id=m["id"], body=body, body_kind="the generated client's encoding of %s" % _short(SV.vals(args), 400),
                            via="generated client", answer=r, must_be_ni=True),
                       ["dispatch %d %d 0" % (code(pname), m["id"])])
                # raw variants of that body
                variants = [("trailing", "encoding + %d trailing byte(s)", body + rng.randbytes(rng.choice([1, 1, 2, 4, 16, rng.randint(1, 16)])), True)]
                muts = []
                if body:
                    muts.append(("truncated", "encoding truncated to %d byte(s)", body[:rng.randrange(len(body))]))
                    i = rng.randrange(len(body))
                    muts.append(("byte-changed", "encoding with one byte changed (%d bytes)", body[:i] + bytes([body[i] ^ rng.choice([1, 0x80, 0xFF])]) + body[i + 1:]))
                muts.append(("arbitrary", "arbitrary bytes (%d)", rng.randbytes(rng.choice(RAND_LENS))))
                if not deep: muts = [rng.choice(muts)]
                variants += [(l, k, b_, False) for l, k, b_ in muts]
                for label, kind, vb, is_valid_prefix in variants:
                    kind = kind % (len(vb) - len(body) if is_valid_prefix else len(vb))
                    doing.clear(); doing.update(base, op="raw request to a method left at the generated stub", method=m["name"], body_hex=_short(vb.hex(), 4200))
                    n0 = len(reached)
                    r2 = await ask(W, rc2, p["id"], m["id"], vb)
                    hit = len(reached) > n0
                    r1 = await ask(W, rc, p["id"], m["id"], vb)
                    record("stubraw", "%s:%s.%s:stub-raw:%r:%s" % (W.name, pname, m["name"], cfg, label),
                           dict(base, target="unimplemented", method=m["name"], method_id=m["id"], body=vb, body_kind=kind, via="raw RMC request",
                                answer=r1, twin_answer=r2, twin_reached=hit, valid_prefix=is_valid_prefix),
                           ["dispatch %d %d 0" % (code(pname), m["id"]), "sreq %s %s %s" % (cs, mref, SV.hx(vb))])

            # ---------- bodies for the targets that never look at their parameters
            def bodies():
                out = [("u8", "one byte", rng.choice([b"\0", b"\x01", rng.randbytes(1)])), ("u32", "a u32", struct.pack("<I", rng.choice([0, 1, 12345, 0xFFFFFFFF, rng.randrange(1 << 32)])))]
                s = W.streams.StreamOut(st)
                s.u32(rng.randrange(1 << 32)); s.string(rng.choice(["parameter", "", "caf\u00e9", "x" * 300])); s.list([rng.randrange(1 << 32) for _ in range(rng.randrange(4))], s.u32)
                out.append(("stream", "hand-made stream u32 + string + list<u32>", s.get()))
                if encodings:
                    mn, b_ = rng.choice(encodings)
                    out.append(("sibling", "the generated client's encoding of the arguments of %s.%s" % (pname, mn), b_))
                names = [s_["name"] for s_ in W.env.order if s_["name"] in W.env.structs]
                if names:
                    sn = rng.choice(names)
                    try:
                        o = W.streams.StreamOut(st); o.add(real.build(gen.obj(sn, cfg)))
                        out.append(("struct", "the library's encoding of a %s" % sn, o.get()))
                    except Exception:
                        pass
                lens = list(RAND_LENS) if deep else rng.sample(RAND_LENS, 3)
                out += [("arbitrary%d" % n, "arbitrary bytes (%d)" % n, rng.randbytes(n)) for n in lens]
                return [(l, k, b_) for l, k, b_ in out if b_]

            async def poke(target, label, protocol, method_id, mname, dline):
                for blabel, kind, b_ in bodies():
                    doing.clear(); doing.update(base, op="raw request", target=target, method_id=method_id, body_hex=_short(b_.hex(), 4200))
                    r = await ask(W, rc, protocol, method_id, b_)
                    record("ni", "%s:%s:%s:%r:%s" % (W.name, label, target, cfg, blabel),
                           dict(base, target=target, protocol_id=protocol, method=mname, method_id=method_id, body=b_, body_kind=kind, via="raw RMC request", answer=r, must_be_ni=True),
                           [dline])

            # ---------- U: methods the definition marks unsupported
            for m in p["methods"]:
                if m["supported"]: continue
                await poke("unsupported", "%s.%s" % (pname, m["name"]), p["id"], m["id"], m["name"], "dispatch %d %d 1" % (code(pname), m["id"]))
            # ---------- K: unknown method ids
            for mid in unknown_ids(p, rng):
                await poke("unknown-method", "%s#%d" % (pname, mid), p["id"], mid, None, "dispatch %d %d 1" % (code(pname), mid))
            # ---------- P: a protocol nobody registered
            if first:
                for pid in unknown_protocols(W, p):
                    await poke("unknown-protocol", "protocol#%d" % pid, pid, rng.choice([1, m_id_or(p, rng)]), None, "dispatch 1 1 1")
        finally:
            await rc.close()
            await rc2.close()


def m_id_or(p, rng):
    ids = [m["id"] for m in p["methods"]] or [1]
    return rng.choice(ids)


def judge(W, checks, outs, res, tag):
    """the oracle over what was recorded; one reported failure per (kind of target), the one with the shortest body"""
    worst = {}
    def fail(vclass, key, what, pl, soft=False):
        d = {k: v for k, v in pl.items() if k != "body"}
        d.update(key=key, what=what, body_hex=pl["body"].hex() or "-", body_length=len(pl["body"]), expected=NI,
                 how="NX_REPO=<tree> /venv/bin/python harness/c14_notimpl.py <this file>: sends this one request over an RMCClient pair (in-memory transport, the given minor version and settings) to the generated server class of the protocol, no method implemented")
        if soft: d["soft"] = True
        else: d["vkey"] = "not-implemented-with-parameters:%s" % vclass
        slot = worst.setdefault((vclass, soft), {"n": 0, "best": None, "more": []})
        slot["n"] += 1
        if slot["best"] is None or len(pl["body"]) < slot["best"]["body_length"]:
            if slot["best"] is not None: slot["more"].append(slot["best"]["what"])
            slot["best"] = d
        elif len(slot["more"]) < 6: slot["more"].append(what)
    def shown(pl):
        who = "%s.%s (method id %d)" % (pl["protocol"], pl["method"], pl["method_id"]) if pl.get("method") else (
            "method id %d of %s" % (pl["method_id"], pl["protocol"]) if pl["target"] != "unknown-protocol" else "protocol id %d (registered: %s = %d only), method id %d" % (pl["protocol_id"], pl["protocol"], pl_proto_id(W, pl), pl["method_id"]))
        return "%s, %s, with %d byte(s) of parameters [%s]%s" % (who, pl["via"], len(pl["body"]), _short(pl["body_kind"], 200), "" if len(pl["body"]) > 64 else " " + pl["body"].hex())
    for kind, key, i0, pl in checks:
        res["cases"] += 1
        if kind == "skip":
            tag("notimpl-body:skipped:" + pl["why"].split(":")[0][:40]); continue
        md = outs[i0]
        if kind == "ni":
            tag("notimpl-body:%s:%s:%s" % (pl["target"], "client" if pl["via"] == "generated client" else "raw", pl["answer"].split(" ")[0]))
            if pl["answer"] != NI:
                fail(pl["target"], key, "%s must be answered with %s (%s), the real code answered %s" % (
                    shown(pl), NI, {"unsupported": "the definition marks the method unsupported", "unknown-method": "the server does not know the method id",
                                    "unknown-protocol": "no server is registered for the protocol", "unimplemented": "the server leaves the method at the generated stub"}[pl["target"]], pl["answer"]), pl)
            elif md != "ok NotImplemented":
                fail(pl["target"], key, "model dispatch says %s for %s" % (md, shown(pl)), pl, soft=True)
            else:
                res["keys"].append(key)
        elif kind == "stubraw":
            ms = outs[i0 + 1]
            decodable = ms.startswith("ok")
            tag("notimpl-body:stub-raw:%s:%s" % ("decodable" if pl["twin_reached"] else "undecodable", pl["answer"].split(" ")[0]))
            tag("notimpl-body:stub-raw:model-%s" % ("agrees" if decodable == pl["twin_reached"] else "differs-on-%s" % ("valid-prefix" if pl["valid_prefix"] else "arbitrary-bytes")))
            if pl["twin_reached"] and pl["answer"] != NI:
                fail("unimplemented", key, "%s: the same request reaches the implementation of a server that implements the method, so a server that leaves it at the generated stub must answer %s; the real code answered %s" % (
                    shown(pl), NI, pl["answer"]), pl)
            elif not pl["twin_reached"] and pl["answer"] == "returned":
                fail("unimplemented", key, "%s: answered with SUCCESS by a server that does not implement the method" % shown(pl), pl)
            elif pl["answer"] == "no-answer":
                fail("unimplemented", key, "%s: no answer at all within 10 s" % shown(pl), pl)
            elif md != "ok NotImplemented":
                fail("unimplemented", key, "model dispatch says %s for %s" % (md, shown(pl)), pl, soft=True)
            elif pl["valid_prefix"] and decodable != pl["twin_reached"]:
                fail("unimplemented", key, "%s: the interpreter's serverRequest says %s, the generated handler %s its parameters" % (shown(pl), ms[:60], "could extract" if pl["twin_reached"] else "could not extract"), pl, soft=True)
            else:
                res["keys"].append(key)
    for (vclass, soft), slot in sorted(worst.items(), key=lambda kv: str(kv[0])):
        d = slot["best"]
        d["failing_requests_of_this_kind_in_this_module"] = slot["n"]
        if slot["more"]: d["other_failing_requests"] = [_short(x, 400) for x in slot["more"][:6]]
        if slot["n"] > 1: d["what"] += " (%d such requests fail in this module)" % slot["n"]
        tag("notimpl-body:FAILS:%s" % vclass, slot["n"])
        res["diffs"].append(d)


def pl_proto_id(W, pl):
    return next((q["id"] for q in W.env.protos if q["name"] == pl["protocol"]), -1)


def _task(repo, name, cfgs, seed, exe, deep, res):
    import anyio
    from schema_tie import driver_batch
    rng = random.Random("notimpl/%s/%s/%r" % (seed, name, cfgs[0]))
    W = World(repo, name, rng)
    lines = W.env.driver_lines()
    nsetup = len(lines)
    checks, crashes, doing = [], [], {}
    tags = res["tags"]
    def tag(t, n=1): tags[t] = tags.get(t, 0) + n
    def record(kind, key, payload, ls):
        checks.append((kind, key, len(lines), payload)); lines.extend(ls)

    async def main():
        for cfg in cfgs:
            first = True
            for p in W.env.protos:
                if p["noresponse"]:
                    tag("notimpl-body:response-less-protocol-skipped"); continue
                try:
                    await session(W, cfg, p, rng, deep, first, record, doing)
                except Exception as e:
                    tb = traceback.format_exc()
                    leaf = e
                    while getattr(leaf, "exceptions", None): leaf = leaf.exceptions[0]
                    crashes.append({"exc": "%s: %s" % (type(leaf).__name__, _short(leaf, 300)), "traceback": tb[-3000:], "doing": dict(doing),
                                    "in_library": os.path.join(os.path.abspath(repo), "nintendo") + os.sep in tb})
                first = False
    anyio.run(main)
    infra = [c for c in crashes if not c["in_library"]]
    if infra:
        raise RuntimeError("harness failure while %r:\n%s" % (infra[0]["doing"], infra[0]["traceback"]))
    for c in crashes[:3]:
        d = c["doing"]
        res["diffs"].append({"key": "%s:crash:notimpl-session" % name, "module": name, "input": d, "traceback": c["traceback"],
                             "vkey": "library-exception:%s:not-implemented-session" % name,
                             "what": "the library raised %s outside any call of the harness that expects errors, while processing: %s" % (c["exc"], _short({k: v for k, v in d.items() if k not in ("args", "body_hex")}, 300))})
    outs = driver_batch(exe, lines)
    res["lines"] = len(lines)
    for i in range(nsetup):
        if outs[i] != "ok": raise RuntimeError("driver rejected schema line %d: %r -> %r" % (i, lines[i][:200], outs[i]))
    judge(W, checks, outs, res, tag)


# ---------------------------------------------------------------- replay of one request
if __name__ == "__main__":
    here = os.path.dirname(os.path.abspath(__file__))
    sys.path[:0] = [os.path.join(here, "..", "lib"), os.path.join(here, "..", "tools"), here]
    repo = os.environ.get("NX_REPO", "/repo")
    rp = json.load(open(sys.argv[1]))
    W = World(repo, rp["module"], random.Random(0))
    import anyio
    body = b"" if rp["body_hex"] == "-" else bytes.fromhex(rp["body_hex"])
    p = next(q for q in W.env.protos if q["name"] == rp["protocol"])

    async def main():
        async with anyio.create_task_group() as tg:
            rc, rs, st = await open_pair(W, tg, tuple(rp["cfg"]), rp["minor_version"], [W.server_class(p["name"])()])
            try:
                r = await ask(W, rc, rp["protocol_id"], rp["method_id"], body)
            finally:
                await rc.close()
        print("request protocol %d method %d with %d byte(s) of parameters -> %s (expected %s)" % (rp["protocol_id"], rp["method_id"], len(body), r, NI))
        return r
    r = anyio.run(main)
    sys.exit(0 if r == NI else 1)
