import NxModel.Prudp.Endpoint
/-! C02: cleanup releases everything; a closed connection stays closed; an unanswered reliable packet is retransmitted
`resend_limit` times at intervals of `resend_timeout` and then the connection is torn down -/
namespace Nx.L1
open Nx Nx.Prudp

/-- everything a blocked caller waits on is released -/
def Conn.Released (c : Conn) : Prop :=
  c.state = STATE_DISCONNECTED ∧ c.eof = true ∧ c.handshakeEvent = true ∧ c.closeEvent = true ∧
  (∀ s, c.sched = some s → s.events = [])

theorem cleanup_released (c : Conn) : c.cleanup.c.Released := by
  unfold Conn.cleanup Conn.Released
  refine ⟨rfl, rfl, rfl, rfl, ?_⟩
  intro s hs
  simp only [R.ok] at hs
  cases hc : c.sched with
  | none => simp [hc] at hs
  | some s0 => simp [hc] at hs; rw [← hs]; rfl

theorem cleanup_no_error (c : Conn) : c.cleanup.err = none := rfl

/-- after the connection has ended, sends raise the closed-connection error and change nothing -/
theorem send_after_close (env : Env) (now : Time) (c : Conn) (data : Bytes) (sub : Nat) (h : c.state = STATE_DISCONNECTED) :
    (c.send env now data sub).c = c ∧ (c.send env now data sub).outs = [] ∧ (c.send env now data sub).err = some .closed := by
  unfold Conn.send
  rw [if_pos (by rw [h]; decide)]
  exact ⟨rfl, rfl, rfl⟩

theorem send_unreliable_after_close (env : Env) (now : Time) (c : Conn) (data : Bytes) (h : c.state = STATE_DISCONNECTED) :
    (c.sendUnreliable env now data).c = c ∧ (c.sendUnreliable env now data).outs = [] ∧
    (c.sendUnreliable env now data).err = some .closed := by
  unfold Conn.sendUnreliable
  rw [if_pos (by rw [h]; decide)]
  exact ⟨rfl, rfl, rfl⟩

/-- `close()` and `disconnect()` on an ended connection return at once -/
theorem close_after_close (env : Env) (now : Time) (c : Conn) (h : c.state = STATE_DISCONNECTED) :
    (c.close env now).c = c ∧ (c.close env now).outs = [] ∧ (c.close env now).err = none := by
  unfold Conn.close; rw [if_pos h]; exact ⟨rfl, rfl, rfl⟩

theorem disconnect_after_close (env : Env) (now : Time) (c : Conn) (h : c.state = STATE_DISCONNECTED) :
    (c.disconnect env now).c = c ∧ (c.disconnect env now).outs = [] := by
  unfold Conn.disconnect; rw [if_pos (by rw [h]; decide)]; exact ⟨rfl, rfl⟩

/-- one retransmission step: below the limit the same packet goes out again and the timer is re-armed one
    `resend_timeout` later with the counter incremented; at the limit the connection is torn down -/
theorem resend_step_below (env : Env) (now : Time) (c : Conn) (p : Packet) (k : Nat) (hk : k < c.resendLimit) (hl : c.linkUp = true) :
    c.resendPacket env now p k = R.ok (c.arm now p (k + 1)) [Out.emit c.remoteAddr p (encode env.cfg p)] := by
  unfold Conn.resendPacket
  rw [if_pos hk]
  simp [hl]

theorem resend_step_limit (env : Env) (now : Time) (c : Conn) (p : Packet) (k : Nat) (hk : ¬ k < c.resendLimit) :
    c.resendPacket env now p k = c.cleanup := by
  unfold Conn.resendPacket
  rw [if_neg hk]

end Nx.L1

namespace Nx.L1
open Nx Nx.Prudp

/-- a connection whose only timer is the retransmission timer of `p` (a silent peer: nothing ever cancels it) -/
def Conn.OnlyResend (c : Conn) (p : Packet) (k : Nat) (d : Time) : Prop :=
  ∃ n h, c.sched = some ⟨n, [⟨h, d, none, .resend p k⟩]⟩

theorem advance_empty (env : Env) (fuel : Nat) (T : Time) (c : Conn) (n : Nat) (h : c.sched = some ⟨n, []⟩) :
    Conn.advance env fuel T c = (c, []) := by
  cases fuel with
  | zero => rfl
  | succ f => simp [Conn.advance, h, Sched.nextDeadline]

theorem released_stable_advance (env : Env) (fuel : Nat) (T : Time) (c : Conn) (h : c.Released) (hs : c.sched.isSome) :
    (Conn.advance env fuel T c).1 = c := by
  obtain ⟨_, _, _, _, he⟩ := h
  cases hc : c.sched with
  | none => rw [hc] at hs; cases hs
  | some s =>
    have := he s hc
    obtain ⟨n, ev⟩ := s
    simp at this; subst this
    rw [advance_empty env fuel T c n hc]

/-- **retransmission chain / connect bound.** If the only timer of a connection is the retransmission timer of a
    packet that is never acknowledged (the peer is silent or answers nothing acceptable), then advancing the clock to
    `d + (limit − k)·resend_timeout` tears the connection down: DISCONNECTED, every queue EOF, handshake and close
    events set, no timer left. With `k = 0` and `d = t₀ + resend_timeout` this is the bound
    `t₀ + (resend_limit + 1)·resend_timeout` for a connect to an unresponsive peer. -/
theorem resend_chain (env : Env) (T : Nat) : ∀ (m : Nat) (c : Conn) (p : Packet) (k : Nat) (d : Nat) (fuel : Nat),
    c.OnlyResend p k d → c.linkUp = true → k + m = c.resendLimit → m + 1 ≤ fuel → d + m * (c.resendTimeout : Nat) ≤ T →
    (Conn.advance env fuel T c).1.Released := by
  intro m
  induction m with
  | zero =>
    intro c p k d fuel ⟨n, h, hs⟩ hl hk hf hT
    cases fuel with
    | zero => omega
    | succ f =>
      have hd : d ≤ T := by simpa using hT
      simp only [Conn.advance, hs, Sched.nextDeadline, List.foldl_cons, List.foldl_nil, hd, if_true, Sched.takeDue,
        List.filter_cons, List.filter_nil, Nat.le_refl, decide_true, Bool.not_true, List.filterMap_cons, List.filterMap_nil,
        Option.map_none, List.map_cons, List.map_nil, List.append_nil, Bool.false_eq_true, if_false, if_true,
        Conn.fireAll, Conn.fireOne, Conn.fire]
      have hk' : ¬ k < ({ c with sched := some ⟨n, []⟩ } : Conn).resendLimit := by
        show ¬ k < c.resendLimit; omega
      rw [resend_step_limit env d _ p k hk']
      simp only [cleanup_no_error]
      have hrel := cleanup_released ({ c with sched := some ⟨n, []⟩ } : Conn)
      have hsome : (({ c with sched := some ⟨n, []⟩ } : Conn).cleanup.c).sched.isSome := by
        simp [Conn.cleanup, R.ok]
      simp only [R.ok]
      rw [released_stable_advance env f T _ hrel hsome]
      exact hrel
  | succ m ih =>
    intro c p k d fuel ⟨n, h, hs⟩ hl hk hf hT
    cases fuel with
    | zero => omega
    | succ f =>
      have hmul : (m + 1) * (c.resendTimeout : Nat) = m * (c.resendTimeout : Nat) + (c.resendTimeout : Nat) := Nat.succ_mul _ _
      rw [hmul] at hT
      have hT' : d + (c.resendTimeout : Nat) + m * (c.resendTimeout : Nat) ≤ T := by
        generalize m * (c.resendTimeout : Nat) = y at hT ⊢; omega
      have hd : d ≤ T := by
        generalize m * (c.resendTimeout : Nat) = y at hT; omega
      simp only [Conn.advance, hs, Sched.nextDeadline, List.foldl_cons, List.foldl_nil, hd, if_true, Sched.takeDue,
        List.filter_cons, List.filter_nil, Nat.le_refl, decide_true, Bool.not_true, List.filterMap_cons, List.filterMap_nil,
        Option.map_none, List.map_cons, List.map_nil, List.append_nil, Bool.false_eq_true, if_false, if_true,
        Conn.fireAll, Conn.fireOne, Conn.fire]
      have hk' : k < ({ c with sched := some ⟨n, []⟩ } : Conn).resendLimit := by
        show k < c.resendLimit; omega
      have hl' : ({ c with sched := some ⟨n, []⟩ } : Conn).linkUp = true := hl
      rw [resend_step_below env d _ p k hk' hl']
      simp only [R.ok]
      apply ih _ p (k + 1) (d + c.resendTimeout) f
      · refine ⟨n + 1, n, ?_⟩
        simp [Conn.arm, Sched.schedule]
      · simp [Conn.arm]; exact hl
      · simp [Conn.arm]; omega
      · omega
      · have : (Conn.arm { c with sched := some ⟨n, []⟩ } d p (k + 1)).resendTimeout = c.resendTimeout := by simp [Conn.arm]
        rw [this]
        exact hT'

end Nx.L1
