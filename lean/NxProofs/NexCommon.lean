import NxProofs.NexStreams
/-! `Result` error bit -/
namespace Nx.Nex
open Nx

theorem or_and_self (c m : Nat) : (c ||| m) &&& m = m := by
  apply Nat.eq_of_testBit_eq
  intro i
  rw [Nat.testBit_and, Nat.testBit_or]
  cases c.testBit i <;> cases m.testBit i <;> rfl

theorem isError_mkError (c : Nat) : Result.isError (Result.mkError c) = true := by
  unfold Result.isError Result.mkError
  rw [or_and_self]; decide

theorem isSuccess_mkSuccess (c : Nat) : Result.isSuccess (Result.mkSuccess c) = true := by
  unfold Result.isSuccess Result.mkSuccess
  rw [and_errorMask, and_errorMask]
  have : (c - errorMask * (c / errorMask % 2)) / errorMask % 2 = 0 := by
    unfold errorMask; omega
  rw [this]; decide

theorem isError_eq_not_isSuccess (c : Nat) : Result.isError c = !Result.isSuccess c := by
  unfold Result.isError Result.isSuccess; simp

/-- the error bit is the only difference: codes below 2^31 come back unchanged -/
theorem mkSuccess_mkError (c : Nat) (h : c < errorMask) : Result.mkSuccess (Result.mkError c) = c := by
  rw [mkError_of_lt c h]
  unfold Result.mkSuccess
  rw [and_errorMask]
  have : (c + errorMask) / errorMask % 2 = 1 := by unfold errorMask at *; omega
  rw [this]; omega

theorem isError_iff_bit31 (c : Nat) : Result.isError c = true ↔ c / 2147483648 % 2 = 1 := by
  unfold Result.isError
  rw [and_errorMask]
  unfold errorMask
  rcases Nat.mod_two_eq_zero_or_one (c / 2147483648) with h | h <;> simp [h]

end Nx.Nex
