"""C07 — ONE read that carries packets for several virtual ports.

One client transport (one address / one stream connection) holds a connection to each of the server's 2..3 bound virtual ports;
all of them shake hands, send their rounds and disconnect at the same instants, and the path between the two transports
aggregates what is sent within 2 ms into one datagram (one stream read) — in both directions, so the SERVER transport and the
CLIENT transport both have to dispatch one read over their port tables. Optionally forged packets for ports nobody bound are
spliced into these reads (behind / in front of / between the genuine packets), and third parties send hand-made reads that
mix handshake requests for bound and unbound ports in every order.

Oracles (direct, no twin): every connection receives exactly its own echoes, tagged by the port that served them, in order;
every server handler receives exactly the messages of its own connection; with nothing spliced in FRONT of a genuine packet no
genuine packet is ever sent twice (nothing was lost); a third party's read is answered exactly by the ports it addressed —
requests up to the first undeliverable packet of the read MUST be answered (by the addressed port), later ones MAY be (the
exception barrier drops the rest of a read), nothing else may be; tables and the port table never grow beyond the genuine
connections. The server transport of the datagram runs is replayed through the Lean L1 model by the caller."""
import copy, random
import anyio
import anyio.lowlevel

from sim import Sim, quant, ticks, Deadlock, FakeStream
import prudp_session as ps
import multi_session as ms
from nintendo.nex import prudp

SERVER = ps.SERVER
THIRD = ("10.0.0.77", 41000)
WINDOW = 1.0 / 512


def pkt_fields(p):
    return {k: v for k, v in vars(p).items()}


def decode_clean(settings, data):
    """packets of one read, decoded by a decoder of its own (None: not decodable as a whole)"""
    sel = prudp.PRUDPMessageSelector(settings)
    try:
        if settings["prudp.transport"] == settings.TRANSPORT_UDP:
            enc = sel.analyze(data)
        else:
            enc = sel.lite
        r = enc.decode(data)
        if getattr(enc, "buffer", b""):
            return None
        return r
    except Exception:
        return None


def encoder_for(settings, version):
    return prudp.PRUDPMessageSelector(settings).select(version)


def forge_syn(settings, version, sport, dport, stype=10, dtype=10):
    """a correctly signed handshake request, with an explicit size so that further packets may follow it in a v0 datagram"""
    enc = encoder_for(settings, version)
    lite = settings["prudp.transport"] != settings.TRANSPORT_UDP
    p = prudp.PRUDPPacket(prudp.TYPE_SYN, prudp.FLAG_NEED_ACK | (prudp.FLAG_HAS_SIZE if version == 0 and not lite else 0))
    p.version = version
    p.source_type, p.dest_type, p.source_port, p.dest_port = stype, dtype, sport, dport
    p.session_id = p.packet_id = p.fragment_id = p.substream_id = 0
    p.max_substream_id = 0
    p.supported_functions = settings["prudp.supported_functions"]
    p.minor_version = settings["prudp.minor_version"]
    p.connection_signature = b"" if lite else bytes(enc.signature_size())
    p.payload = b""
    p.signature = enc.calc_packet_signature(p, b"", b"")
    return enc.encode(p)


def readdress(settings, one, dport, version=None):
    """a copy of a genuine packet, addressed to another destination port (None if it cannot be followed by further packets)"""
    pk = decode_clean(settings, one)
    if not pk or len(pk) != 1:
        return None
    q = copy.copy(pk[0])
    q.dest_port = dport
    lite = settings["prudp.transport"] != settings.TRANSPORT_UDP
    if not lite and q.version == 0 and not q.flags & prudp.FLAG_HAS_SIZE:
        return None
    try:
        return encoder_for(settings, q.version).encode(q)
    except Exception:
        return None


def third_patterns(bound, unbound):
    """reads a third party sends: S = handshake request, D = copy of somebody's genuine packet, for bound (b) / unbound (u) ports"""
    b1 = bound[0]; b2 = bound[1 % len(bound)]; b3 = bound[-1]
    u = unbound[0]; u2 = unbound[-1]
    pats = [[("S", b1), ("S", b2)], [("S", b2), ("S", b1)], [("S", b1), ("S", u)], [("S", u), ("S", b1)],
            [("S", b1), ("S", u), ("S", b2)], [("S", b1), ("S", b2), ("S", u)], [("S", u), ("S", b1), ("S", b2)],
            [("S", b1), ("D", u)], [("D", u), ("S", b1)], [("D", b1), ("S", b2)], [("S", b1), ("D", b2), ("S", b2)],
            [("S", u), ("S", u2)], [("S", b2), ("S", u2)], [("S", b1), ("S", b2), ("S", b3)], [("S", b3), ("S", b1), ("S", b2), ("S", u)],
            [("S", b3), ("D", u2), ("S", b1)]]
    return pats


def run(spec, seed, mp):
    """spec: ms.Spec with .groups = [dict(version=, vports=[...])] and .unbound = [ports nobody serves];
    mp = dict(aggregate=True/False, splice="none"|"behind"|"any", third=True/False, rechunk=True/False)"""
    rng = random.Random(seed)
    frng = random.Random(seed ^ 0x33CC33CC)          # the forger's PRNG
    out = ps.Session()
    out.spec, out.seed, out.mp = spec, seed, mp
    out.got, out.sent, out.srv_got = {}, {}, {}
    out.tables, out.errors, out.connect_errors = [], [], {}
    out.group_addr, out.conn_port = {}, {}
    out.aggregates = []          # (src, dst, number of packets in the read, positions of forged packets)
    out.front_splices = 0
    out.third = []               # (address, pattern, version)
    out.port_table_max = 0
    lite = spec.transport == "lite"
    bound = list(spec.vports)
    unbound = list(spec.unbound)
    with Sim(seed) as sim:
        sim.install_factories()
        net = sim.net
        log = net.log

        class _Const:
            def randint(self, a, b):
                return {0xFFFF: 0x1234, 0xFFFFFFFF: 0xABCDEF01, 0xFF: 0x5A}.get(b, a)
        sim._patch(prudp, "random", _Const())
        ss = spec.settings(spec.server_version)
        out.settings_s = ss
        out.epoch = sim.epoch
        streams = {}
        genuine_c2s = []         # single genuine packets (bytes) sent towards the server
        dropped_once = set()

        def splice(parts, to_server, own_ports):
            """forged packets for ports that are not bound at the receiver, behind / in front of / between the genuine ones"""
            if mp["splice"] == "none" or frng.random() < (0.4 if mp["splice"] == "behind" else 0.6):
                return parts, []
            parts = list(parts)
            forged_at = []
            for _ in range(frng.choice([1, 1, 2])):
                if to_server:
                    port = frng.choice(unbound)
                    if frng.random() < 0.5:
                        ver = 1 if lite else (frng.choice([0, 1]) if spec.server_version == 2 else spec.server_version)
                        pk0 = decode_clean(ss, parts[0])
                        if pk0 and not lite:
                            ver = pk0[0].version      # one datagram, one encoding
                        f = forge_syn(ss, ver, frng.randrange(1, 10), port)
                    else:
                        f = readdress(ss, frng.choice(parts), port)
                else:
                    port = frng.choice([p for p in range(1, 10) if p not in own_ports])
                    f = readdress(ss, frng.choice(parts), port)
                if f is None:
                    continue
                pos = len(parts) if mp["splice"] == "behind" else frng.randrange(0, len(parts) + 1)
                if any(x in dropped_once for x in parts[pos:]):
                    pos = len(parts)      # the barrier drops what follows an undeliverable packet in a read: every genuine packet meets that fate at most once
                if pos < len(parts):
                    out.front_splices += 1
                    dropped_once.update(parts[pos:])
                parts.insert(pos, f)
                forged_at.append(pos)
            return parts, forged_at

        def joinable(parts):
            """greedy: consecutive packets that decode, joined, to the same packets as apart (v0 packets without an explicit size
            swallow whatever follows them: nobody can put anything behind those)"""
            groups, cur, curpk = [], b"", []
            for p in parts:
                pk = decode_clean(ss, p)
                if pk is None:
                    if cur: groups.append(cur)
                    groups.append(p); cur, curpk = b"", []
                    continue
                j = decode_clean(ss, cur + p) if cur else pk
                if cur and j is not None and [pkt_fields(x) for x in j] == [pkt_fields(x) for x in curpk + pk]:
                    cur, curpk = cur + p, curpk + pk
                else:
                    if cur: groups.append(cur)
                    cur, curpk = p, pk
            if cur: groups.append(cur)
            return groups

        # ---- datagrams: the path aggregates what one transport sends to the other within WINDOW ----
        pending = {}
        def fate(tx):
            ga = set(out.group_addr.values())
            if tx.dst == SERVER and tx.src in ga:
                genuine_c2s.append(tx.data)
            if not mp["aggregate"] or not ((tx.src in ga and tx.dst == SERVER) or (tx.src == SERVER and tx.dst in ga)):
                return [0.0]
            q = pending.setdefault((tx.src, tx.dst), [])
            q.append(tx.data)
            if len(q) == 1:
                sim.loop.call_later(WINDOW, flush, tx.src, tx.dst)
            return []
        def flush(src, dst):
            parts = pending.pop((src, dst), [])
            own = [p for (g, k), p in out.conn_port.items() if out.group_addr.get(g) == dst]
            parts, forged_at = splice(parts, dst == SERVER, own)
            for d in joinable(parts):
                pk = decode_clean(ss, d) or []
                out.aggregates.append((src, dst, len(pk), forged_at, len({p.dest_port for p in pk})))
                net.inject(src, dst, d, 0.0)
        net.fate = fate

        # ---- streams: writes within WINDOW arrive as one read (or re-chunked at arbitrary points) ----
        class CoStream(FakeStream):
            def __init__(self, *a):
                super().__init__(*a)
                self.pend = []
            async def send(self, data):
                await anyio.lowlevel.checkpoint_if_cancelled()
                if self.closed or self.peer.closed:
                    raise anyio.ClosedResourceError
                if THIRD[0] not in (self.local[0], self.remote[0]):
                    log.append(("swrite", sim.now(), self.local, self.remote, bytes(data)))
                    if self.remote == SERVER:
                        genuine_c2s.append(bytes(data))
                else:
                    log.append(("swrite3", sim.now(), self.local, self.remote, bytes(data)))      # a write from / to the third party (L1 stream replay)
                if not mp["aggregate"] or THIRD[0] in (self.local[0], self.remote[0]):
                    log.append(("stx", sim.now(), self.local, self.remote, bytes(data)))
                    sim.loop.call_soon(self.peer.inbox.put, bytes(data))
                    return
                self.pend.append(bytes(data))
                if len(self.pend) == 1:
                    sim.loop.call_later(WINDOW, self.flush)
            def flush(self):
                parts, self.pend = self.pend, []
                if self.closed or self.peer.closed:
                    return
                own = [p for (g, k), p in out.conn_port.items() if out.group_addr.get(g) == self.remote]
                parts, forged_at = splice(parts, self.remote == SERVER, own)
                data = b"".join(parts)
                pk = decode_clean(ss, data) or []
                out.aggregates.append((self.local, self.remote, len(pk), forged_at, len({p.dest_port for p in pk})))
                chunks = [data]
                if mp.get("rechunk") and len(data) > 3 and frng.random() < 0.5:
                    cuts = sorted(frng.sample(range(1, len(data)), min(len(data) - 1, frng.choice([1, 2, 3]))))
                    chunks = [data[a:b] for a, b in zip([0] + cuts, cuts + [len(data)])]
                for c in chunks:
                    log.append(("stx", sim.now(), self.local, self.remote, c))
                    self.peer.inbox.put(c)
        def stream_pair(addr_a, addr_b):
            a = CoStream(net, addr_a, addr_b)
            b = CoStream(net, addr_b, addr_a)
            a.peer, b.peer = b, a
            log.append(("sopen", sim.now(), addr_a, addr_b))
            return a, b
        net.stream_pair = stream_pair

        def make_handler(vport):
            async def handler(client):
                key = (vport, client.remote_address(), client.remote_sid())
                try:
                    while True:
                        d = await client.recv()
                        log.append(("deliver", sim.now(), "s", (vport,) + tuple(client.remote_address()), d))
                        out.srv_got.setdefault(key, []).append(d)
                        reply = b"echo:%d:" % vport + d
                        log.append(("app", sim.now(), "s", "send", (client.remote_address(), client.remote_sid(), 10), reply))
                        await client.send(reply)
                except anyio.EndOfStream:
                    log.append(("app", sim.now(), "s", "done", (client.remote_address(), client.remote_sid(), 10), b""))
                except Exception as e:
                    out.errors.append(("handler", vport, repr(e)))
            return handler

        async def sleep_until(t):
            d = t - sim.now()
            if d > 0:
                await anyio.sleep(d)

        async def conn_task(g, k, tr, vport, t0):
            try:
                async with tr.connect(vport, 10) as client:
                    out.conn_port[(g, k)] = client.local_sid()
                    got = out.got.setdefault((g, k), [])
                    sent = out.sent.setdefault((g, k), [])
                    for r in range(spec.rounds):
                        await sleep_until(t0 + 0.5 + r * 0.25)
                        msg = b"g%d:k%d:p%d:round%d:" % (g, k, vport, r) + bytes([65 + k]) * random.Random(seed * 7 + g * 100 + k * 10 + r).choice([1, 20, 60])
                        sent.append(msg)
                        await client.send(msg)
                        with anyio.move_on_after(quant(spec.resend_timeout * (spec.resend_limit + 3))):
                            d = await client.recv()
                            got.append(d)
                    await sleep_until(t0 + 0.5 + spec.rounds * 0.25 + 0.25)
            except BaseException as e:
                out.connect_errors[(g, k)] = repr(e)[:200]

        async def group_task(g, grp):
            s = spec.settings(grp["version"])
            t0 = sim.now()
            try:
                async with prudp.connect_transport(s, SERVER[0], SERVER[1]) as tr:
                    out.group_addr[g] = tr.socket.local_address()
                    async with anyio.create_task_group() as tg:
                        for k, vp in enumerate(grp["vports"]):
                            tg.start_soon(conn_task, g, k, tr, vp, t0)
            except BaseException as e:
                out.connect_errors[(g, -1)] = repr(e)[:200]

        def third_read(pattern, addr, version):
            parts = []
            for j, (kind, port) in enumerate(pattern):
                if kind == "S":
                    parts.append(forge_syn(ss, version, 1 + j, port))
                else:
                    cands = []
                    for gpk in genuine_c2s[-40:]:
                        pk = decode_clean(ss, gpk)
                        if pk and len(pk) == 1 and (lite or pk[0].version == version) and pk[0].type == prudp.TYPE_DATA:
                            cands.append(gpk)
                    f = readdress(ss, frng.choice(cands), port) if cands else None
                    if f is None:
                        f = forge_syn(ss, version, 1 + j, port)
                        pattern = pattern[:j] + [("S", port)] + pattern[j + 1:]
                    parts.append(f)
            return pattern, b"".join(parts)

        async def third_party():
            pats = third_patterns(bound, unbound)
            for j, pat in enumerate(pats):
                await sleep_until(0.5 + 0.0625 + j * 0.0625)
                addr = (THIRD[0], THIRD[1] + j)
                ver = 1 if lite else (frng.choice([0, 1]) if spec.server_version == 2 else spec.server_version)
                pat, data = third_read(list(pat), addr, ver)
                out.third.append((addr, pat, ver, data))
                if lite:
                    listener = sim.stream_listeners.get(SERVER)
                    a, b = net.stream_pair(addr, SERVER)
                    listener(b)
                    await anyio.sleep(quant(0.004))
                    await a.send(data)
                    sim.loop.call_later(0.25, lambda a=a: sim.loop.create_task(a.close()))
                else:
                    net.inject(addr, SERVER, data, 0.0)

        async def main():
            async with prudp.serve_transport(ss, SERVER[0], SERVER[1]) as transport:
                out.transport = transport
                async with anyio.create_task_group() as outer:
                    ctxs = []
                    for vp in bound:
                        cm = transport.serve(make_handler(vp), vp, 10, spec.key)
                        await cm.__aenter__()
                        ctxs.append(cm)
                        streams[vp] = transport.ports.get(vp, 10)
                    async with anyio.create_task_group() as tg:
                        async def watcher():
                            while True:
                                await anyio.sleep(quant(0.03125))
                                out.tables.append((sim.now(), {vp: len(st.clients) for vp, st in streams.items()}))
                                out.port_table_max = max(out.port_table_max, len(transport.ports.ports))
                        tg.start_soon(watcher)
                        for g, grp in enumerate(spec.groups):
                            tg.start_soon(group_task, g, grp)
                        if mp.get("third"):
                            tg.start_soon(third_party)
                        # (the closing phase may legitimately take the whole retransmission budget: when several packets share one
                        # read, the acknowledgements of one connection's DISCONNECT can sit behind a stale acknowledgement for a
                        # port that is unbound by now; the barrier drops the rest of that read and the DISCONNECT is retransmitted
                        # until its budget is used up - every message has been delivered, the connection ends by time-out within
                        # C02's bound instead of being closed; the harness must not cancel it before that and call it a failure)
                        await anyio.sleep(quant(0.5 + spec.rounds * 0.25 + 1.5 + (6.0 if mp["splice"] == "any" else 0.0)
                                                + spec.resend_timeout * (spec.resend_limit + 2)))
                        tg.cancel_scope.cancel()
                    await anyio.sleep(quant(spec.resend_timeout * (spec.resend_limit + 2) + 0.5))
                    out.tables.append((sim.now(), {vp: len(st.clients) for vp, st in streams.items()}))
                    out.port_table_max = max(out.port_table_max, len(transport.ports.ports))
                    out.census = ms.census(transport)
                    for cm in reversed(ctxs):
                        await cm.__aexit__(None, None, None)
                    outer.cancel_scope.cancel()

        async def guarded():
            with anyio.move_on_after(120) as scope:
                await main()
            out.timed_out = scope.cancelled_caught
        try:
            sim.run(guarded())
            out.crash = None
        except Deadlock as e:
            out.crash = "deadlock: " + str(e); out.timed_out = False
        except BaseException as e:
            out.crash = repr(e)[:300]; out.timed_out = False
        out.netlog = log
        out.end_time = sim.now()
        out.transport = None
    return out


def answers_to(sess, addr):
    """what the server wrote to one address, decoded"""
    lite = sess.spec.transport == "lite"
    if lite:
        data = b"".join(e[4] for e in sess.netlog if e[0] == "stx" and e[2] == SERVER and e[3] == addr)
        pk = decode_clean(sess.settings_s, data) if data else []
        return pk, data
    res, raw = [], b""
    for e in sess.netlog:
        if e[0] == "tx" and e[3] == SERVER and e[4] == addr:
            pk = decode_clean(sess.settings_s, e[5])
            raw += e[5]
            if pk is None:
                return None, raw
            res += pk
    return res, raw


def judge(sess):
    """the property's oracles on one run -> [(key, what)]"""
    spec, mp = sess.spec, sess.mp
    bad = []
    if sess.crash or sess.timed_out:
        bad.append(("crash", "the run ended abnormally: crash=%s timed_out=%s" % (sess.crash, sess.timed_out)))
    if sess.errors:
        bad.append(("handler-error", "%r" % (sess.errors[:2],)))
    if sess.connect_errors:
        bad.append(("lost", "a connection of a transport that holds one connection per virtual port failed: %r" % (sorted(sess.connect_errors.items())[:2],)))
    # every message only on the connection and port it was addressed to, none lost
    for g, grp in enumerate(spec.groups):
        for k, vp in enumerate(grp["vports"]):
            sent = sess.sent.get((g, k), [])
            got = sess.got.get((g, k), [])
            want = [b"echo:%d:" % vp + m for m in sent]
            if len(sent) != spec.rounds or got != want:
                wrong = [x for x in got if x not in want]
                bad.append(("misdelivery" if wrong else "lost",
                            "connection %d of client transport %d (to virtual port %d) sent %d messages and received %r instead of its %d echoes %r"
                            % (k, g, vp, len(sent), [x[:28] for x in got], len(want), [x[:28] for x in want[:1]])))
    addr_of = {a: g for g, a in sess.group_addr.items()}
    seen = set()
    for (vp, addr, sid), msgs in sess.srv_got.items():
        g = addr_of.get(addr)
        owner = [k for (gg, k), p in sess.conn_port.items() if gg == g and p == sid]
        exp = sess.sent.get((g, owner[0]), []) if owner else []
        evp = spec.groups[g]["vports"][owner[0]] if owner else None
        seen.add((g, owner[0]) if owner else None)
        if evp != vp or msgs != exp[:len(msgs)] or len(msgs) != len(exp):
            bad.append(("misdelivery" if (evp != vp or any(m not in exp for m in msgs)) else "lost",
                        "the server's handler of virtual port %d for peer %r/%d received %r; that connection was made to port %r and sent %d messages"
                        % (vp, addr, sid, [m[:24] for m in msgs], evp, len(exp))))
    # nothing lost: with nothing in front of a genuine packet inside a read, no genuine packet is ever sent twice
    if sess.front_splices == 0 and not sess.crash:
        cnt = {}
        for e in sess.netlog:
            if e[0] == "tx" and e[3] != THIRD and e[3][0] != THIRD[0]:
                src, dst, data = e[3], e[4], e[5]
            elif e[0] == "swrite":
                src, dst, data = e[2], e[3], e[4]
            else:
                continue
            pk = decode_clean(sess.settings_s, data)
            if not pk or len(pk) != 1:
                continue
            p = pk[0]
            if p.flags & (prudp.FLAG_ACK | prudp.FLAG_MULTI_ACK) or p.type == prudp.TYPE_PING:
                continue
            if p.type == prudp.TYPE_DISCONNECT:
                # the closing phase is exempt: all connections of a transport disconnect at the same instant, the server answers
                # each DISCONNECT three times, and once the first connection is finished its local port is unbound - the later
                # copies of ITS acknowledgement are then undeliverable, the barrier drops the rest of such a read (by design),
                # and the other connection's DISCONNECT is retransmitted although the path lost nothing. No message is
                # concerned; that the connection still ends within C02's bound is judged by the run not timing out.
                continue
            cnt[(src, dst, data)] = cnt.get((src, dst, data), 0) + 1
        for (src, dst, data), n in sorted(cnt.items()):
            if n > 1:
                p = decode_clean(sess.settings_s, data)[0]
                bad.append(("lost", "on a path that loses nothing %s:%d had to send a packet %d times (type %d, ports %d -> %d, id %d): a packet that shared its read with packets for other ports was lost"
                            % (src[0], src[1], n, p.type, p.source_port, p.dest_port, p.packet_id)))
                break
    # a third party's read: answered exactly by the ports it addressed
    for addr, pat, ver, data in sess.third:
        pk, raw = answers_to(sess, addr)
        if pk is None:
            bad.append(("third-answer", "the server's answer to the read %s from %s:%d cannot be decoded: %s" % (data.hex(), addr[0], addr[1], raw.hex())))
            continue
        must, may = [], []
        failed = False
        for j, (kind, port) in enumerate(pat):
            if port not in spec.vports:
                failed = True
                continue
            if kind == "S":
                (may if failed else must).append((port, 1 + j))
        act = []
        other = []
        for p in pk:
            if p.type == prudp.TYPE_SYN and p.flags & prudp.FLAG_ACK:
                act.append((p.source_port, p.dest_port))
            else:
                other.append((p.type, p.flags, p.source_port, p.dest_port))
        rest = list(act)
        missing = []
        for m in must:
            if m in rest: rest.remove(m)
            else: missing.append(m)
        for m in may:
            if m in rest: rest.remove(m)
        desc = " ".join("%s->%d" % kp for kp in pat)
        if other or rest:
            bad.append(("unbound-answered" if any(port not in spec.vports for _, port in pat) else "third-answer",
                        "one read from %s:%d with the packets [%s] (S = handshake request from source port 1, 2, ..; bound ports %r) was answered with %r (answering port, destination port)%s; by the ports addressed only %r may answer"
                        % (addr[0], addr[1], desc, spec.vports, act, (" and %r" % other) if other else "", must + may)))
        elif missing:
            bad.append(("lost", "one read from %s:%d with the packets [%s] (bound ports %r): the handshake requests %r (port, source port), which precede every undeliverable packet of the read, were not answered; answers: %r"
                        % (addr[0], addr[1], desc, spec.vports, missing, act)))
    # traffic for unknown ports / peers creates no state
    for t, tab in sess.tables:
        for vp, size in tab.items():
            allowed = sum(1 for grp in spec.groups for v in grp["vports"] if v == vp)
            if size > allowed:
                bad.append(("state-created", "at t=%.3f the server holds %d connections on vport %d, only %d genuine ones exist" % (t, size, vp, allowed)))
                break
        else:
            continue
        break
    if sess.tables and any(sess.tables[-1][1].values()) and not sess.crash:
        bad.append(("state-left-behind", "after every connection has ended the server's tables hold %r" % (sess.tables[-1][1],)))
    if sess.port_table_max > len(spec.vports):
        bad.append(("state-created", "the server's port table grew to %d entries, %d ports are served" % (sess.port_table_max, len(spec.vports))))
    return bad


def stats(sess):
    multi = [a for a in sess.aggregates if a[2] > 1]
    return {"reads": len(sess.aggregates), "multi_packet_reads": len(multi), "multi_port_reads": sum(1 for a in sess.aggregates if a[4] > 1), "forged": sum(len(a[3]) for a in sess.aggregates),
            "third_reads": len(sess.third), "front_splices": sess.front_splices}
