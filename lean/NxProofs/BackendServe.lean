import NxModel.Nex.BackendServe
import NxProofs.Admission
import NxProofs.NexKerberos
/-! lemmas about the secure server's side of a back-end login over time (`Backend.serve`) and its composition with
    the client's connection request -/
namespace Nx.Backend
open Nx Nx.Nex

theorem present_server_unchanged (s : SecureServer) (p : Presentation) : (s.present p).1 = s := rfl

theorem serve_eq_map (s : SecureServer) (ps : List Presentation) :
    serve s ps = ps.map (fun p => (s.present p).2) := by
  induction ps with
  | nil => rfl
  | cons p rest ih => simp [serve, SecureServer.present, ih]

theorem serve_length (s : SecureServer) (ps : List Presentation) : (serve s ps).length = ps.length := by
  simp [serve_eq_map]

theorem serve_getElem? (s : SecureServer) (ps : List Presentation) (k : Nat) :
    (serve s ps)[k]? = ps[k]?.map (fun p => (s.present p).2) := by
  simp [serve_eq_map]

theorem serve_after_prefix (s : SecureServer) (pre : List Presentation) (p : Presentation) :
    (serve s (pre ++ [p]))[pre.length]? = some (s.present p).2 := by
  simp [serve_eq_map]

theorem serve_step_alone (s : SecureServer) (ps : List Presentation) (k : Nat) :
    ((serve s ps)[k]?).map (fun v => [v]) = ps[k]?.map (fun p => serve s [p]) := by
  rw [serve_getElem?]; cases ps[k]? <;> simp [serve, SecureServer.present]

/-- a ticket that decrypts to a time stamp more than 120 s before `now` is refused with `ValueError` -/
theorem present_stale (s : SecureServer) (p : Presentation) (td r1 rd r2 : Bytes) (ticket : Kerberos.ServerTicket) (ts : Int)
    (h1 : rBuffer p.data = .ok (td, r1)) (h2 : rBuffer r1 = .ok (rd, r2))
    (h3 : Kerberos.ServerTicket.decrypt s.kc s.key td = .ok ticket)
    (h4 : DateTime.timestamp s.tz ticket.timestamp = .ok ts)
    (h5 : (ts + 120 - (s.epoch : Int)) * 1073741824 < (p.now : Int)) :
    (s.present p).2 = .refuse .value := by
  simp only [SecureServer.present, L1.loginRequestFn, bind, Except.bind, h1, h2, h3, h4, h5, if_true]
  rfl

/-- what an admission proves: the presented ticket decrypts under the server's key, is at most 120 s old at that instant,
    and the admitted identity and session key are the ticket's -/
theorem present_admit_inv (s : SecureServer) (p : Presentation) (pid cid : Nat) (sk resp : Bytes)
    (h : (s.present p).2 = .accepted pid cid sk resp) :
    ∃ td r1 ticket ts, rBuffer p.data = .ok (td, r1) ∧
      Kerberos.ServerTicket.decrypt s.kc s.key td = .ok ticket ∧
      DateTime.timestamp s.tz ticket.timestamp = .ok ts ∧
      ¬ ((ts + 120 - (s.epoch : Int)) * 1073741824 < (p.now : Int)) ∧
      pid = ticket.source ∧ sk = ticket.sessionKey := by
  simp only [SecureServer.present] at h
  cases hl : L1.loginRequestFn s.kc s.epoch s.tz p.data s.key p.now with
  | error e => simp [hl, verdictOf] at h
  | ok v =>
    obtain ⟨pid', cid', sk', resp'⟩ := v
    simp only [hl, verdictOf, Verdict.accepted.injEq] at h
    obtain ⟨e1, e2, e3, e4⟩ := h
    subst e1 e2 e3 e4
    obtain ⟨td, r1, rd, r2, ticket, ts, dec, r3, r4, r5, check, g1, g2, g3, g4, g5, g6, g7, g8, g9, g10, g11, g12, g13⟩ :=
      L1.login_accept_implies s.kc s.epoch s.tz p.data s.key p.now _ _ _ _ hl
    exact ⟨td, r1, ticket, ts, g1, g3, g4, g5, g9, g10⟩

/-- **client and server composed**: the CONNECT payload the client builds from the credentials of its plan, admitted by the
    secure server under a ticket whose session key is the one in the credentials (a protocol-following authentication
    server puts the same session key into the client's and the server's half of a ticket), is admitted as exactly the pid
    and cid of the credentials — the pid the authentication server issued (`connect_credentials`) — and answered with
    `check + 1`. -/
theorem connect_request_admitted (s : SecureServer) (c : Connect) (check : Nat) (data : Bytes) (now : Nat)
    (pid cid : Nat) (sk resp : Bytes)
    (hreq : connectRequest s.kc.pidSize c check = .ok data)
    (h : (s.present ⟨data, now⟩).2 = .accepted pid cid sk resp) (hsk : sk = c.ticket.sessionKey) :
    pid = c.pid ∧ cid = c.cid ∧ resp = u32le 4 ++ u32le ((check + 1) % 4294967296) := by
  simp only [SecureServer.present] at h
  cases hl : L1.loginRequestFn s.kc s.epoch s.tz data s.key now with
  | error e => simp [hl, verdictOf] at h
  | ok v =>
    obtain ⟨pid', cid', sk', resp'⟩ := v
    simp only [hl, verdictOf, Verdict.accepted.injEq] at h
    obtain ⟨e1, e2, e3, e4⟩ := h
    subst e1 e2 e3 e4
    obtain ⟨td, r1, rd, r2, ticket, ts, dec, r3, r4, r5, chk, g1, g2, g3, g4, g5, g6, g7, g8, g9, g10, g11, g12, g13⟩ :=
      L1.login_accept_implies s.kc s.epoch s.tz data s.key now _ _ _ _ hl
    -- take the request apart
    unfold connectRequest at hreq
    obtain ⟨a, ha, hreq⟩ := bind_ok hreq
    obtain ⟨pb, hp, hreq⟩ := bind_ok hreq
    obtain ⟨cb, hc, hreq⟩ := bind_ok hreq
    obtain ⟨kb, hk, hreq⟩ := bind_ok hreq
    obtain ⟨e, he, hreq⟩ := bind_ok hreq
    obtain ⟨b, hb, hreq⟩ := bind_ok hreq
    simp only [pure, Except.pure, Except.ok.injEq] at hreq
    subst hreq
    rw [rBuffer_wBuffer ha b] at g1
    simp only [Except.ok.injEq, Prod.mk.injEq] at g1
    obtain ⟨_, hr1⟩ := g1
    subst hr1
    have hb' := rBuffer_wBuffer hb []
    rw [List.append_nil] at hb'
    rw [hb'] at g2
    simp only [Except.ok.injEq, Prod.mk.injEq] at g2
    obtain ⟨hrd, _⟩ := g2
    subst hrd
    rw [← g10, hsk, Kerberos.decrypt_encrypt _ _ _ he] at g6
    simp only [Except.ok.injEq] at g6
    subst g6
    rw [List.append_assoc, rPid_wPid _ hp] at g8
    simp only [Except.ok.injEq, Prod.mk.injEq] at g8
    obtain ⟨hpid, hr3⟩ := g8
    subst hr3
    rw [rdU32_wU32 hc] at g11
    simp only [Except.ok.injEq, Prod.mk.injEq] at g11
    obtain ⟨hcid, hr4⟩ := g11
    subst hr4
    have hk' := rdU32_wU32 hk []
    rw [List.append_nil] at hk'
    rw [hk'] at g12
    simp only [Except.ok.injEq, Prod.mk.injEq] at g12
    obtain ⟨hchk, _⟩ := g12
    subst hchk
    exact ⟨hpid.symm, hcid.symm, g13⟩

end Nx.Backend
