import NxModel.Prudp.L1Crypto
import NxModel.DriverUtil
import NxModel.Prudp.Established
/-!
# driver for the L1 endpoint model (client transport / server transport), shared by C02, C04–C07

All times are ticks of 2^-30 s. One line in, one line out; outputs of an op are joined by " ; ".

  env <name> <transport> <version> <sigver> <cksumver> <flagsver> <accesskey hex> <fragsize> <resendTimeout> <resendLimit>
      <pingTimeout> <maxsub> <supfuncs> <minor> <pidsize> <keysize> <ticketver> <epoch> <tzoff>
  cli <ep> <env> <localip> <localport> <remoteip> <remoteport>
  srv <ep> <env> <ip> <port> <stream 0|1>
  bind <ep> <vport> <type> <key hex|none>
  link <ep> <ip> <port> <0|1>                       stream transports: a stream client appeared / went away (server); the client transport's stream is there / gone
  connect <ep> <t> <vport> <type> <unrelid> <check> <sid> (none | <pid> <cid> <sessionkey hex> <internal hex>)
  dgram <ep> <t> <fromip> <fromport> <hex> [<unrelid> <check> <sid>]
  advance <ep> <t>
  send <ep> <t> <conn> <sub> <hex> | sendu <ep> <t> <conn> <hex> | close|disconnect|aexit|done <ep> <t> <conn>
  state <ep> <conn>
  est <cli ep> <srv ep> <conn>                      `establishedB` of the two model endpoints, per substream 0..maxSub: "<sub>:<c->s><s->c>"
  conn = `c` (the client transport's connection) or `ip:port:sport:stype` (a server-side connection)
-/
open Nx Nx.Prudp Nx.L1

inductive Ep where
  | cli (env : String) (t : ClientT) (loc rem : Addr)
  | srv (env : String) (t : ServerT) (addr : Addr) (leaving : List ClientKey)

structure St where
  envs : List (String × Env) := []
  eps : List (String × Ep) := []

def lookupS {α : Type} (k : String) : List (String × α) → Option α
  | [] => none
  | (k', v) :: r => if k' = k then some v else lookupS k r

def setS {α : Type} (k : String) (v : α) : List (String × α) → List (String × α)
  | [] => [(k, v)]
  | (k', v') :: r => if k' = k then (k, v) :: r else (k', v') :: setS k v r

def showAddr (a : Addr) : String := s!"{a.1}:{a.2}"
def showKey (k : ClientKey) : String := s!"{k.1.1}:{k.1.2}:{k.2.1}:{k.2.2}"

def showOut (conn : String) : Out → String
  | .emit a _ d => s!"tx {showAddr a} {hexOut d}"
  | .deliver sub d => s!"deliver {conn} {sub} {hexOut d}"
  | .deliverU d => s!"deliveru {conn} {hexOut d}"
  | .eof => s!"eof {conn}"
  | .handshake ok => s!"hs {conn} {if ok then "ok" else "fail"}"

def showSOut : SOut → String
  | .emit a _ d => s!"tx {showAddr a} {hexOut d}"
  | .client k o => showOut (showKey k) o
  | .started k => s!"started {showKey k}"

def joinOuts (l : List String) (err : Option Err) : String :=
  let l := match err with | some e => l ++ ["err " ++ e.name] | none => l
  if l.isEmpty then "-" else " ; ".intercalate l

def parseKey (s : String) : Option ClientKey :=
  match s.splitOn ":" with
  | [ip, port, sp, st] =>
    match port.toNat?, sp.toNat?, st.toNat? with
    | some port, some sp, some st => some ((ip, port), sp, st)
    | _, _, _ => none
  | _ => none

/-- remove connections whose handler is done and whose close event is set (`start_client` finished) -/
def sweep (t : ServerT) (leaving : List ClientKey) : ServerT × List ClientKey × List String :=
  let gone := leaving.filter (fun k => t.streams.any (fun (_, s) =>
    match clientLookup k s.clients with | some c => c.closeEvent || c.state != STATE_CONNECTED && c.state != STATE_DISCONNECTING | none => false))
  let t' := { t with streams := t.streams.map (fun (pk, s) => (pk, { s with clients := s.clients.filter (fun (k, _) => !gone.contains k) })) }
  (t', leaving.filter (fun k => !gone.contains k), gone.map (fun k => s!"removed {showKey k}"))

/-- advance every connection of a server transport; outputs merged in time order -/
def advanceSrv (env : Env) (t : ServerT) (now : Time) : ServerT × List (Time × String) :=
  let (streams, outs) := t.streams.foldl (fun (acc : List (Nat × ServerStream) × List (Time × String)) (pk, s) =>
    let (clients, o) := s.clients.foldl (fun (a : List (ClientKey × Conn) × List (Time × String)) (k, c) =>
      let (c', os) := Conn.advance env 100000 now c
      (a.1 ++ [(k, c')], a.2 ++ os.map (fun (tm, o) => (tm, match o with
        | .emit ad _ d => s!"tx {showAddr ad} {hexOut d}"
        | o => showOut (showKey k) o)))) ([], [])
    (acc.1 ++ [(pk, { s with clients })], acc.2 ++ o)) ([], [])
  ({ t with streams }, (outs.toArray.insertionSort (fun a b => a.1 < b.1)).toList)

def showTimed (l : List (Time × String)) : String :=
  if l.isEmpty then "-" else " ; ".intercalate (l.map (fun (t, s) => s!"@{t} {s}"))

def connOf (ep : Ep) (name : String) : Option Conn :=
  match ep with
  | .cli _ t _ _ => (t.conns.head?).map (·.2)
  | .srv _ t _ _ =>
    match parseKey name with
    | none => none
    | some k => t.streams.findSome? (fun (_, s) => clientLookup k s.clients)

/-- apply a connection-level step to the named connection of an endpoint -/
def withConn (st : St) (epn : String) (ep : Ep) (name : String) (f : Env → Conn → R) : St × String :=
  match ep with
  | .cli en t loc rem =>
    match lookupS en st.envs, t.conns.head? with
    | some env, some (k, c) =>
      let r := f env c
      let t' := { t with conns := connSet k r.c t.conns }
      ({ st with eps := setS epn (.cli en t' loc rem) st.eps }, joinOuts (r.outs.map (showOut "c")) r.err)
    | _, _ => (st, "bad-op")
  | .srv en t addr leaving =>
    match lookupS en st.envs, parseKey name with
    | some env, some k =>
      match t.streams.find? (fun (_, s) => (clientLookup k s.clients).isSome) with
      | some (pk, s) =>
        match clientLookup k s.clients with
        | some c =>
          let r := f env c
          let sr := s.liftConn k r
          let t' := { t with streams := streamSet pk sr.s t.streams }
          let (t'', leaving', rm) := sweep t' leaving
          ({ st with eps := setS epn (.srv en t'' addr leaving') st.eps }, joinOuts (sr.outs.map showSOut ++ rm) sr.err)
        | none => (st, "bad-op")
      | none => (st, "no-conn")
    | _, _ => (st, "bad-op")

def showConn (c : Conn) : String :=
  let wins := ",".intercalate (c.windows.map (fun w => s!"{w.next}/{"+".intercalate ((w.packets.map (·.1)).toArray.qsort (· < ·) |>.toList.map toString)}"))
  let timers := match c.sched with
    | none => "none"
    | some s => ",".intercalate (s.events.map (fun (t : Timer) => s!"{t.handle}@{t.deadline}"))
  let acks := ",".intercalate (c.ackEvents.map (fun (k, h) => s!"{k.1}.{k.2.1}.{k.2.2}={h}"))
  s!"state={c.state} params={c.minorVer}/{c.maxSub}/{c.supFuncs} pid={match c.userPid with | some p => toString p | none => "none"} counters={",".intercalate (c.counters.map toString)} unrel={c.unrelCounter} wins={wins} frag={",".intercalate (c.fragBufs.map hexOut)} eof={if c.eof then 1 else 0} hs={if c.handshakeEvent then 1 else 0} close={if c.closeEvent then 1 else 0} rsid={match c.remoteSessionId with | some p => toString p | none => "none"} timers={timers} acks={acks}"

def parseEnv (a : List String) : Option Env :=
  match a.map String.toNat? with
  | [some tr, some ver, some sv, some cv, some fv, _, some fs, some rt, some rl, some pt, some ms, some sf, some mv, some ps, some ks, some tv, some ep, _] =>
    match fromHex (a.getD 5 ""), (a.getD 17 "").toInt? with
    | some key, some tz =>
      let s : Settings := { fragmentSize := fs, resendTimeout := rt, resendLimit := rl, pingTimeout := pt, maxSubstreamId := ms,
                            supportedFunctions := sf, minorVersion := mv, transport := tr, version := ver, pidSize := ps }
      let cfg : Prudp.Cfg := { v0 := { signatureVersion := sv, checksumVersion := cv, flagsVersion := fv, accessKey := key },
                               sel := { transport := tr, version := ver } }
      some (mkEnv s cfg { keySize := ks, pidSize := ps, ticketVersion := tv } ep tz)
    | _, _ => none
  | _ => none

def step (st : St) (line : String) : St × String :=
  match words line with
  | "env" :: name :: rest =>
    match parseEnv rest with
    | some env => ({ st with envs := setS name env st.envs }, "ok")
    | none => (st, "bad-op")
  | ["cli", ep, env, lip, lport, rip, rport] =>
    match lport.toNat?, rport.toNat? with
    | some lp, some rp => ({ st with eps := setS ep (.cli env {} (lip, lp) (rip, rp)) st.eps }, "ok")
    | _, _ => (st, "bad-op")
  | ["srv", ep, env, ip, port, stream] =>
    match port.toNat? with
    | some p => ({ st with eps := setS ep (.srv env { isStream := stream == "1" } (ip, p) []) st.eps }, "ok")
    | none => (st, "bad-op")
  | ["bind", ep, vport, type, key] =>
    match lookupS ep st.eps, vport.toNat?, type.toNat? with
    | some (.srv en t addr lv), some vp, some ty =>
      match lookupS en st.envs with
      | some env =>
        let k : Option Bytes := if key == "none" then none else fromHex key
        let s : ServerStream := { key := k, supFuncs := env.s.supportedFunctions, maxSub := env.s.maxSubstreamId,
                                  minorVer := env.s.minorVersion, addr, port := vp, type := ty }
        ({ st with eps := setS ep (.srv en { t with streams := streamSet (portKey vp ty) s t.streams } addr lv) st.eps }, "ok")
      | none => (st, "bad-op")
    | _, _, _ => (st, "bad-op")
  | ["link", ep, ip, port, up] =>
    match lookupS ep st.eps, port.toNat? with
    | some (.srv en t addr lv), some p =>
      let a : Addr := (ip, p)
      let links := if up == "1" then (if t.links.contains a then t.links else t.links ++ [a]) else t.links.filter (· != a)
      -- a vanished stream takes the link of its connections down
      let streams := t.streams.map (fun (pk, s) => (pk, { s with clients := s.clients.map (fun (k, c) =>
        if k.1 == a then (k, { c with linkUp := up == "1" }) else (k, c)) }))
      -- `PRUDPSocketTransport.handle`: a stream client gets a decoder (reassembly buffer) of its own, dropped when it goes away
      let liteBufs := t.liteBufs.filter (·.1 != a)
      ({ st with eps := setS ep (.srv en { t with links, streams, liteBufs } addr lv) st.eps }, "ok")
    | some (.cli en ct loc rem), some _ =>
      -- the client transport's one stream: gone / there (every write of its connections raises a StreamError when it is gone)
      let conns := ct.conns.map (fun (k, c) => (k, { c with linkUp := up == "1" }))
      ({ st with eps := setS ep (.cli en { ct with conns, linkUp := up == "1" } loc rem) st.eps }, "ok")
    | _, _ => (st, "bad-op")
  | "connect" :: ep :: t :: vport :: type :: unrel :: check :: sid :: creds =>
    match lookupS ep st.eps, t.toNat?, vport.toNat?, type.toNat?, unrel.toNat?, check.toNat?, sid.toNat? with
    | some (.cli en ct loc rem), some now, some vp, some ty, some ur, some ck, some sd =>
      match lookupS en st.envs with
      | some env =>
        let cr : Option (Option Creds) := match creds with
          | ["none"] => some none
          | [pid, cid, sk, internal] =>
            match pid.toNat?, cid.toNat?, fromHex sk, fromHex internal with
            | some pid, some cid, some sk, some internal => some (some ⟨pid, cid, sk, internal⟩)
            | _, _, _, _ => none
          | _ => none
        match cr with
        | none => (st, "bad-op")
        | some cr =>
          let nports := if env.s.transport = TRANSPORT_UDP then 16 else 32
          let lport := ((List.range nports).reverse.find? (fun i => (connLookup (portKey i ty) ct.conns).isNone)).getD 0
          let c := { Conn.new env (some env.s.version) ur ck sd loc lport ty rem vp ty with linkUp := ct.linkUp }
          let r := c.handshake env now cr
          let ct' := { ct with conns := connSet (portKey lport ty) r.c ct.conns }
          ({ st with eps := setS ep (.cli en ct' loc rem) st.eps }, joinOuts (r.outs.map (showOut "c")) r.err)
      | none => (st, "bad-op")
    | _, _, _, _, _, _, _ => (st, "bad-op")
  | "dgram" :: ep :: t :: fip :: fport :: hex :: rnd =>
    match lookupS ep st.eps, t.toNat?, fport.toNat?, fromHex hex with
    | some (.cli en ct loc rem), some now, some _, some data =>
      match lookupS en st.envs with
      | some env =>
        let r := ct.processData env now data
        ({ st with eps := setS ep (.cli en r.t loc rem) st.eps }, joinOuts (r.outs.map (fun (_, o) => showOut "c" o)) r.err)
      | none => (st, "bad-op")
    | some (.srv en stt addr lv), some now, some fp, some data =>
      match lookupS en st.envs with
      | some env =>
        let rn : Rnd := match rnd.map String.toNat? with
          | [some a, some b, some c] => { initialUnrelId := a, connectionCheck := b, localSessionId := c }
          | _ => {}
        let r := stt.processData env now rn data (fip, fp)
        let (t', lv', rm) := sweep r.t lv
        ({ st with eps := setS ep (.srv en t' addr lv') st.eps }, joinOuts (r.outs.map showSOut ++ rm) r.err)
      | none => (st, "bad-op")
    | _, _, _, _ => (st, "bad-op")
  | ["advance", ep, t] =>
    match lookupS ep st.eps, t.toNat? with
    | some (.cli en ct loc rem), some now =>
      match lookupS en st.envs with
      | some env =>
        let (conns, outs) := ct.conns.foldl (fun (acc : List (Nat × Conn) × List (Time × String)) (k, c) =>
          let (c', os) := Conn.advance env 100000 now c
          (acc.1 ++ [(k, c')], acc.2 ++ os.map (fun (tm, o) => (tm, showOut "c" o)))) ([], [])
        ({ st with eps := setS ep (.cli en { ct with conns } loc rem) st.eps }, showTimed outs)
      | none => (st, "bad-op")
    | some (.srv en stt addr lv), some now =>
      match lookupS en st.envs with
      | some env =>
        let (t', outs) := advanceSrv env stt now
        let (t'', lv', rm) := sweep t' lv
        ({ st with eps := setS ep (.srv en t'' addr lv') st.eps }, showTimed (outs ++ rm.map (fun s => (now, s))))
      | none => (st, "bad-op")
    | _, _ => (st, "bad-op")
  | ["send", ep, t, conn, sub, hex] =>
    match lookupS ep st.eps, t.toNat?, sub.toNat?, fromHex hex with
    | some e, some now, some sub, some data => withConn st ep e conn (fun env c => c.send env now data sub)
    | _, _, _, _ => (st, "bad-op")
  | ["sendu", ep, t, conn, hex] =>
    match lookupS ep st.eps, t.toNat?, fromHex hex with
    | some e, some now, some data => withConn st ep e conn (fun env c => c.sendUnreliable env now data)
    | _, _, _ => (st, "bad-op")
  | ["est", cep, sep, conn] =>
    match lookupS cep st.eps, lookupS sep st.eps with
    | some ce, some se =>
      match connOf ce "c", connOf se conn with
      | some c, some cs =>
        let bit (b : Bool) : String := if b then "1" else "0"
        let one (sub : Nat) : String :=
          s!"{sub}:{bit (establishedB sub (c.counters[sub]?.getD 70000) c cs)}{bit (establishedB sub (cs.counters[sub]?.getD 70000) cs c)}"
        (st, "est " ++ " ".intercalate ((List.range (c.maxSub + 1)).map one))
      | _, _ => (st, "est -")
    | _, _ => (st, "bad-op")
  | [op, ep, t, conn] =>
    match lookupS ep st.eps, t.toNat? with
    | some e, some now =>
      match op with
      | "close" => withConn st ep e conn (fun env c => c.close env now)
      | "disconnect" => withConn st ep e conn (fun env c => c.disconnect env now)
      | "aexit" => withConn st ep e conn (fun _ c => c.cleanup)
      | "done" =>
        -- the server handler returned: `disconnect()`, then the connection leaves the table once closed
        match e, parseKey conn with
        | .srv en stt addr lv, some k =>
          let st' := { st with eps := setS ep (.srv en stt addr (lv ++ [k])) st.eps }
          match lookupS ep st'.eps with
          | some e' => withConn st' ep e' conn (fun env c => c.disconnect env now)
          | none => (st, "bad-op")
        | _, _ => (st, "bad-op")
      | _ => (st, "bad-op")
    | _, _ => (st, "bad-op")
  | ["preset", ep, conn, counter, win] =>
    -- white-box preset used by the wrap-around scenarios: substream 0 send counter and receive window position
    match lookupS ep st.eps, counter.toNat?, win.toNat? with
    | some e, some cn, some wn =>
      let (st', _) := withConn st ep e conn (fun _ c =>
        let w0 := c.windows[0]?.getD { next := 1, packets := [] }
        R.ok { c with counters := setAt c.counters 0 cn, windows := setAt c.windows 0 { w0 with next := wn } })
      (st', "ok")
    | _, _, _ => (st, "bad-op")
  | ["state", ep, conn] =>
    match lookupS ep st.eps with
    | some e => match connOf e conn with
      | some c => (st, showConn c)
      | none => (st, "no-conn")
    | none => (st, "bad-op")
  | _ => (st, "bad-op")

def main : IO Unit := runState ({} : St) step
