"""C20 — every documented module as the FIRST import of a fresh interpreter.

"Every module ... named in the API reference exists and can be called as documented, and documented classes can be constructed"
is a statement about a user's program, and a user's program starts with ONE import. The other families of C20 look at the modules
inside the check's own process, where some order of imports has already happened to work; import cycles (nintendo.nex.common <->
nintendo.nex.streams today) resolve differently depending on which module starts them, and a name that is only put into a module
as a side effect of importing another one is there or not depending on history. Here:

  * singles: each documented module alone — a fresh /venv/bin/python whose only import of the package is that module
    (`importlib.import_module(M)`; thorough also the statement form `from <package> import <leaf>` / `import M`);
  * pairs (A first, then B): every ordered pair of documented modules that import each other, directly or through a cycle —
    the strongly connected components of the import graph of the tree under test (ast over every module of the package, imports
    inside functions and `importlib.import_module("...")` / `__import__` string constants included) — plus a seeded sample (all in
    thorough) of the ordered pairs joined by a direct import edge, both orders;

and in that interpreter every documented name of the imported module(s) (class, function, method of a class, global constant) is
looked up and every documented class the reference lets one construct without further knowledge (no required constructor argument,
or the argument table of corr_C20.construct_checks) is constructed.

Oracle: what this check's own process sees (everything imported, some order) is the reference — a module that imports here imports
first and alone; a name present here is present there; a class constructible here is constructible there. (Names missing / classes
not constructible in BOTH are the business of the inventory / construct_checks and their known findings.)

Keys:  import-first:<module>             the module cannot be the first import / loses names / classes when it is
       import-order:<A>:<B>              ... when A is imported first and then B
"""
import ast, importlib, json, os, subprocess, sys
from concurrent.futures import ThreadPoolExecutor

import vf
import api_docs
import switch_cases as sc

PY = "/venv/bin/python"

# the probe runs verbatim in the child and in this process
PROBE = r'''
def c20_probe(sys, names, construct):
    """names: {module: [[cls, name], ...]}; construct: {module: [[cls, args_repr], ...]} -> {"names": {...}, "construct": {...}}"""
    out = {"names": {}, "construct": {}}
    for m, lst in names.items():
        mod = sys.modules.get(m)
        res = []
        for cls, name in lst:
            owner = mod
            if owner is not None and cls:
                owner = getattr(mod, cls, None)
            try:
                ok = owner is not None and (not name or hasattr(owner, name))
            except Exception:
                ok = False
            res.append(bool(ok))
        out["names"][m] = res
    for m, lst in construct.items():
        mod = sys.modules.get(m)
        res = []
        for cls, args in lst:
            try:
                getattr(mod, cls)(*eval(args))
                res.append("ok")
            except Exception as e:
                res.append("%s: %s" % (type(e).__name__, str(e)[:300]))
        out["construct"][m] = res
    return out
'''

CHILD = PROBE + r'''
import sys, json
sys.path.insert(0, sys.argv[1])
spec = json.loads(sys.stdin.read())
imports = []
for how, m in spec["order"]:
    try:
        if how == "import_module":
            import importlib
            importlib.import_module(m)
        else:
            exec(how, {})
        imports.append("ok")
    except BaseException as e:
        imports.append("%s: %s" % (type(e).__name__, str(e)[:400]))
pkg_modules = sorted(k for k in sys.modules if k == "nintendo" or k.startswith("nintendo."))
res = c20_probe(sys, spec["names"], spec["construct"])
res["imports"] = imports
res["loaded"] = pkg_modules
print("\n" + json.dumps(res))
'''


def import_graph(repo):
    """{module: set(modules of the package it imports anywhere in its source)} over every .py under <repo>/nintendo"""
    mods = {}
    for dp, dn, fn in os.walk(os.path.join(repo, "nintendo")):
        for f in fn:
            if f.endswith(".py"):
                rel = os.path.relpath(os.path.join(dp, f), repo)[:-3].replace(os.sep, ".")
                ispkg = rel.endswith(".__init__")
                if ispkg: rel = rel[:-9]
                mods[rel] = (os.path.join(dp, f), ispkg)
    edges = {}
    for m, (p, ispkg) in mods.items():
        out = set()
        try:
            t = ast.parse(open(p, encoding="utf-8").read())
        except (SyntaxError, OSError, UnicodeDecodeError):
            edges[m] = out; continue
        pkg = m if ispkg else m.rpartition(".")[0]
        for n in ast.walk(t):
            if isinstance(n, ast.Import):
                for a in n.names:
                    out.add(a.name)
            elif isinstance(n, ast.ImportFrom):
                base = n.module or ""
                if n.level:
                    parts = pkg.split(".")
                    parts = parts[:len(parts) - (n.level - 1)]
                    base = ".".join(parts + ([n.module] if n.module else []))
                out.add(base)
                for a in n.names:
                    out.add(base + "." + a.name)
            elif isinstance(n, ast.Constant) and isinstance(n.value, str) and n.value in mods:
                out.add(n.value)          # importlib.import_module("nintendo.x") / __import__ / lazy tables
            elif isinstance(n, ast.Constant) and isinstance(n.value, str) and pkg and (pkg + "." + n.value) in mods and n.value.isidentifier():
                pass                      # (a bare leaf name is too ambiguous to count as an import)
        edges[m] = {o for o in out if o in mods and o != m}
    return mods, edges


def sccs(edges):
    """Tarjan, iterative enough for 50 nodes (recursive)"""
    index, low, on, stack, out = {}, {}, set(), [], []
    counter = [0]
    sys.setrecursionlimit(max(sys.getrecursionlimit(), 5000))

    def go(v):
        index[v] = low[v] = counter[0]; counter[0] += 1
        stack.append(v); on.add(v)
        for w in sorted(edges.get(v, ())):
            if w not in index:
                go(w); low[v] = min(low[v], low[w])
            elif w in on:
                low[v] = min(low[v], index[w])
        if low[v] == index[v]:
            comp = []
            while True:
                w = stack.pop(); on.discard(w); comp.append(w)
                if w == v: break
            out.append(sorted(comp))
    for v in sorted(edges):
        if v not in index: go(v)
    return out


def documented(repo):
    """module -> ([[cls, name]], [[cls, args_repr]])"""
    docs = api_docs.parse_all(repo)
    sigs = [api_docs.public(s) for s in docs["sigs"]]
    modules = sorted({p["module"] for p in docs["pages"] if p["module"]})
    names = {m: [] for m in modules}
    inits = {}
    for s in sigs:
        if s["module"] not in names: continue
        if s["kind"] == "class":
            names[s["module"]].append(["", s["name"]])
        elif s["name"] == "__init__" and s["cls"]:
            inits.setdefault((s["module"], s["cls"]), []).append(s)
            names[s["module"]].append([s["cls"], ""])
        else:
            names[s["module"]].append([s["cls"] or "", s["name"]])
    for a in docs["attrs"]:
        if a["module"] in names and a["section"] == "Global Constants" and "." not in a["name"]:
            names[a["module"]].append(["", a["name"]])
    construct = {m: [] for m in modules}
    import corr_C20
    for (mod, cls), lst in sorted(inits.items()):
        required = min(len([p for p in s["params"] if not p["has_default"] and not p.get("kwonly")]) for s in lst)
        if (mod, cls) in corr_C20.CONSTRUCT_ARGS: args = corr_C20.CONSTRUCT_ARGS[(mod, cls)]()
        elif required == 0: args = ()
        else: continue
        construct[mod].append([cls, repr(tuple(args))])
    for m in names:
        names[m] = [list(x) for x in dict.fromkeys(tuple(x) for x in names[m])]
    return modules, names, construct


def statement_form(m):
    pkg, _, leaf = m.rpartition(".")
    return "from %s import %s" % (pkg, leaf) if pkg else "import %s" % m


def run_child(repo, order, names, construct, timeout=180):
    spec = {"order": order, "names": names, "construct": construct}
    try:
        p = subprocess.run([PY, "-c", CHILD, repo], input=json.dumps(spec), stdout=subprocess.PIPE, stderr=subprocess.PIPE, text=True, timeout=timeout,
                           cwd="/", env={k: v for k, v in os.environ.items() if k != "PYTHONPATH"})
    except subprocess.TimeoutExpired:
        return None, "timeout after %ds" % timeout
    if p.returncode != 0 or not p.stdout.strip():
        return None, "exit %d: %s" % (p.returncode, p.stderr[-800:])
    try:
        return json.loads(p.stdout.strip().splitlines()[-1]), None
    except ValueError:
        return None, "unreadable output: %s" % p.stdout[-400:]


def launch(ctx):
    """prepare the jobs and start the child interpreters in the background (they overlap with the other families); -> handle for collect()"""
    repo = vf.REPO
    quick = ctx.tier == "quick"
    modules, names, construct = documented(repo)
    mods, edges = import_graph(repo)
    # reference: this process, after importing every documented module (whatever order got us here)
    here_import = {}
    for m in modules:
        try:
            importlib.import_module(m); here_import[m] = "ok"
        except BaseException as e:
            if isinstance(e, (KeyboardInterrupt, SystemExit)): raise
            here_import[m] = "%s: %s" % (type(e).__name__, e)
    ns = {}
    exec(PROBE, ns)
    here = ns["c20_probe"](sys, names, construct)

    comps = [c for c in sccs(edges) if len(c) > 1]
    docset = set(modules)
    cyc_pairs = []
    for c in comps:
        d = [m for m in c if m in docset]
        pp = [(a, b) for a in d for b in d if a != b]
        if len(pp) > 60:
            pp = ctx.rng.sample(pp, 60)
        cyc_pairs += pp
    edge_pairs = []
    for a in modules:
        for b in sorted(edges.get(a, ())):
            if b in docset and mods.get(b, (None, True))[1] is False and mods.get(a, (None, True))[1] is False:
                edge_pairs += [(b, a), (a, b)]
    edge_pairs = [p for p in dict.fromkeys(edge_pairs) if p not in cyc_pairs]
    if quick and len(edge_pairs) > 24:
        edge_pairs = ctx.rng.sample(edge_pairs, 24)

    jobs = []       # (kind, order[(how, module)], modules inspected)
    for m in modules:
        jobs.append(("first", [("import_module", m)], [m]))
        if not quick:
            jobs.append(("first", [(statement_form(m), m)], [m]))
    for a, b in cyc_pairs:
        jobs.append(("cycle", [("import_module", a), ("import_module", b)], [a, b]))
        if not quick:
            jobs.append(("cycle", [(statement_form(a), a), (statement_form(b), b)], [a, b]))
    for a, b in edge_pairs:
        jobs.append(("edge", [("import_module", a), ("import_module", b)], [a, b]))

    def do(job):
        kind, order, insp = job
        return run_child(repo, order, {m: names[m] for m in insp}, {m: construct[m] for m in insp})
    ex = ThreadPoolExecutor(max_workers=min(8, os.cpu_count() or 2))
    futures = [ex.submit(do, j) for j in jobs]
    ex.shutdown(wait=False)
    return dict(repo=repo, jobs=jobs, futures=futures, names=names, construct=construct, here=here, here_import=here_import, comps=comps)


def collect(ctx, h):
    repo, jobs, names, construct, here, here_import, comps = h["repo"], h["jobs"], h["names"], h["construct"], h["here"], h["here_import"], h["comps"]
    results = [f.result() for f in h["futures"]]
    stats = {"singles": 0, "cycle_pairs": 0, "edge_pairs": 0, "names_looked_up": 0, "constructed": 0, "cycles": [c for c in comps]}
    reported = set()
    for (kind, order, insp), (res, err) in zip(jobs, results):
        stmts = "; ".join("import %s" % m if how == "import_module" else how for how, m in order)
        key = ("import-first:%s" % insp[0]) if kind == "first" else "import-order:%s:%s" % (insp[0], insp[1])
        stats["singles" if kind == "first" else kind + "_pairs"] += 1
        replay = {"imports_in_a_fresh_interpreter": [m for _, m in order], "statements": stmts, "repo": repo,
                  "how": "%s -c 'import sys; sys.path.insert(0, %r); %s' (harness/c20_import.py CHILD does this and then looks the documented names up)"
                         % (PY, repo, stmts.replace("import ", "import importlib; importlib.import_module(\"", 0))}
        ctx.case(key=("import", kind, stmts), nontrivial=True, tag="import:" + kind,
                 sample={"statements": stmts, "names": sum(len(names[m]) for m in insp), "constructed": sum(len(construct[m]) for m in insp)} if stats["singles"] % 17 == 1 and kind == "first" else None)
        if res is None:
            if all(here_import.get(m) == "ok" for m in insp) and key not in reported:
                reported.add(key)
                ctx.violation(key, "a fresh interpreter doing `%s` dies: %s" % (stmts, err), dict(replay, error=err))
            continue
        bad = None
        for (how, m), st in zip(order, res["imports"]):
            if st != "ok" and here_import.get(m) == "ok":
                bad = "`%s` fails in a fresh interpreter%s: %s" % ("import %s" % m if how == "import_module" else how,
                                                                  "" if (how, m) == tuple(order[0]) else " after `%s`" % ("import " + order[0][1]), st)
                break
        if bad is None:
            for m in insp:
                for (cls, name), a, b in zip(names[m], here["names"][m], res["names"][m]):
                    stats["names_looked_up"] += 1
                    if a and not b and bad is None:
                        bad = "the documented %s.%s is missing after `%s` in a fresh interpreter (it is there once other modules have been imported)" % (m, ".".join(x for x in (cls, name) if x), stmts)
                for (cls, args), a, b in zip(construct[m], here["construct"][m], res["construct"][m]):
                    stats["constructed"] += 1
                    if a == "ok" and b != "ok" and bad is None:
                        bad = "the documented class %s.%s cannot be constructed after `%s` in a fresh interpreter: %s" % (m, cls, stmts, b)
        if bad is not None and key not in reported:
            reported.add(key)
            ctx.violation(key, "documented module not usable as the first import: " + bad, dict(replay, detail=bad, modules_loaded=res.get("loaded", [])[:60]))
    ctx.extra["import_first"] = stats
    return []


def run(ctx):
    return collect(ctx, launch(ctx))
