import NxModel.Misc.BitStream
import NxProofs.Bytes
import Mathlib.Tactic.Ring
/-! bit-stream lemmas: `bits` read after `bits` written returns the value (mod 2^w); `get()` is lossless -/
namespace Nx.Misc
open Nx

@[simp] theorem natToBits_length (w v : Nat) : (natToBits w v).length = w := by
  induction w with
  | zero => rfl
  | succ w ih => simp [natToBits, ih]

theorem mod_two_pow_succ' (v w : Nat) : v % 2 ^ (w + 1) = (v.testBit w).toNat * 2 ^ w + v % 2 ^ w := by
  rw [Nat.testBit_eq_decide_div_mod_eq]
  have h2 : 2 ^ (w + 1) = 2 ^ w * 2 := Nat.pow_succ ..
  rw [h2, Nat.mod_mul]
  rcases Nat.mod_two_eq_zero_or_one (v / 2 ^ w) with h | h <;> simp [h] <;> omega

theorem foldl_natToBits (w v a : Nat) :
    (natToBits w v).foldl (fun a b => 2 * a + b.toNat) a = a * 2 ^ w + v % 2 ^ w := by
  induction w generalizing a with
  | zero => simp [natToBits, Nat.mod_one]
  | succ w ih =>
    simp only [natToBits, List.foldl_cons]
    rw [ih, mod_two_pow_succ', Nat.pow_succ]
    cases v.testBit w <;> simp <;> ring

/-- `BitStreamIn.bits(w)` after `BitStreamOut.bits(v, w)` -/
theorem bitsToNat_natToBits (w v : Nat) : bitsToNat (natToBits w v) = v % 2 ^ w := by
  unfold bitsToNat; rw [foldl_natToBits]; simp

theorem bitsToNat_natToBits_of_lt (w v : Nat) (h : v < 2 ^ w) : bitsToNat (natToBits w v) = v := by
  rw [bitsToNat_natToBits, Nat.mod_eq_of_lt h]

theorem bitsToNat_single (b : Bool) : bitsToNat [b] = b.toNat := by simp [bitsToNat]

theorem byte_bits_roundtrip : ∀ b0 b1 b2 b3 b4 b5 b6 b7 : Bool,
    natToBits 8 (byteOfBits [b0, b1, b2, b3, b4, b5, b6, b7]).toNat = [b0, b1, b2, b3, b4, b5, b6, b7] := by
  decide

/-- `BitStreamIn(get())` delivers exactly the bits that were written (byte-aligned total) -/
theorem unpack_pack (bs : Bits) (h : bs.length % 8 = 0) : unpackBits (packBits bs) = bs := by
  fun_induction packBits bs with
  | case1 b0 b1 b2 b3 b4 b5 b6 b7 r ih =>
    simp only [unpackBits, List.flatMap_cons] at ih ⊢
    rw [byte_bits_roundtrip, ih (by simp at h; omega)]
    rfl
  | case2 => rfl
  | case3 l h1 h2 =>
    exfalso
    match l, h1, h2, h with
    | [], _, h2, _ => exact h2 rfl
    | [_], _, _, h => simp at h
    | [_, _], _, _, h => simp at h
    | [_, _, _], _, _, h => simp at h
    | [_, _, _, _], _, _, h => simp at h
    | [_, _, _, _, _], _, _, h => simp at h
    | [_, _, _, _, _, _], _, _, h => simp at h
    | [_, _, _, _, _, _, _], _, _, h => simp at h
    | b0 :: b1 :: b2 :: b3 :: b4 :: b5 :: b6 :: b7 :: r, h1, _, _ => exact h1 b0 b1 b2 b3 b4 b5 b6 b7 r rfl

theorem pack_length (bs : Bits) (h : bs.length % 8 = 0) : (packBits bs).length * 8 = bs.length := by
  have := congrArg List.length (unpack_pack bs h)
  rw [← this]
  simp only [unpackBits, List.length_flatMap, natToBits_length]
  generalize packBits bs = l
  induction l with
  | nil => rfl
  | cons a r ih => simp; omega

theorem unpackBits_append (a b : Bytes) : unpackBits (a ++ b) = unpackBits a ++ unpackBits b := by
  simp [unpackBits, List.flatMap_append]

theorem unpackBits_length (a : Bytes) : (unpackBits a).length = 8 * a.length := by
  induction a with
  | nil => rfl
  | cons x r ih => simp only [unpackBits, List.flatMap_cons, List.length_append, natToBits_length, List.length_cons] at ih ⊢; omega

end Nx.Misc
