import NxModel.Nex.Rmc
/-!
# RMC server side — mirrors `RMCClient.handle_request` (`nintendo/nex/rmc.py`) and the
`handle()` dispatch + `handle_<method>` wrappers that `generate_protocols.py` emits.

`handle_request` reads `self.servers`, `self.settings`, `self.client`; it assigns to nothing on
`self`. It is therefore a function of (registered servers, request, what the awaited
`server.handle(...)` did); `react` is that function.
-/
namespace Nx.RmcServer
open Nx Nx.Rmc

/-- How the exception that left `await server.handle(...)` is classified by the `except` clauses of
    `handle_request`, in the order of the code (`RMCError` first, then the `isinstance` chain). -/
inductive Exc where
  | rmcError (code : Int)   -- `common.RMCError`; `code` = `e.result().code()`
  | typeError               -- `isinstance(e, TypeError)`
  | indexError              -- … `IndexError`
  | memoryError             -- … `MemoryError`
  | keyError                -- … `KeyError`
  | other                   -- any other `Exception` (OverflowError, ValueError, RuntimeError, struct.error,
                            --  and, on Python ≥ 3.11, an `ExceptionGroup`: it *is* an `Exception`)
  | base                    -- a `BaseException` that is no `Exception` (CancelledError, KeyboardInterrupt,
                            --  BaseExceptionGroup): caught by no clause that completes → it leaves the loop
  deriving DecidableEq, Repr

/-- what `await self.servers[protocol].handle(self, method, input, output)` did -/
inductive HandleResult where
  | returned (output : Bytes)   -- returned normally; `output.get()` = these bytes
  | raised (e : Exc)
  deriving DecidableEq, Repr

/-- error codes of `nintendo/nex/errors.py` used here (without the error bit) -/
def coreNotImplemented : Nat := 0x00010002
def pyException : Nat := 0x00040001
def pyTypeError : Nat := 0x00040002
def pyIndexError : Nat := 0x00040003
def pyMemoryError : Nat := 0x00040006
def pyKeyError : Nat := 0x00040007

/-- `Result.error(name).code()` = `error_codes[name] | 0x80000000` (all table codes are < 2^31) -/
def errorResult (c : Nat) : Int := ((c + 2147483648 : Nat) : Int)

/-- `x & 0x80000000 != 0` for a Python int -/
def bit31 (c : Int) : Bool :=
  if c ≥ 0 then (c.toNat / 2147483648) % 2 == 1
  else ((c % 4294967296).toNat / 2147483648) % 2 == 1

/-- the `Result` code `handle_request` ends up with; `none` = the exception propagates -/
def resultCode : HandleResult → Option Int
  | .returned _ => some 0x10001          -- `common.Result()` (success)
  | .raised (.rmcError c) => some c
  | .raised .typeError => some (errorResult pyTypeError)
  | .raised .indexError => some (errorResult pyIndexError)
  | .raised .memoryError => some (errorResult pyMemoryError)
  | .raised .keyError => some (errorResult pyKeyError)
  | .raised .other => some (errorResult pyException)
  | .raised .base => none

/-- what the peer sees for one request -/
inductive Reaction where
  | sends (data : Bytes)   -- exactly one datagram
  | silent                 -- nothing is sent (NORESPONSE protocol)
  | propagates             -- an exception leaves `handle_request` (and `start`): the connection's loop ends
  deriving DecidableEq, Repr

/-- the message `handle_request` builds from the final `Result` -/
def responseMsg (req : Msg) (code : Int) (output : Bytes) : Msg :=
  if !bit31 code then
    { mode := 1, protocol := req.protocol, method := req.method, callId := req.callId, error := -1, body := output }
  else
    { mode := 1, protocol := req.protocol, method := req.method, callId := req.callId, error := code, body := [] }

def sendMsg (m : Msg) : Reaction :=
  match encode m with
  | .ok b => .sends b
  | .error _ => .propagates

/-- `self.servers`: protocol id ↦ NORESPONSE flag of the registered server object -/
abbrev Registry := List (Nat × Bool)

def regLookup (p : Nat) : Registry → Option Bool
  | [] => none
  | (q, nr) :: r => if q = p then some nr else regLookup p r

/-- `handle_request(request)`; `h` is only consulted when the protocol is registered -/
def react (servers : Registry) (req : Msg) (h : HandleResult) : Reaction :=
  match regLookup req.protocol servers with
  | some noresponse =>
    match resultCode h with
    | none => .propagates
    | some code =>
      if noresponse then .silent
      else
        let out := match h with | .returned o => o | .raised _ => []
        sendMsg (responseMsg req code out)
  | none => sendMsg (responseMsg req (errorResult coreNotImplemented) [])

/-- the receive loop over a sequence of requests: stops at the first exception that propagates -/
def serve (servers : Registry) : List (Msg × HandleResult) → List Reaction
  | [] => []
  | (req, h) :: rest =>
    match react servers req h with
    | .propagates => [.propagates]
    | r => r :: serve servers rest

/-- the same loop, one request at a time (what the driver replays the real request sequence through):
    `alive = false` once an exception has left the loop; then nothing more is received.
    `serve_eq_serveInc` (NxProofs) proves it equal to `serve`. -/
def serveStep (servers : Registry) (alive : Bool) (x : Msg × HandleResult) : Bool × Option Reaction :=
  if alive then
    match react servers x.1 x.2 with
    | .propagates => (false, some .propagates)
    | r => (true, some r)
  else (false, none)

def serveInc (servers : Registry) (alive : Bool) : List (Msg × HandleResult) → List Reaction
  | [] => []
  | x :: rest =>
    let (alive', r) := serveStep servers alive x
    (match r with | some r => [r] | none => []) ++ serveInc servers alive' rest

/-! ## The generated server classes -/

/-- shape of the response part of a generated `handle_<method>` -/
inductive RespKind where
  | none                       -- no response variables: the user's return value is ignored
  | single (isObject : Bool)   -- one variable: `isinstance(response, T)`; `T = object` accepts anything
  | multi                      -- several: `isinstance(response, rmc.RMCResponse)` + `hasattr` per field
  deriving DecidableEq, Repr

structure Method where
  id : Nat
  supported : Bool
  resp : RespKind
  deriving DecidableEq, Repr

structure Server where
  protocol : Nat
  noresponse : Bool
  methods : List Method
  deriving DecidableEq, Repr

def findMethod (mid : Nat) : List Method → Option Method
  | [] => none
  | m :: r => if m.id = mid then some m else findMethod mid r

/-- what the user's implementation `self.<method>(client, *params)` does -/
inductive Shape where
  | good | wrongType | missingField
  deriving DecidableEq, Repr

inductive User where
  | stub                                       -- not overridden: the generated stub raises NotImplemented
  | raises (e : Exc)
  | returns (s : Shape) (enc : HandleResult)   -- `enc`: what writing that value to `output` does once validated
  deriving DecidableEq, Repr

def notImplemented : HandleResult := .raised (.rmcError (errorResult coreNotImplemented))

/-- generated `handle(client, method_id, input, output)`.
    `extract` = what reading the request parameters from `input` does (`none` = succeeds). -/
def generatedHandle (srv : Server) (mid : Nat) (extract : Option Exc) (u : User) : HandleResult :=
  match findMethod mid srv.methods with
  | none => notImplemented                         -- "Unknown method called on …"
  | some m =>
    if !m.supported then notImplemented            -- "… is not supported"
    else match extract with
      | some e => .raised e                        -- e.g. OverflowError on a truncated body
      | none =>
        match u with
        | .stub => notImplemented                  -- "… not implemented"
        | .raises e => .raised e
        | .returns shape enc =>
          match m.resp with
          | .none => .returned []
          | .single isObject => if shape = .good ∨ isObject then enc else .raised .other
          | .multi => if shape = .good then enc else .raised .other

/-- which user method the generated `handle()` ends up awaiting — the id of its table entry — or `none` when no
    user code runs at all: unknown method id (the `if method_id in self.methods` test fails), unsupported method,
    or parameters that cannot be read from the body. `method_id` is the 32-bit value of the request, compared
    as it is: ids that merely *alias* an entry under some narrowing (`k | 0x8000`, `k + 2^16`, …) find nothing. -/
def invoked (srv : Server) (mid : Nat) (extract : Option Exc) : Option Nat :=
  match findMethod mid srv.methods with
  | none => none
  | some m => if m.supported && extract.isNone then some m.id else none

/-- `self.servers[protocol]`: the server object a request is dispatched to (the driver's table of registered servers) -/
def findServer (p : Nat) : List Server → Option Server
  | [] => none
  | s :: r => if s.protocol = p then some s else findServer p r

/-- the whole dispatch of one decoded request: (protocol of the server whose `handle()` is entered, the method id
    it is entered with, the user method that then runs). `none` = no server registered: nothing is entered. -/
def dispatch (tbl : List Server) (req : Msg) (extract : Option Exc) : Option (Nat × Nat × Option Nat) :=
  match findServer req.protocol tbl, req.method with
  | some srv, some mid => some (srv.protocol, mid, invoked srv mid extract)
  | _, _ => none

def registryOf (l : List Server) : Registry := l.map fun s => (s.protocol, s.noresponse)

/-- all method ids of the table are below 2^15 (generated obligation `method_ids_fit`) -/
def Server.methodIdsFit (s : Server) : Bool := s.methods.all fun m => decide (m.id < 32768)

/-- linear checkers for the generated obligations -/
def natsDistinct : List Nat → Bool
  | [] => true
  | x :: r => !r.contains x && natsDistinct r

def Server.methodIdsDistinct (s : Server) : Bool := natsDistinct (s.methods.map (·.id))
def protocolsDistinct (l : List Server) : Bool := natsDistinct (l.map (·.protocol))

end Nx.RmcServer
