import NxModel.Nex.RmcListener
import NxProofs.RmcServer
/-! proofs about the listener model: the table of a connection depends on the listener's list and on that
    connection's own registrations only -/
namespace Nx.RmcListener
open Nx Nx.Rmc Nx.RmcServer

theorem tableOf_setTable_ne {c d : Nat} (h : d ≠ c) (t : List Server) (l : List (Nat × List Server)) :
    tableOf d (setTable c t l) = tableOf d l := by
  induction l with
  | nil => rfl
  | cons x r ih =>
    obtain ⟨e, u⟩ := x
    by_cases he : e = c
    · subst he
      have : ¬ e = d := fun q => h q.symm
      simp [setTable, tableOf, this]
    · simp only [setTable, he, if_false, tableOf, ih]

theorem tableOf_setTable_self {c : Nat} (t : List Server) (l : List (Nat × List Server)) {u : List Server}
    (h : tableOf c l = some u) : tableOf c (setTable c t l) = some t := by
  induction l with
  | nil => simp [tableOf] at h
  | cons x r ih =>
    obtain ⟨e, v⟩ := x
    by_cases he : e = c
    · simp [setTable, tableOf, he]
    · simp only [tableOf, he, if_false] at h
      simp only [setTable, he, if_false, tableOf, ih h]

theorem tableOf_dropConn_ne {c d : Nat} (h : d ≠ c) (l : List (Nat × List Server)) :
    tableOf d (dropConn c l) = tableOf d l := by
  induction l with
  | nil => rfl
  | cons x r ih =>
    obtain ⟨e, u⟩ := x
    by_cases he : e = c
    · subst he
      have : ¬ e = d := fun q => h q.symm
      simp [dropConn, tableOf, this, ih]
    · simp only [dropConn, he, if_false, tableOf, ih]

theorem tableOf_dropConn_self (c : Nat) (l : List (Nat × List Server)) : tableOf c (dropConn c l) = none := by
  induction l with
  | nil => rfl
  | cons x r ih =>
    obtain ⟨e, u⟩ := x
    by_cases he : e = c
    · simp [dropConn, he, ih]
    · simp [dropConn, he, tableOf, ih]

/-- no event changes the list the listener was started with -/
theorem step_servers (l : Listener) (e : Ev) : (step l e).1.servers = l.servers := by
  cases e with
  | accept c => rfl
  | close c => rfl
  | register c s =>
    cases hq : tableOf c l.conns with
    | none => simp only [step, hq]
    | some t => cases hr : register t s <;> simp only [step, hq, hr]
  | request c req h =>
    cases hq : tableOf c l.conns <;> simp only [step, hq]

/-- an event of connection `e.conn` leaves the table of every OTHER connection as it is -/
theorem step_other (l : Listener) (e : Ev) (d : Nat) (h : d ≠ e.conn) :
    tableOf d (step l e).1.conns = tableOf d l.conns := by
  cases e with
  | accept c =>
    have : ¬ c = d := fun q => h q.symm
    simp only [step, tableOf, this, if_false]
    exact tableOf_dropConn_ne h _
  | close c => exact tableOf_dropConn_ne h _
  | register c s =>
    cases hq : tableOf c l.conns with
    | none => simp only [step, hq]
    | some t =>
      cases hr : register t s with
      | none => simp only [step, hq, hr]
      | some t' => simp only [step, hq, hr]; exact tableOf_setTable_ne h _ _
  | request c req hr =>
    cases hq : tableOf c l.conns <;> simp only [step, hq]

theorem run_servers (l : Listener) (evs : List Ev) : (run l evs).1.servers = l.servers := by
  induction evs generalizing l with
  | nil => rfl
  | cons e r ih => simp only [run]; rw [ih, step_servers]

/-- … and so does any history of events of other connections -/
theorem run_other (l : Listener) (evs : List Ev) (d : Nat) (h : ∀ e ∈ evs, d ≠ e.conn) :
    tableOf d (run l evs).1.conns = tableOf d l.conns := by
  induction evs generalizing l with
  | nil => rfl
  | cons e r ih =>
    simp only [run]
    rw [ih _ (fun x hx => h x (List.mem_cons_of_mem _ hx)), step_other l e d (h e List.mem_cons_self)]

/-- an accepted connection starts with the listener's servers, whatever happened before -/
theorem accept_fresh (l : Listener) (c : Nat) : tableOf c (step l (.accept c)).1.conns = some l.servers := by
  simp [step, tableOf]

theorem close_forgets (l : Listener) (c : Nat) : tableOf c (step l (.close c)).1.conns = none :=
  tableOf_dropConn_self c _

theorem regLookup_registryOf (p : Nat) (t : List Server) :
    regLookup p (registryOf t) = (findServer p t).map (·.noresponse) := by
  induction t with
  | nil => rfl
  | cons s r ih =>
    simp only [registryOf, List.map_cons, regLookup, findServer] at ih ⊢
    by_cases hs : s.protocol = p
    · simp [hs]
    · simp only [hs, if_false]; exact ih

/-- a request for a protocol its connection has no server for is answered `Core::NotImplemented` -/
theorem request_not_here (l : Listener) (c : Nat) (t : List Server) (req : Msg) (m : Nat) (w : ReqWF req m)
    (ht : tableOf c l.conns = some t) (hp : findServer req.protocol t = none) (h : HandleResult) :
    step l (.request c req h) = (l, .reaction (.sends (specEncode (.failure req.protocol req.callId 0x80010002)))) := by
  have hr : regLookup req.protocol (registryOf t) = none := by rw [regLookup_registryOf, hp]; rfl
  simp only [step, ht, react_unregistered w hr h]

/-- registering a protocol the connection does not have succeeds and adds it to THAT connection -/
theorem register_ok (l : Listener) (c : Nat) (t : List Server) (s : Server)
    (ht : tableOf c l.conns = some t) (hp : findServer s.protocol t = none) :
    (step l (.register c s)).2 = .registered true ∧ tableOf c (step l (.register c s)).1.conns = some (s :: t) := by
  simp only [step, ht, register, hp, true_and]
  exact tableOf_setTable_self _ _ ht

/-- registering a protocol the connection already has raises and changes nothing -/
theorem register_dup (l : Listener) (c : Nat) (t : List Server) (s s' : Server)
    (ht : tableOf c l.conns = some t) (hp : findServer s.protocol t = some s') :
    step l (.register c s) = (l, .registered false) := by
  simp only [step, ht, register, hp]

end Nx.RmcListener
