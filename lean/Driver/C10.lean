import NxModel.Nex.RmcClient
import NxModel.DriverUtil
/-! line-protocol driver for the RMC client call-matching model (stateful; one model object)
  new <nextId>       -> ok                      fresh client whose `call_id` counter is <nextId>
  call <0|1>         -> outs                    `request(..., noresponse=<1>)` up to the send
  recv <hex>         -> outs | crash <Err>      one datagram through `RMCMessage.parse` + the loop body
  eof | cleanup      -> outs
  wake <t>           -> outs
  dump               -> state next=.. tasks=.. closed=.. requests=[..] responses=[..] frames=[t:id:ready ..]
  outs = `;`-joined: sent t id | done t body <hex> | done t rmc <code> | done t closed | done t none |
         done t keyerror | set t | warn id | closing t,t,.. | notready t | notask t   (`-` when empty)
  A trailing ` SPECDIFF` is appended when the specification machine (run in lock step) emitted
  different observable outputs; ` H-IDS-BROKEN` once the distinct-live-ids hypothesis failed. -/
open Nx Nx.Rmc Nx.RmcClient

def showOutcome : Outcome → String
  | .body b => "body " ++ hexOut b
  | .rmcError c => s!"rmc {c}"
  | .closed => "closed"
  | .none => "none"
  | .keyError => "keyerror"

def insertSorted (x : Nat) : List Nat → List Nat
  | [] => [x]
  | y :: r => if x ≤ y then x :: y :: r else y :: insertSorted x r
def sortNat (l : List Nat) : List Nat := l.foldr insertSorted []

def joinNat (l : List Nat) : String := ",".intercalate ((sortNat l).map toString)

def showOut : Out → String
  | .sent t id => s!"sent {t} {id}"
  | .done t o => s!"done {t} " ++ showOutcome o
  | .set t => s!"set {t}"
  | .warnInvalidCallId id => s!"warn {id}"
  | .closing ts => "closing " ++ (if ts.isEmpty then "-" else joinNat ts)
  | .notReady t => s!"notready {t}"
  | .noSuchTask t => s!"notask {t}"

def showOuts (l : List Out) : String := if l.isEmpty then "-" else ";".intercalate (l.map showOut)

structure D where
  s : State
  a : CallSpec
  hids : Bool

def dump (s : State) : String :=
  let fr := (sortNat (s.frames.map (·.1))).map fun t =>
    match dlookup t s.frames with
    | some id => s!"{t}:{id}:{if t ∈ s.fired then 1 else 0}"
    | none => "?"
  s!"state next={s.nextId} tasks={s.nextTask} closed={if s.closed then 1 else 0} requests=[{joinNat (s.requests.map (·.1))}] responses=[{joinNat (s.responses.map (·.1))}] frames=[{" ".intercalate fr}]"

def apply (d : D) (op : Op) : D × String :=
  let ok := d.hids && distinctLive d.s [op]
  let (s', o) := step d.s op
  let (a', oa) := CallSpec.step d.a op
  let diff := o.filter Out.observable != oa
  ({ s := s', a := a', hids := ok },
   showOuts o ++ (if diff then " SPECDIFF" else "") ++ (if !ok then " H-IDS-BROKEN" else ""))

def stepLine (d : D) (line : String) : D × String :=
  match line.splitOn " " with
  | ["new", n] =>
    match n.toNat? with
    | some n => ({ s := { init with nextId := n }, a := { CallSpec.init with nextId := n }, hids := true }, "ok")
    | none => (d, "bad-op")
  | ["call", b] =>
    if b = "0" then apply d (.call false) else if b = "1" then apply d (.call true) else (d, "bad-op")
  | ["recv", h] =>
    match fromHex h with
    | some data =>
      match decode data with
      | .error e => (d, "crash " ++ e.name)
      | .ok _ =>
        match opOfData data with
        | some op => apply d op
        | none => (d, "bad-op")
    | none => (d, "bad-op")
  | ["eof"] => apply d .eof
  | ["cleanup"] => apply d .cleanup
  | ["wake", t] =>
    match t.toNat? with
    | some t => apply d (.wake t)
    | none => (d, "bad-op")
  | ["dump"] => (d, dump d.s)
  | _ => (d, "bad-op")

def main : IO Unit := runState { s := init, a := CallSpec.init, hids := true : D } stepLine
