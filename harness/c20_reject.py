"""C20 — a setter call that is REJECTED must leave the client exactly as it was.

"Each client configuration setter observably changes the corresponding request field" has a converse the other families never
visit: a call the setter refuses (it raises — `set_system_version(1799)` "Unknown system version", `NASCClient.set_title(...,
media_type=CARTRIDGE)` without rom id) configures NOTHING. A program that catches the exception and goes on (falls back to another
version, asks the user again) must find the client it had: every later request is the request of a client that never saw the
rejected call. A setter that writes some of its attributes before it validates breaks exactly this, and only histories with a
rejected call in them can see it.

Discovery is black-box and the same for every set_* of every client (nnas, nasc, hpp, dauth, aauth, baas, dragons, five, sun, atumn;
the identity setters set_context / set_certificate / set_request_callback are left to the other families):

  * every parameter whose known values are integers is swept over -2 .. 2200 and a list of large values (the other parameters held at
    known-good values): the accepted set, the rejected set, and the THRESHOLDS = the ends of the accepted range + every integer
    constant the client's module compares something with (`self.system_version < 1800` ...; ast of the module of the class);
  * every parameter is replaced by each value of a pool of unsupported-looking values (None, -1, 0 .. 3, 2^32, '', 'x', b''), and
    every pair of parameters by each pair of a smaller pool (this is how "cartridge and no rom id" is found without naming it);
    candidates are built on an argument tuple that differs from the accepted one in EVERY parameter, so that a partial write shows.

A candidate counts as rejected when a fresh client raises on it. Rejected values used: for every threshold t the nearest rejected
value below t and the nearest at or above t, below the smallest / above the largest accepted value, 0, -1, huge, plus a seeded
sample of the other ends of rejected runs (thorough: all of them). Accepted values used: the smallest and the largest accepted
value and, for every threshold, the nearest accepted value on either side — so every (accepted, rejected) pair that straddles a
threshold in either direction is visited.

Histories on ONE object (R = rejected call, caught; A = accepted call of the same setter; T = accepted call of another setter):

    R                      A, R                  A, <every request>, R          R, A
    A, R, T                T, R                  A, R, R'                       A, R, A' (A' a second accepted value)

then EVERY public call of the client (all argument variants of switch_cases.call_variants for the Switch clients except the 23
language-only FiveClient ones; the 11 nnas / 2 nasc call shapes; hpp.request). Oracle: each request (host, bytes; or the exception
it ends in) equals the one of a fresh client that went through the same history WITHOUT the rejected calls. A rejected call that
does not raise inside the history is not counted (nothing to compare). For nasc the result is also replayed through the Lean
request model with the rejected setter dropped (Nx.C20.nasc_rejected_setter_changes_nothing says that is what the model does).

Key:  setter-rejected:<client>.<setter>
"""
import ast, inspect, itertools
import anyio
from anynet import http
import switch_cases as sc
import api_boundary as ab
import c20_optseq as oq

SCAN = list(range(-2, 2201)) + [2 ** 15, 2 ** 16 - 1, 2 ** 16, 2 ** 31 - 1, 2 ** 31, 2 ** 32, 2 ** 64]
POOL1 = [None, -1, 0, 1, 2, 3, 2 ** 32, "", "x", b""]
POOL2 = [None, 0, 1, 2, 3, ""]
OTHER = {"set_host": ("other.example",), "set_hosts": ("o1.example", "o2.example", "o3.example"), "set_url": ("other.example",),
         "set_environment": ("D1",), "set_power_state": ("HA",), "set_locale": None, "set_fpd_version": (14,)}


def thresholds_of(cls):
    """integer constants the module of `cls` compares something with"""
    try:
        tree = ast.parse(open(inspect.getsourcefile(cls), encoding="utf-8").read())
    except (OSError, TypeError, SyntaxError):
        return []
    out = set()
    for n in ast.walk(tree):
        if isinstance(n, ast.Compare):
            for c in [n.left] + list(n.comparators):
                if isinstance(c, ast.Constant) and isinstance(c.value, int) and not isinstance(c.value, bool) and 16 < c.value <= 2200:
                    out.add(c.value)
    return sorted(out)


def show(setter, args):
    return "%s(%s)" % (setter, ", ".join(("0x%X" % a if isinstance(a, int) and not isinstance(a, bool) and a > 99999 else repr(a)) for a in args))


class SwitchAll(oq.Switch):
    def __init__(self, mods, client, quick):
        oq.Switch.__init__(self, mods, client)
        seen = set()
        self.calls = []
        for c, a, t in sc.call_variants(client):
            if t.startswith(("lang:", "nolang:")): continue
            if quick and t not in ab.GOOD_TAGS and (c, "x") in seen and t not in ("no-country", "penne", "fields", "count", "jwt-ok", "no-challenge", "empty", "system", "vendor"):
                continue
            seen.add((c, "x"))
            self.calls.append((c, a))


def run(ctx, drv, mods):
    import datetime as _dt
    from nintendo import nasc
    quick = ctx.tier == "quick"
    rng = ctx.rng
    real_request = http.request
    adapters = [oq.Legacy("nnas"), oq.Legacy("nasc"), oq.Legacy("hpp")] + [SwitchAll(mods, c, quick) for c in sc.CLIENTS]
    adapters[1].calls = ab.NASC_CALLS

    async def fake(url, req, context=None, **kw):
        for a in adapters[:3]:
            a.cap.append((url, req.encode(), context))
        raise StopAsyncIteration

    class FixedDT(_dt.datetime):
        @classmethod
        def now(cls, tz=None): return cls(2024, 5, 6, 7, 8, 9)

    stats = {"setters_probed": 0, "candidates_tried": 0, "rejecting_setters": {}, "histories": 0, "requests_compared": 0, "rejected_not_raised_in_history": 0,
             "thresholds": {}}
    lines, reals = [], []
    reported = set()

    def raises(c, setter, args):
        try:
            getattr(c, setter)(*args)
        except Exception as e:
            return e
        return None

    async def main():
        for ad in adapters:
            try:
                ad.fresh(None)
            except Exception:
                continue        # reported by construct_checks / legacy_checks
            setters = sorted(n for n in dir(ad.cls) if n.startswith("set_") and n not in oq.SKIP)
            table_of = oq.VALUES.get(ad.name, oq.SWITCH_VALUES if isinstance(ad, oq.Switch) else {})
            thr = thresholds_of(ad.cls)
            for setter in setters:
                table = table_of.get(setter)
                if table is None: continue          # setter-unknown is reported by corr_C20
                req, opt = oq.signature_of(ad.cls, setter)
                n = len(req) + len(opt)
                fulls = []
                for k, t in enumerate(table):
                    t = tuple(t)
                    if len(t) < n: t = t + tuple(oq.guess(p, k) for p in (req + opt)[len(t):])
                    fulls.append(t[:n])
                stats["setters_probed"] += 1
                # ---------------- discovery (on throw-away clients; confirmed on a fresh one below)
                probe = ad.fresh(setter)
                accepted = [t for t in fulls if raises(ad.fresh(setter), setter, t) is None]
                if not accepted: continue
                base = fulls[1] if fulls[1] in accepted else accepted[-1]     # the tuple candidates are built on
                cands = []                                                     # (args, why)
                int_info = {}
                for i in range(n):
                    if all(isinstance(t[i], int) and not isinstance(t[i], bool) for t in fulls):
                        acc, rej = [], []
                        for v in SCAN:
                            stats["candidates_tried"] += 1
                            (rej if raises(probe, setter, base[:i] + (v,) + base[i + 1:]) is not None else acc).append(v)
                        if rej and acc:
                            int_info[i] = (acc, rej)
                if int_info:
                    probe = ad.fresh(setter)
                for i, (acc, rej) in int_info.items():
                    rs = set(rej)
                    T = sorted(set([t for t in thr if min(acc) <= t <= max(acc) + 1] + [min(acc), max(acc) + 1]))
                    stats["thresholds"]["%s.%s" % (ad.name, setter)] = T
                    picks = []
                    for t in T:
                        lo = [v for v in rej if v < t]
                        hi = [v for v in rej if v >= t]
                        if lo: picks.append(max(lo))
                        if hi: picks.append(min(hi))
                    picks += [v for v in (0, -1, min(acc) - 1, max(acc) + 1, 2 ** 32) if v in rs]
                    ends = [v for v in rej if (v - 1 not in rs or v + 1 not in rs) and -2 < v < 2200]
                    rest = [v for v in ends if v not in picks]
                    picks += rest if not quick else rng.sample(rest, min(6, len(rest)))
                    for v in dict.fromkeys(picks):
                        cands.append((base[:i] + (v,) + base[i + 1:], "int"))
                    # accepted representatives of this parameter
                    accs = [min(acc), max(a for a in acc if a < 2 ** 15) if [a for a in acc if a < 2 ** 15] else max(acc)]
                    for t in T:
                        lo = [v for v in acc if v < t]
                        hi = [v for v in acc if v >= t and v < 2 ** 15]
                        if lo: accs.append(max(lo))
                        if hi: accs.append(min(hi))
                    other = accepted[0] if accepted[0] != base else accepted[-1]
                    int_info[i] = (acc, rej, [other[:i] + (v,) + other[i + 1:] for v in dict.fromkeys(accs)])
                for i in range(n):
                    for v in POOL1:
                        stats["candidates_tried"] += 1
                        t = base[:i] + (v,) + base[i + 1:]
                        if raises(probe, setter, t) is not None: cands.append((t, "single"))
                for i, j in itertools.combinations(range(n), 2):
                    for v in POOL2:
                        for w in POOL2:
                            stats["candidates_tried"] += 1
                            t = base[:i] + (v,) + base[i + 1:j] + (w,) + base[j + 1:]
                            if raises(probe, setter, t) is not None: cands.append((t, "pair"))
                # confirmed on a fresh client; distinct; not too many of one kind
                rejected, seen = [], set()
                for t, why in cands:
                    if repr(t) in seen: continue
                    seen.add(repr(t))
                    if raises(ad.fresh(setter), setter, t) is not None:
                        rejected.append((t, why))
                if not rejected: continue
                nonint = [r for r in rejected if r[1] != "int"]
                lim = 8 if quick else 40
                if len(nonint) > lim:
                    nonint = nonint[:2] + rng.sample(nonint[2:], lim - 2)
                rejected = [r for r in rejected if r[1] == "int"] + nonint
                acc_tuples = []
                for i, info in int_info.items():
                    acc_tuples += info[2]
                if not acc_tuples:
                    acc_tuples = [t for t in accepted if t != base] or accepted
                acc_tuples = list(dict.fromkeys(acc_tuples))
                stats["rejecting_setters"]["%s.%s" % (ad.name, setter)] = {"rejected_values": len(rejected), "accepted_values": len(acc_tuples),
                                                                          "example": show(setter, rejected[0][0])}
                oth = next(((s, OTHER[s]) for s in setters if s != setter and OTHER.get(s)), None)
                calls = ad.calls
                ref_cache = {}

                async def play(hist, skip_rejected):
                    """-> (results of every public call, [did rejected step k raise])"""
                    c = ad.fresh(setter)
                    raised = []
                    for step in hist:
                        if step[0] == "req":
                            for call, args in calls:
                                await ad.request(c, call, args)
                        elif step[0] == "rej":
                            if not skip_rejected:
                                raised.append(raises(c, step[1], step[2]) is not None)
                        else:
                            e = raises(c, step[1], step[2])
                            if e is not None: return None, raised
                    return [await ad.request(c, call, args) for call, args in calls], raised

                def text(hist):
                    parts = ["c = %s(...)" % ad.cls.__name__]
                    for s in hist:
                        if s[0] == "req": parts.append("<every public call once>")
                        elif s[0] == "rej": parts.append("try: c.%s  except Exception: pass" % show(s[1], s[2]))
                        else: parts.append("c.%s" % show(s[1], s[2]))
                    return "; ".join(parts)

                async def judge(hist, shape):
                    key0 = repr([s for s in hist if s[0] != "rej"])
                    if key0 not in ref_cache:
                        ref_cache[key0] = (await play(hist, True))[0]
                    want = ref_cache[key0]
                    if want is None: return
                    got, raised = await play(hist, False)
                    if got is None: return
                    if not all(raised):
                        stats["rejected_not_raised_in_history"] += 1; return
                    stats["histories"] += 1
                    for ci, (call, args) in enumerate(calls):
                        stats["requests_compared"] += 1
                        ctx.case(key=("reject", ad.name, setter, key0, repr([s for s in hist if s[0] == "rej"]), shape, ci), nontrivial=True,
                                 tag="reject:%s.%s:%s" % (ad.name, setter, shape),
                                 sample={"history": text(hist), "call": ab.show_call(call, args)} if stats["requests_compared"] % 900 == 1 else None)
                        if got[ci] != want[ci]:
                            key = "setter-rejected:%s.%s" % (ad.name, setter)
                            if key in reported: continue
                            reported.add(key)
                            g, w = ad.readable(got[ci]), ad.readable(want[ci])
                            split = lambda s: s.replace("&", "\r\n").replace("\\r\\n", "\r\n").split("\r\n")
                            ctx.violation(key, "a rejected %s.%s call changes the client: after %s the %s request differs from the one of a client that never saw the rejected call"
                                          % (ad.cls.__name__, setter, text(hist), ab.show_call(call, args)),
                                          {"client": ad.name, "setter": setter, "history": text(hist), "call": ab.show_call(call, args),
                                           "difference": {"only_after_rejected_call": [l for l in split(g) if l not in split(w)][:6],
                                                          "only_without_it": [l for l in split(w) if l not in split(g)][:6]},
                                           "request_after_rejected_call": g, "request_without_it": w,
                                           "how": "harness/c20_reject.py: anynet.http.request / the request callback replaced by a capturing stub"})
                        elif ad.name == "nasc" and all(s[0] == "rej" or (s[0] == "set" and s[1] == setter) for s in hist) and got[ci].startswith("ok "):
                            effs = [s[2] for s in hist if s[0] == "set"]
                            c = ad.fresh(setter)
                            try:
                                lines.append(ad.model_line(c, setter, effs, call, args)); reals.append(got[ci])
                            except (ValueError, TypeError):
                                pass

                for ri, (R, why) in enumerate(rejected):
                    await judge([("rej", setter, R)], "alone")
                    for ai, A in enumerate(acc_tuples):
                        await judge([("set", setter, A), ("rej", setter, R)], "after-accepted")
                        k = (ri + ai) % 6
                        if k == 0: await judge([("set", setter, A), ("req",), ("rej", setter, R)], "after-requests")
                        elif k == 1: await judge([("rej", setter, R), ("set", setter, A)], "before-accepted")
                        elif k == 2 and oth: await judge([("set", setter, A), ("rej", setter, R), ("set",) + oth], "then-other-setter")
                        elif k == 3 and oth: await judge([("set",) + oth, ("rej", setter, R)], "after-other-setter")
                        elif k == 4: await judge([("set", setter, A), ("rej", setter, R), ("rej", setter, rejected[(ri + 1) % len(rejected)][0])], "two-rejected")
                        elif k == 5: await judge([("set", setter, A), ("rej", setter, R), ("set", setter, acc_tuples[(ai + 1) % len(acc_tuples)])], "between-accepted")

    http.request = fake
    nasc.datetime.datetime = FixedDT
    try:
        anyio.run(main)
    finally:
        http.request = real_request
        nasc.datetime.datetime = _dt.datetime
    diffs = []
    if lines:
        outs = drv.batch(lines)
        for l, r, o in zip(lines, reals, outs):
            if r != o:
                diffs.append(("reject", l[:600], r[:600], o[:600]))
    stats["model_lines"] = len(lines)
    ctx.extra["rejected_setters"] = stats
    return diffs
