import NxModel.Nex.SchemaInventory
import NxModel.DriverUtil
/-! driver for C12: `inv <protos,> <modules,> <pages,>` -> `ok <0|1> | <protos without module> | <modules without proto> | <protos without page> | <pages without proto>`
    (comma separated Nat codes, `-` = empty) -/
open Nx Nx.Schema.Inv

def pList (s : String) : Option (List Nat) :=
  if s == "-" then some [] else (s.splitOn ",").mapM (·.toNat?)

def sList (l : List Nat) : String := if l.isEmpty then "-" else ",".intercalate (l.map toString)

def step (line : String) : String :=
  match words line with
  | ["inv", p, m, d] =>
    match pList p, pList m, pList d with
    | some p, some m, some d =>
      s!"ok {if inventoryOK p m d then 1 else 0} | {sList (missing p m)} | {sList (missing m p)} | {sList (missing p d)} | {sList (missing d p)}"
    | _, _, _ => "bad-op"
  | _ => "bad-op"

def main : IO Unit := runLines step
