"""C03 — MANY whole packets in ONE chunk / datagram.

The property quantifies over every number of packets in a datagram / stream chunk: "several packets concatenated in one
datagram decode to the same sequence, and a lite byte stream decodes to the same packets however it is cut into chunks".
The base families of corr_C03 stop at 6 packets per datagram / per stream. This module explores the axis `number of whole
packets in ONE decode call`:

  A. codec level (PRUDPMessageV0 x 8 variants, PRUDPMessageV1, PRUDPLiteMessage): bursts of n packets, n = 17, 32, 100, 1000,
     the values around every power of two up to 1024 and random n, of several shapes (12-byte lite acks with consecutive ids,
     small random packets, packets with options, full-size payloads), fed in ONE piece, and (lite) the same bytes cut at every
     packet boundary, in groups of k packets, at random fine positions, in fixed-size blocks. Oracle on the real code: the
     packets come out complete and in order, and at the same TIME: after every decode call the number of packets delivered so
     far is the number of packets whose last byte has been fed (so a complete packet never waits for a later call), and the
     buffer holds exactly the unconsumed tail. Every call is also replayed through the compiled Lean decoder.
  B. transport level: the same bursts through the real receive loops PRUDPSocketTransport.handle (tcp / websocket, one
     PRUDPMessageSelector per connection), PRUDPDatagramTransport.process (udp, versions 0 / 1 / 2 = by magic, aggregated v0 and
     v1 datagrams) and PRUDPClientTransport.process (v0, v1, lite) with fake sockets and a recording endpoint bound in the
     transport's port table: every packet is dispatched, in order, before the loop asks the socket for the next chunk. The
     packets dispatched per chunk and the decoder's buffer are compared with the Lean selector decode (`seldec`).

A failing burst is shrunk to the shortest failing prefix before it is reported."""
import bisect
import anyio
from anyio import lowlevel
from anynet import util
from nintendo.nex import prudp
from codec_prudp import *

FIXED_N = [17, 32, 100, 1000]
EDGE_N = [7, 8, 9, 15, 16, 31, 33, 63, 64, 65, 99, 101, 127, 128, 129, 255, 256, 257, 511, 512, 513, 999, 1001, 1023, 1024, 1025]
SHAPES = ["acks", "small", "mixed", "big"]


def pick_counts(rng, quick, extra_random=3, edges=6, beyond=True):
    ns = list(FIXED_N)
    ns += rng.sample(EDGE_N, edges) if quick else EDGE_N + [2048, 4096]
    ns += [rng.randint(7, 700) for _ in range(extra_random if quick else 20)]
    if beyond:
        ns.append(rng.choice([1001, 1023, 1024, 1025, 1100, 1500, 2000, 2048, 2049]))      # a count beyond 1000
    return sorted(set(ns))


# ---------------------------------------------------------------------------------------------
# bursts of well-formed packets

def gen_for(rng, enc, fv, ptype=None, flags=None):
    return gen_v0(rng, fv, ptype, flags) if enc == "v0" else gen_v1(rng, ptype, flags) if enc == "v1" else gen_lite(rng, ptype, flags)


def burst(rng, enc, fv, encode, n, shape, dest=None, defined_types=False):
    """n well-formed packets of one encoding that the encoder accepts, with their encodings. dest = (dest_type, dest_port)
    puts all of them on one virtual port (for the transports). v0: FLAG_HAS_SIZE on all but (possibly) the last packet,
    as the concatenation theorem requires. defined_types: only the five packet types an endpoint knows (the transports log
    every packet with PRUDPPacket.__repr__, which raises IndexError for the type values 5..15 that the codecs carry; the receive
    loop then drops the rest of the chunk - hostile-traffic behaviour, outside C03)."""
    ts, datas = [], []
    pid = rng.choice([0, 1, 0xFF00, 0xFFF0, rng.randint(0, 0xFFFF)])
    base = gen_for(rng, enc, fv, 2, 1)      # DATA | ACK
    cap = {"acks": 0, "small": 6, "mixed": 40, "big": 1400}[shape]
    for j in range(n):
        for attempt in range(60):
            if shape == "acks":
                # an acknowledgement burst: DATA|ACK, empty payload, consecutive sequence ids (wrapping at 0xFFFF)
                t = base[:8] + ((pid + j) & 0xFFFF, 0) + base[10:17] + (b"",)
            else:
                t = gen_for(rng, enc, fv)
                if defined_types and t[0] > 4: continue
                if len(t[-1]) > cap: t = t[:-1] + (t[-1][:rng.randint(0, cap)],)
            if dest is not None:
                t = t[:5] + (dest[0], dest[1]) + t[7:]
            if enc == "v0" and (j < n - 1 or rng.random() < 0.5):
                t = (t[0], t[1] | 8) + t[2:]
            e = encode(t)
            if isinstance(e, bytes): break
        else:
            return None, None      # the encoder refuses well-formed packets: reported by the round-trip oracle
        ts.append(t); datas.append(e)
    return ts, datas


def ends_of(datas):
    ends, pos = [], 0
    for d in datas:
        pos += len(d); ends.append(pos)
    return ends


def cut_modes(rng, datas, tail):
    """name -> list of chunks of the stream (lite): the same bytes in one piece and cut in several ways"""
    stream = b"".join(datas) + tail
    n = len(datas)
    ends = ends_of(datas)
    res = {"one-piece": [stream]}
    res["packet-boundaries"] = split_cuts(stream, ends if tail else ends[:-1])
    k = rng.choice([2, 3, 16, 17, 32, 33, 100]) if n > 4 else 2
    res["groups-of-%d" % k] = split_cuts(stream, [ends[i] for i in range(k - 1, n - 1, k)])
    res["random-cuts"] = split_cuts(stream, sorted(rng.randint(0, len(stream)) for _ in range(max(2, n // 3))))
    blk = rng.choice([1, 5, 11, 12, 13, 64, 1000, 1024, 4096]) if len(stream) <= 3000 else rng.choice([64, 1000, 1024, 1460, 4096, 16384])
    res["blocks-of-%d" % blk] = [stream[i:i + blk] for i in range(0, len(stream), blk)] or [b""]
    # a big first read that ends inside a packet, then the rest
    if len(stream) > 1:
        p = rng.randint(len(stream) // 2, len(stream) - 1)
        res["big-read-then-rest"] = [stream[:p], stream[p:]]
    return res


def split_cuts(data, cuts):
    res, prev = [], 0
    for c in cuts:
        res.append(data[prev:c]); prev = c
    res.append(data[prev:])
    return res


def tfields(t):
    return dict(zip(FIELDS, [x.hex() if isinstance(x, bytes) else x for x in t]))


def compact_replay(ts, chunks):
    r = {"n_packets": len(ts), "first_packets": [tfields(t) for t in ts[:3]], "last_packet": tfields(ts[-1]) if ts else None,
         "chunk_sizes": [len(ch) for ch in chunks][:200]}
    total = sum(len(ch) for ch in chunks)
    if total <= 40000:
        r["chunks"] = [ch.hex() for ch in chunks]
    else:
        r["chunks_truncated"] = [ch[:64].hex() for ch in chunks[:20]]
    return r


# ---------------------------------------------------------------------------------------------
# A. codec level

def feed_timed(new_codec, chunks, lite):
    """feed the chunks to ONE fresh codec object (lite) / decode each datagram (v0, v1); returns per call the packets that came
    out of that call (or the exception) and the buffer afterwards"""
    o = new_codec()
    calls = []
    for ch in chunks:
        r = safe(o.decode, ch)
        calls.append((r, o.buffer if lite else b""))
        if isinstance(r, Exception): break
    return calls


def judge_stream(ts, ends, tail, chunks, calls):
    """the property on one fed stream: None or a description of the failure. `ends` = end offsets of the packets"""
    fed, got = 0, []
    total = ends[-1] + len(tail) if ends else len(tail)
    for i, ((r, buf), ch) in enumerate(zip(calls, chunks)):
        if isinstance(r, Exception):
            return "decode raised %r on call %d of %d of a valid stream of %d packets" % (r, i + 1, len(chunks), len(ts))
        fed += len(ch)
        got += [fields_of(p) for p in r]
        due = bisect.bisect_right(ends, fed)
        if len(got) != due:
            return ("after call %d of %d (%d bytes fed, %d whole packets received) %d packets have been delivered (%d by this call)"
                    % (i + 1, len(chunks), fed, due, len(got), len(r)))
        if got != list(ts[:due]):
            k = next(j for j in range(due) if got[j] != ts[j])
            return "packet %d of %d came out with different fields / out of order" % (k + 1, len(ts))
        want_buf_len = fed - (ends[due - 1] if due else 0)
        if len(buf) != want_buf_len:
            return "after call %d the buffer holds %d bytes, the unconsumed tail has %d" % (i + 1, len(buf), want_buf_len)
    if fed == total and calls and calls[-1][1] != tail:
        return "the residual buffer differs from the unconsumed tail"
    return None


def judge_datagram(ts, r):
    if isinstance(r, Exception):
        return "decode raised %r on a datagram of %d well-formed packets" % (r, len(ts))
    got = [fields_of(p) for p in r]
    if len(got) != len(ts):
        return "a datagram of %d packets decoded to %d packets" % (len(ts), len(got))
    if got != list(ts):
        k = next(j for j in range(len(ts)) if got[j] != ts[j])
        return "packet %d of %d came out with different fields / out of order" % (k + 1, len(ts))
    return None


def shrink_prefix(fails, n):
    """smallest m <= n with fails(m) (bisection, verified); n if the failure is not monotone"""
    lo, hi = 1, n
    while lo < hi:
        mid = (lo + hi) // 2
        if fails(mid): hi = mid
        else: lo = mid + 1
    return lo if fails(lo) else n


MAX_FAILING = 4          # failing cases after which a section stops exploring (a broken decoder fails everywhere)
MAX_LINE = 300000        # bytes of buffer + chunk above which a call is judged by the oracle only


def run_codecs(ctx, add, codecs, quick):
    rng = ctx.rng
    failing = {}
    v0codecs = [c for c in codecs if c.enc == "v0"]
    # one codec per v0 variant (8), v1, lite
    seen, chosen = set(), []
    for c in rng.sample(v0codecs, len(v0codecs)):
        if (c.sv, c.cv, c.fv) not in seen:
            seen.add((c.sv, c.cv, c.fv)); chosen.append(c)
    chosen += [c for c in codecs if c.enc != "v0"]
    n_cases = 0
    for ci, c in enumerate(chosen):
        lite = c.enc == "lite"
        if c.enc == "v0":
            ns = pick_counts(rng, quick, 1, 2, beyond=False) if ci >= 2 else pick_counts(rng, quick)
        else:
            ns = pick_counts(rng, quick, 4, 10)
        for n in ns:
            shapes = ["acks", rng.choice(["small", "mixed"])] if n > 150 else ["acks", "small", "mixed"] + (["big"] if n <= 100 and rng.random() < 0.5 else [])
            if c.enc == "v0" and ci >= 2: shapes = [rng.choice(shapes)]
            for shape in shapes:
                if failing.get(c.enc, 0) >= MAX_FAILING: continue
                ts, datas = burst(rng, c.enc, c.fv, c.encode, n, shape)
                if ts is None: continue
                n_cases += 1
                ctx.tag("many-in-one burst shape:%s:%s" % (c.enc, shape))
                if not lite:
                    data = b"".join(datas)
                    r = safe(c.obj.decode, data)
                    add(c.dec_line(data), ("err " + exc_name(r)) if isinstance(r, Exception) else fmt_packets(r), ("many%s" % bucket(n), c.enc))
                    why = judge_datagram(ts, r)
                    if why:
                        failing[c.enc] = failing.get(c.enc, 0) + 1
                        def fails(m, ts=ts, datas=datas):
                            return judge_datagram(ts[:m], safe(c.new().decode, b"".join(datas[:m]))) is not None
                        m = shrink_prefix(fails, n)
                        why_m = judge_datagram(ts[:m], safe(c.new().decode, b"".join(datas[:m]))) or why
                        ctx.violation("%s-many-in-one-datagram" % c.enc,
                                      "PRUDP %s: %d well-formed packets aggregated in ONE datagram do not decode to the same sequence: %s "
                                      "(shortest failing prefix of a burst of %d '%s' packets)" % (c.enc, m, why_m, n, shape),
                                      dict(compact_replay(ts[:m], [b"".join(datas[:m])]), family="many-codec", codec=c.ident(), why=why_m,
                                           how="codec.decode(chunks[0]) with the codec class of prudp.py built from these settings; expect n_packets packets"))
                    continue
                # lite: a possibly incomplete next packet after the burst, then the cuts
                tailsrc = c.encode(gen_lite(rng))
                tail = tailsrc[:rng.randrange(len(tailsrc))] if isinstance(tailsrc, bytes) and rng.random() < 0.5 else b""
                ends = ends_of(datas)
                for mode, chunks in cut_modes(rng, datas, tail).items():
                    model = mode == "one-piece" or len(chunks) <= 40
                    calls = feed_timed(c.new, chunks, True)
                    if model:
                        before = b""
                        for (r, buf), ch in zip(calls, chunks):
                            if len(before) + len(ch) > MAX_LINE: break
                            add("litefeed %s %s" % (hx(before), hx(ch)),
                                (("err " + exc_name(r)) if isinstance(r, Exception) else fmt_packets(r)) + " buf " + hx(buf),
                                ("many%s:%s" % (bucket(n), mode.split("-of-")[0]), "lite"))
                            before = buf
                    else:
                        ctx.case(key=None, nontrivial=False, tag="lite:many%s:%s:oracle-only" % (bucket(n), mode.split("-of-")[0]))
                    why = judge_stream(ts, ends, tail, chunks, calls)
                    if why:
                        failing[c.enc] = failing.get(c.enc, 0) + 1
                        def fails(m, ts=ts, datas=datas):
                            ch = [b"".join(datas[:m])]
                            return judge_stream(ts[:m], ends_of(datas[:m]), b"", ch, feed_timed(c.new, ch, True)) is not None
                        m = shrink_prefix(fails, n) if mode == "one-piece" else n
                        if mode == "one-piece" and m < n:
                            ch = [b"".join(datas[:m])]
                            why = judge_stream(ts[:m], ends_of(datas[:m]), b"", ch, feed_timed(c.new, ch, True)) or why
                            rep_ts, rep_chunks, rep_tail = ts[:m], ch, b""
                        else:
                            rep_ts, rep_chunks, rep_tail = ts, chunks, tail
                        ctx.violation("lite-many-in-one-chunk:%s" % mode.split("-of-")[0],
                                      "PRUDP lite: a stream of %d well-formed packets fed as %s (%d decode calls) is not decoded like the same "
                                      "bytes cut finely: %s" % (len(rep_ts), mode, len(rep_chunks), why),
                                      dict(compact_replay(rep_ts, rep_chunks), family="many-codec", codec=c.ident(), tail=rep_tail.hex(), why=why,
                                           how="feed the chunks to ONE fresh PRUDPLiteMessage; after every call the packets delivered so far "
                                               "must be the packets whose last byte has been fed"))
    ctx.tag("many-in-one bursts (codec level)", n_cases)


def bucket(n):
    return "<=16" if n <= 16 else "<=32" if n <= 32 else "<=64" if n <= 64 else "<=128" if n <= 128 else "<=256" if n <= 256 else "<=1024" if n <= 1024 else ">1024"


# ---------------------------------------------------------------------------------------------
# B. the real receive loops

class _End(BaseException):
    """end of the scripted input of a fake socket whose receive loop has no exit of its own"""


def _stream_closed():
    e = util.StreamError
    return (e[0] if isinstance(e, tuple) else e)()


class Recorder:
    """the endpoint bound in the transport's port table: PRUDPServerStream / PRUDPClient stand-in that records what is dispatched"""
    def __init__(self):
        self.log = []
    async def handle(self, packet, addr=None):
        self.log.append((fields_of(packet), addr))


class FakeSocket:
    """scripted socket: recv() hands out the next chunk; before it does, it notes how many packets have been dispatched so far
    and what the decoder's buffer holds (= the state after the previous chunk was processed)"""
    def __init__(self, kind, items, addr, probe):
        self.kind, self.items, self.addr, self.probe = kind, list(items), addr, probe
        self.i = 0
        self.marks = []
        self.extra_calls = 0
    def remote_address(self): return self.addr
    def local_address(self): return ("127.0.0.1", 1)
    async def send(self, data, addr=None): pass
    async def close(self): pass
    async def recv(self):
        self.marks.append(self.probe())
        await lowlevel.checkpoint()
        if self.i < len(self.items):
            it = self.items[self.i]; self.i += 1
            return it
        self.extra_calls += 1
        if self.kind == "socket" and self.extra_calls < 3:
            raise _stream_closed()
        raise _End()


def lite_buffer_of(dec):
    """the reassembly buffer behind a transport's decoder (selector or bare codec); None if it cannot be seen"""
    if dec is None: return None
    if hasattr(dec, "lite"): dec = dec.lite
    b = getattr(dec, "buffer", None)
    return bytes(b) if isinstance(b, (bytes, bytearray)) else None


async def run_transport(kind, tr, ver, sv, cv, fv, key, dest, items, addr=("10.0.0.7", 5000)):
    """kind: 'socket' (PRUDPSocketTransport.handle), 'datagram' (PRUDPDatagramTransport.process), 'client'
    (PRUDPClientTransport.process). items: chunks (socket, client) or datagrams (datagram: sent from `addr`).
    Returns (per item: packets dispatched while it was processed, buffer after it, error or None)"""
    s = make_settings(tr, ver, sv, cv, fv, key)
    rec = Recorder()
    err = None
    if kind == "socket":
        t = prudp.PRUDPSocketTransport(s, ("127.0.0.1", 1))
        def probe():
            dec = safe(t.decoder, addr)
            return (len(rec.log), None if isinstance(dec, Exception) else lite_buffer_of(dec))
        sock = FakeSocket(kind, items, addr, probe)
        loop = lambda: t.handle(sock)
    elif kind == "datagram":
        sock = FakeSocket(kind, [(d, addr) for d in items], addr, None)
        t = prudp.PRUDPDatagramTransport(s, sock, None)
        sock.probe = lambda: (len(rec.log), b"")
        loop = t.process
    else:
        sock = FakeSocket(kind, items, addr, None)
        t = prudp.PRUDPClientTransport(s, sock, None)
        sock.probe = lambda: (len(rec.log), lite_buffer_of(getattr(t, "packet_encoder", None)) if tr != 0 else b"")
        loop = t.process
    with t.ports.bind(rec, dest[1], dest[0]):
        try:
            await loop()
        except _End:
            pass
        except Exception as e:
            err = e
    marks = sock.marks
    per = []
    for i in range(len(items)):
        if i + 1 < len(marks):
            a, b = marks[i][0], marks[i + 1][0]
            per.append(([f for f, _ in rec.log[a:b]], marks[i + 1][1]))
    return per, rec.log, err


def judge_transport(kind, ts, ends, items, per, log, err, addr, lite):
    """ends: for every packet the (cumulative) number of bytes (lite) / datagrams (udp) after which it is complete"""
    if err is not None:
        return "the receive loop ended with %r" % (err,)
    if len(per) < len(items):
        return "the receive loop asked for %d of %d chunks only" % (len(per), len(items))
    fed, done = 0, 0
    for i, ((got, buf), it) in enumerate(zip(per, items)):
        fed += len(it) if lite else 1
        due = bisect.bisect_right(ends, fed)
        if done + len(got) != due:
            return ("%s %d of %d carries / completes %d whole packets (%d received in total), %d were dispatched before the loop read on (%d in total)"
                    % ("chunk" if lite else "datagram", i + 1, len(items), due - done, due, len(got), done + len(got)))
        if got != list(ts[done:due]):
            k = next(j for j in range(due - done) if got[j] != ts[done + j])
            return "packet %d of %d was dispatched with different fields / out of order" % (done + k + 1, len(ts))
        done = due
    if kind != "client" and any(a != addr for _, a in log):
        return "a packet was dispatched with another source address"
    if len(log) != done:
        return "%d packets dispatched in total, %d received" % (len(log), done)
    return None


def transport_lines(add, kind, tr, ver, sv, cv, fv, key, items, per, tag):
    """the same chunks through the Lean selector decode: what each chunk must release and what stays buffered"""
    before = b""
    for it, (got, buf) in zip(items, per):
        if buf is None: return False
        if len(before) + len(it) > MAX_LINE: return True
        pk = "ok" if not got else "ok " + " | ".join(fmt_fields(f) for f in got)
        real = pk + " buf " + hx(buf)
        if kind == "client":
            # PRUDPClientTransport decodes with select(settings version), not by magic
            which = "lite" if tr != 0 else "v0" if ver == 0 else "v1"
            if which == "lite": line = "litefeed %s %s" % (hx(before), hx(it))
            else:
                line = ("v0dec %s %s" % (cfg_str(sv, cv, fv, key), hx(it))) if which == "v0" else "v1dec %s" % hx(it)
                real = pk
        else:
            line = "seldec %d %d %s %s %s" % (tr, ver, cfg_str(sv, cv, fv, key), hx(before), hx(it))
        add(line, real, (tag, "transport"))
        before = buf
    return True


def run_transports(ctx, add, quick):
    rng = ctx.rng
    scen = []
    # (kind, transport, version)
    plans = [("socket", 1, 2), ("socket", 2, 2), ("socket", rng.choice([1, 2]), rng.choice([0, 1])),
             ("datagram", 0, 0), ("datagram", 0, 1), ("datagram", 0, 2), ("datagram", 0, 2),
             ("client", 0, 0), ("client", 0, 1), ("client", 1, 2), ("client", 2, rng.choice([0, 1, 2]))]
    reps = 1 if quick else 4
    kinds_seen = set()
    for kind, tr, ver in plans * reps:
        # a count beyond 1000 in the first plan of every kind (socket / datagram / client), in a third of the others
        ns = pick_counts(rng, True, 2, 3, beyond=(kind not in kinds_seen or rng.random() < 0.3)) if quick else \
             pick_counts(rng, True, 4, 8, beyond=rng.random() < 0.5)
        kinds_seen.add(kind)
        scen.append((kind, tr, ver, ns))

    n_runs = [0]
    failing = {}

    async def main():
        for kind, tr, ver, ns in scen:
            if failing.get(kind, 0) >= MAX_FAILING: continue
            sv, cv, fv = rng.choice(V0_VARIANTS); key = rng.choice(ACCESS_KEYS)
            lite = tr != 0
            s = make_settings(tr, ver, sv, cv, fv, key)
            encs = ["lite"] if lite else ["v0"] if ver == 0 else ["v1"] if ver == 1 else (["v0", "v1"] if kind == "datagram" else ["v1"])
            codec = {"v0": prudp.PRUDPMessageV0(s), "v1": prudp.PRUDPMessageV1(s), "lite": prudp.PRUDPLiteMessage(s)}
            dest = (rng.randint(0, 15), rng.randint(0, 255 if lite else 15))
            addr = ("10.%d.%d.%d" % (rng.randint(0, 255), rng.randint(0, 255), rng.randint(1, 254)), rng.randint(1024, 65535))
            ident = {"kind": kind, "transport": tr, "version": ver, "signature_version": sv, "checksum_version": cv, "flags_version": fv,
                     "access_key": key, "dest_type": dest[0], "dest_port": dest[1], "addr": list(addr)}

            def make(n, shape, enc):
                enc_fn = lambda t: safe(codec[enc].encode, make_packet(t))
                for _ in range(20):
                    ts, datas = burst(rng, enc, fv, enc_fn, n, shape, dest, defined_types=True)
                    if ts is None: return None, None
                    # a v0 datagram that starts with the v1 magic is inherently ambiguous under version 2 (by magic): excluded
                    if not (enc == "v0" and ver == 2 and b"".join(datas)[:3] == b"\xea\xd0\x01"): return ts, datas
                return None, None

            async def once(ts, ends, items, tag, model):
                n_runs[0] += 1
                per, log, err = await run_transport(kind, tr, ver, sv, cv, fv, key, dest, items, addr)
                if model and err is None and len(per) == len(items):
                    if not transport_lines(add, kind, tr, ver, sv, cv, fv, key, items, per, tag):
                        ctx.case(key=None, nontrivial=False, tag="transport:%s:buffer-not-visible" % kind)
                else:
                    ctx.case(key=None, nontrivial=False, tag="transport:%s:oracle-only" % tag)
                return judge_transport(kind, ts, ends, items, per, log, err, addr, lite)

            if lite:
                for n in ns:
                    shape = rng.choice(["acks", "acks", "small", "mixed"])
                    ts, datas = make(n, shape, "lite")
                    if ts is None: continue
                    tl = gen_lite(rng)
                    tailsrc = safe(codec["lite"].encode, make_packet(tl[:5] + dest + tl[7:]))
                    tail = tailsrc[:rng.randrange(len(tailsrc))] if isinstance(tailsrc, bytes) and rng.random() < 0.4 else b""
                    ends = ends_of(datas)
                    modes = cut_modes(rng, datas, tail)
                    names = ["one-piece"] + rng.sample([m for m in modes if m != "one-piece"], 2)
                    for mode in names:
                        items = modes[mode]
                        if failing.get(kind, 0) >= MAX_FAILING: continue
                        why = await once(ts, ends, items, "%s:many%s:%s" % (kind, bucket(n), mode.split("-of-")[0]), len(items) <= 40)
                        if why:
                            failing[kind] = failing.get(kind, 0) + 1
                            m = n
                            if mode == "one-piece":
                                async def fails(k):
                                    return await once(ts[:k], ends_of(datas[:k]), [b"".join(datas[:k])], "shrink", False)
                                lo, hi = 1, n
                                while lo < hi:
                                    mid = (lo + hi) // 2
                                    if await fails(mid): hi = mid
                                    else: lo = mid + 1
                                w = await fails(lo)
                                if w: m, why, items = lo, w, [b"".join(datas[:lo])]
                            loopname = "PRUDPSocketTransport.handle" if kind == "socket" else "PRUDPClientTransport.process"
                            ctx.violation("transport-many-in-one-chunk:%s:%s" % (kind, mode.split("-of-")[0]),
                                          "%s (lite over %s): a stream of %d well-formed packets received as %s (%d reads): %s"
                                          % (loopname, "tcp" if tr == 1 else "websocket", m, mode, len(items), why),
                                          dict(compact_replay(ts[:m], items), family="many-transport", transport=ident, why=why,
                                               how="fake socket whose recv() returns the chunks; a recording endpoint bound at (dest_type, dest_port); "
                                                   "count what has been dispatched each time the loop calls recv() again"))
            else:
                # a sequence of aggregated datagrams, each carrying n packets
                grams, ts_all, ends = [], [], []
                for n in ns:
                    enc = rng.choice(encs)
                    shape = rng.choice(["acks", "small", "mixed"])
                    ts, datas = make(n, shape, enc)
                    if ts is None: continue
                    grams.append((b"".join(datas), ts, datas, enc, shape))
                rng.shuffle(grams)
                for gi, g in enumerate(grams):
                    ts_all += g[1]; ends += [gi + 1] * len(g[1])
                items = [g[0] for g in grams]
                if not items: continue
                why = await once(ts_all, ends, items, "%s:aggregated" % kind, True)
                if why:
                    failing[kind] = failing.get(kind, 0) + 1
                    # which datagram, then its shortest failing prefix
                    rep = None
                    for data, ts, datas, enc, shape in grams:
                        w = await once(ts, [1] * len(ts), [data], "shrink", False)
                        if w:
                            lo, hi = 1, len(ts)
                            while lo < hi:
                                mid = (lo + hi) // 2
                                if await once(ts[:mid], [1] * mid, [b"".join(datas[:mid])], "shrink", False): hi = mid
                                else: lo = mid + 1
                            w2 = await once(ts[:lo], [1] * lo, [b"".join(datas[:lo])], "shrink", False)
                            rep = (ts[:lo], [b"".join(datas[:lo])], w2, enc) if w2 else (ts, [data], w, enc)
                            break
                    if rep is None: rep = (ts_all, items, why, "/".join(sorted({g[3] for g in grams})))
                    loopname = "PRUDPDatagramTransport.process" if kind == "datagram" else "PRUDPClientTransport.process"
                    ctx.violation("transport-many-in-one-datagram:%s:%s" % (kind, rep[3]),
                                  "%s (udp, prudp.version=%d): %d datagram(s), the failing one aggregating %d well-formed %s packets: %s"
                                  % (loopname, ver, len(rep[1]), len(rep[0]), rep[3], rep[2]),
                                  dict(compact_replay(rep[0], rep[1]), family="many-transport", transport=ident, why=rep[2],
                                       how="fake socket whose recv() returns the datagrams; a recording endpoint bound at (dest_type, dest_port); "
                                           "count what has been dispatched each time the loop calls recv() again"))

    anyio.run(main)
    ctx.tag("many-in-one receive-loop runs (transport level)", n_runs[0])


def run_many(ctx, add, codecs):
    quick = ctx.tier == "quick"
    run_codecs(ctx, add, codecs, quick)
    run_transports(ctx, add, quick)


# ---------------------------------------------------------------------------------------------

def replay_many(r):
    """re-run a recorded many-in-one failure on the current tree; 1 = still fails"""
    if "chunks" not in r:
        print("replay: the recorded chunks were too big to store; re-run the check with the recorded seed"); return 0
    chunks = [bytes.fromhex(x) for x in r["chunks"]]
    n = r["n_packets"]
    if r["family"] == "many-codec":
        cd = r["codec"]
        s = make_settings(sv=cd["signature_version"], cv=cd["checksum_version"], fv=cd["flags_version"], key=cd["access_key"])
        o = {"v0": prudp.PRUDPMessageV0, "v1": prudp.PRUDPMessageV1, "lite": prudp.PRUDPLiteMessage}[cd["enc"]](s)
        counts = []
        for ch in chunks:
            x = safe(o.decode, ch)
            counts.append(repr(x) if isinstance(x, Exception) else len(x))
        print("replay: %d packets sent in %d chunks, decode calls returned %s packets" % (n, len(chunks), counts[:50]))
        bad = any(isinstance(x, str) for x in counts) or (len(chunks) == 1 and counts[0] != n) or sum(x for x in counts if isinstance(x, int)) != n
        return 1 if bad else 0
    t = r["transport"]
    async def main():
        return await run_transport(t["kind"], t["transport"], t["version"], t["signature_version"], t["checksum_version"], t["flags_version"],
                                   t["access_key"], (t["dest_type"], t["dest_port"]), chunks, tuple(t["addr"]))
    per, log, err = anyio.run(main)
    print("replay: %d packets sent in %d chunks/datagrams, dispatched per chunk %s, total %d, loop error %r"
          % (n, len(chunks), [len(g) for g, _ in per][:50], len(log), err))
    return 1 if (err is not None or len(log) != n or (len(chunks) == 1 and (not per or len(per[0][0]) != n))) else 0
